"""One table of what is claimed per property (used by main.py for evidence and by gen_manifest.py)."""

COMMON_NOTE = ("Trusted: Coq 8.16.1 kernel (vm_compute for evaluation, no native_compute); the hand-written Gallina model and the "
               "correspondence harness that runs model and implementation on the same generated histories every run; CPython semantics, "
               "heapq (the model's book is the priority-sorted list), dict order; prices exact rationals (the matching engine only compares/copies "
               "prices; computed floats compared exactly on the dyadic stream only). ")

CLAIMS = {
 "C01": dict(level="proof", suites=["M"], design="5/C01",
   technique="Coq proof by induction over the matching walk (any price order, any book depth) + reachable-state invariant + differential correspondence (vm_compute)",
   text="Theorems C01_* (props/C01.v): every state reachable by ANY operation list has priority-sorted books; for one matching round on such a state "
        "there is one price p, the emitted fills are exactly the walk's fills priced at p, each pairs a resting buy with a resting sell of this market, "
        "p is <= every filled buy limit and >= every filled sell limit (market orders unbounded), and p is the limit of the earlier-accepted order of the "
        "last matched pair (the limit side when the other is a market order). Proved for unbounded books over an abstract strict price order and instantiated at Q. "
        "The model (Market.v/Match.v) is run against pams.market.Market on generated histories (continuous, call-auction, deep books) every run; a Python monitor "
        "written from the property text checks every fill of the real engine.",
   note=COMMON_NOTE),
 "C02": dict(level="proof", suites=["M"], design="5/C02",
   technique="Coq proof (strict total order; sortedness invariant; prefix-consumption of the walk) + differential correspondence + operator cross-check on real Order objects",
   text="Theorems C02_* (props/C02.v): the comparison on accepted same-side orders is irreflexive, asymmetric, transitive, total and equals the stated ranking "
        "(market first, better price, earlier time, lower id); every reachable book is sorted by it with unique ids, so the head is the unique best order; in a round "
        "each side is consumed as a prefix (done fully / at most one partial / rest untouched), i.e. no order is filled while a higher-priority one keeps volume. "
        "Tie to code: best order, sorted content and depth of the real heap are compared with the model after every operation; the real __lt__/__gt__/__eq__ are "
        "compared with the model's comparator on generated and small-domain order pairs.",
   note=COMMON_NOTE),
 "C03": dict(level="proof", suites=["M"], design="5/C03",
   technique="Coq proof that a matching round never returns an error (walk followed on the books; price-defined argument through market-volume bookkeeping) + post-condition + differential correspondence incl. error kinds",
   text="Theorems C03_* (props/C03.v): on EVERY well-formed running market (any depth, market orders on one or both sides, crossed books accumulated with matching off) the round returns - none of the model's "
        "Err sites, which stand one-for-one for the assertions of Market._execution / _execute_orders / change_order_volume, is reachable; an executable book always yields a price; after a round, if both sides "
        "are non-empty and one best order is a limit order then both are and best bid < best ask; on a stopped market the only refusal is 'market is not running'. All lifted to every state reachable by any "
        "operation list. The model is compared with the real engine (results and exception kinds) on every generated history; the monitor recomputes the best orders from the resting set by the property's own ranking.",
   note=COMMON_NOTE),
 "C04": dict(level="proof", suites=["M"], design="5/C04",
   technique="Coq proof by invariant over all operation lists (lifetime invariant, dead-stays-dead) + differential correspondence of the full record stream",
   text="Theorems C04_* (props/C04.v): lifetime invariant of every reachable state; resting volume positive; the clock step to t reports and removes exactly the "
        "resting orders with accepted time+ttl+1 = t; every fill names two orders resting at that moment within their lifetimes; no fill after an accepted cancel "
        "or after a reported expiry, whatever follows; accepted ids are fresh consecutive integers, re-submission / foreign market refused. NOTHING IS LOST (theories/MarketAcct.v, "
        "an invariant over the record stream for all operation lists): accepted volume = sum of fills + resting volume + volume reported by the FIRST terminal event, a resting "
        "order has had no terminal event, and after the first terminal event nothing rests and the fills sum to accepted - reported. The same identity is checked by the monitor on "
        "every real history and the full Order/Cancel/Execution/Expiration record stream is compared with the model by the correspondence.",
   note=COMMON_NOTE),
 "C06": dict(level="proof", suites=["M"], design="5/C06",
   technique="Coq proof of the frame property over all operation lists + differential correspondence incl. storage chunk crossings",
   text="Theorems C06_* (props/C06.v): for ANY further operation list, the eight recorded series values at every time strictly before the current time never change "
        "(across the 100-step storage chunks); the clock advances by exactly one per clock step and never goes back; queries for t > now are refused and t <= now are not. "
        "Run level (theories/SimClock.v over the Level-S model, for every configuration with distinct market ids, every tape of runner decisions, all agent behaviour and "
        "fundamental paths): nothing in a step but the simulator's clock update moves any market's time; the clock update moves every market (index markets included) by exactly "
        "one; one step = one tick; a session spans exactly its configured steps and is entered where the previous one ended; an unfailed run ends with all markets at the total "
        "number of steps. The same facts are checked on the real runner by the Level-S correspondence and a monitor written from the property text.",
   note=COMMON_NOTE),
 "C08": dict(level="proof", suites=["M"], design="5/C08",
   technique="Coq proof of the price/mid/last/counter rules per event with a storage invariant over all operation lists + differential correspondence",
   text="Theorems C08_* (props/C08.v): storage invariant in every reachable state; after every accepted order and cancel the mid is the book's mid (mean of best limits, else None), "
        "last-trade untouched, market price = last trade, else mid, else previous (unchanged if not running); after every fill last = market price = fill price, volume += v, "
        "turnover += v*p; at the clock step mid/last are carried, market price refreshed only while running; counters move only with acceptances and fills. "
        "Best quotes/depth are compared with the real book after every operation by the correspondence.",
   note=COMMON_NOTE),
 "C19": dict(level="proof", suites=["M"], design="5/C19",
   technique="Coq proof over Q (lra/field) + differential correspondence of the executable model (vm_compute)",
   text="Theorems C19_* (props/C19.v) prove, for every tick>0, price and side, that rounding leaves on-grid prices unchanged, lands on the grid, "
        "and moves an off-grid price by less than one tick downwards for buys / upwards for sells (exact rationals). The model function is the one "
        "the Level-M market model calls in add_order; that model is run against pams.market.Market on generated histories every run and must agree exactly "
        "on dyadic ticks/prices; a Python monitor written from the property text checks every accepted price (strict on dyadic, 1e-9 relative otherwise).",
   note=COMMON_NOTE + "For decimal ticks the property's own hedge applies and the monitor uses a 1e-9 relative tolerance."),
}

S_NOTE = (COMMON_NOTE + "Level S: the runner's random decisions (permutations, draws), the agents' batches and the delivered fundamental values are "
          "explicit input tapes of the model, recorded from the real run (recording random.Random that delegates to a plain generator; scripted agents; "
          "wrapped fundamentals); theorems quantify over all tapes. Ground-truth events are taken by wrapping the market's own methods on the instances. ")

CLAIMS.update({
 "C05": dict(level="proof", suites=["S"], design="5/C05",
   technique="Coq invariant lifted over the whole run (SimLift.run_pres) + arithmetic conservation lemma + differential correspondence of holdings at every callback and step end",
   text="Theorems C05_* (props/C05.v): for every configuration, runner tape, agent behaviour and fundamental path the final holdings are the endowment folded, in order, "
        "with exactly the run's fills, and this identity holds after every atomic update (so nothing else changes holdings and each round is applied once, before notifying); "
        "one fill conserves total cash and every market's total shares (self-trades included). Whole runs (theories/SimConserve.v, C05_a_run_conserves_cash_and_shares): with distinct agent ids and "
        "every agent holding a (possibly zero) position in every market, a run that ends without exception leaves total cash and each market's total shares exactly as at the start - every fill "
        "of such a run names a configured market and two existing agents (from the C11 callback theorem + a lifted invariant). The Level-S model is run against the real SequentialRunner on generated "
        "simulations every run; holdings are compared at every callback and step end; a monitor written from the property text recomputes the fold from the ground-truth fills.",
   note=S_NOTE),
 "C09": dict(level="proof", suites=["S"], design="5/C09",
   technique="Coq run-level invariant (execution switch vs configuration vs halt memory) via SimLift + local theorems on round dispatch and consultation caps + differential correspondence",
   text="Theorems C09_* (props/C09.v): every fill of every run lies in a round on its own market, on a running market, in a session CONFIGURED with execution - for every set of events "
        "(trading halts included); a round follows an accepted request iff the session's switch is on; without placement the order phase is skipped; collect keeps at most maxNormalOrders "
        "non-empty batches along one walk of the permuted agents. The consultation stream (who is asked, in which phase), the rounds and the switches are compared with the real runner on "
        "every generated simulation; the monitor checks caps, at-most-once, HFT phases (rate 0 and 1), and round-follows-request against the switch seen at the callback. Within a step (theories/SimConsult.v): the agents asked are a prefix of the permuted list, in that order, each once, for normal and high-frequency agents; handling orders asks nobody.",
   note=S_NOTE + "'In random order' and 'with the configured probability' are properties of random.Random (oracle): the model says which draw decides what."),
 "C10": dict(level="proof", suites=["S"], design="5/C10",
   technique="Coq invariant produced = delivered ++ pending lifted over the whole run + differential correspondence of the delivery stream",
   text="Theorems C10_* (props/C10.v): in every normally ending run the sequence of order/cancel/fill/expiry records delivered to the logger equals the sequence the markets produced "
        "(same records, same order, each once); the invariant produced = delivered ++ pending holds after every atomic update; every boundary record flushes. "
        "Begin / end records (theories/SimMarks.v): a run that ends without exception wrote exactly simulation begin, per session its begin record, per step one step-begin record per market "
        "then one step-end record per market, its end record, and simulation end - for every configuration with distinct market ids, every tape and agent behaviour; "
        "the order phase, the hooks and the clock update write none. "
        "The delivery stream of a recording Logger subclass (process_* calls incl. simulation/session/step begin-end records) is compared with the model on every generated run; "
        "the monitor compares deliveries with ground-truth events taken at the market's own methods.",
   note=S_NOTE),
 "C11": dict(level="proof", suites=["S"], design="5/C11",
   technique="Coq proof over whole runs of the Level-S model (callback stream = what the born records call for, by an owed-list invariant lifted through the runner) + local theorems per fill / per round + differential correspondence of the callback stream + monitor against ground truth",
   text="Theorems C11_* (props/C11.v): the notification of a fill emits the buyer's callback then the seller's with that fill's record (twice to one agent for a self-trade) and changes no holdings; "
        "holdings are updated for the whole round before the first notification. Whole runs (theories/SimCallbacks.v): for every configuration, tape of runner decisions, agent behaviour "
        "(normal and high-frequency) and fundamental path, a run that ends without exception has a callback stream equal, in order, to what the records born in the markets call for - "
        "owner per accepted order, owner of the cancelled order per accepted cancel, buyer then seller per fill, nobody per expiry - so each party is told exactly once and nobody else "
        "(C11_only_parties_are_notified); at every request boundary nothing is owed; every callback carries the called agent's holdings = endowment folded with every fill born before it "
        "(theories/SimHoldCb.v), i.e. holdings are up to date for the whole round when anybody is told. Every callback event (agent, kind, record, holdings at that moment) is also compared with the model on "
        "real runs and the monitor compares callbacks with ground-truth acceptances and fills.",
   note=S_NOTE),
 "C13": dict(level="proof", suites=["S"], design="5/C13",
   technique="Coq proof of dispatch exactness for every hook table, invariance of the table over the run and a whole-run theorem for the hook calls of the order phase (relational adds-lemmas composed through the runner) + differential correspondence of probe hook calls",
   text="Theorems C13_* (props/C13.v): for every occurrence the invoked hooks are, as a multiset, exactly the registered hooks of that kind/phase whose time list is absent or contains the time; "
        "always-hooks precede timed hooks; repeated time entries do not duplicate; the table is fixed during any run. "
        "Whole runs, order phase (theories/SimHooks.v): for every configuration with distinct market ids, hook table, tape, agent behaviour and fundamental path, a run that ends without "
        "exception has a stream of [user-event hook calls around orders, cancels and fills + acceptances + callbacks] equal to what the records born in the markets call for - per accepted "
        "order its before-hooks (at the acceptance time), the acceptance, the owner's callback, its after-hooks; likewise per cancel; per fill the callbacks then the after-execution hooks - "
        "so each registered hook fires exactly once per matching occurrence and at no other moment. Session and market-step hooks (theories/SimStepHooks.v): the stream of "
        "begin/end records interleaved with the calls of session and market-step hooks is determined by the configuration alone - before-session hooks at the session's start time, "
        "per step and market the before-step hooks that pass the class / instance filter (at the clock time), the order phase without any such call, the after-step hooks, the "
        "after-session hooks at start + steps - 1 - each exactly once, for every configuration with distinct market ids, every hook table, tape and agent behaviour. Probe events with random hook specs (all kinds, time lists with repeats, "
        "instance and class filters) record every call; the stream is compared with the model and the monitor recomputes the expected calls from ground-truth occurrences.",
   note=S_NOTE),
 "C14": dict(level="proof", suites=["S"], design="5/C14",
   technique="Coq local theorems on the shocks' registration and effect + differential correspondence + monitor recomputing expected acceptances and fundamentals",
   text="Theorems C14_* (props/C14.v): an order-mistake shock leaves orders for other markets and all orders after it is spent unchanged, and rewrites the first target order to the configured "
        "limit order at market price x (1+rate), buying iff rate > 0; shocks register hooks exactly for trigger = own session start + offset (window steps, target instance); session starts accumulate; "
        "the fundamental shock scales exactly the target's fundamental at the current time. Whole runs with shocks in any session, 1-3 markets, are compared with the model; the monitor checks every "
        "step's fundamental against delivered x product of active shocks and every accepted order against its request.",
   note=S_NOTE + "Dyadic rates and constant fundamentals (volatility 0) make every float operation exact."),
 "C15": dict(level="proof", suites=["S"], design="5/C15",
   technique="Coq proof over Q of the clipping band (+ tick rounding) and of the non-target pass-through + differential correspondence + monitor",
   text="Theorems C15_* (props/C15.v): the clipped price lies in [p0(1-r), p0(1+r)]; inside prices and market orders pass unchanged; orders for non-target markets pass unchanged without failure; "
        "after tick rounding the accepted price is within the band widened by one tick. Every accepted order of generated runs (prices far outside / on the edge / inside) is compared with the model "
        "and with the monitor's own clip+round.",
   note=S_NOTE + "Order-mistake shocks and user hooks dispatched after the rule can rewrite the price again; that is outside C15's quantifier (DESIGN 5/C15)."),
 "C16": dict(level="proof", suites=["S"], design="5/C16",
   technique="Coq run-level theorems (fills only in rounds on running markets; a halted market stays stopped while the record stands, lifted over steps, sessions and runs) + local theorems on halt decision / hold / resume + differential correspondence + schedule monitor",
   text="Theorems C16_* (props/C16.v): no fill on a market that is not running (market level and for every run); the halt fires at once when |p0 - price| >= |p0 x rate x (halts+1)| on a running target, "
        "does nothing otherwise; the market stays stopped until the clock passes halt time + length and resumes at the step after if its session is still current; orders are accepted while stopped. "
        "Whole sessions and runs (theories/SimHalt.v, configurations with one halt rule): while the rule holds a record naming the current session, matching is off for the session and the recorded "
        "market is stopped - an invariant of every atomic update of a step, hence of any number of steps, and of every run (records never name a session that has not started). "
        "Running flags and switches at every step record are compared with the model; the monitor simulates the schedule from the property text.",
   note=S_NOTE),
 "C17": dict(level="proof", suites=["S"], design="5/C17",
   technique="Coq proof that the computed index is the share-weighted average for any components + differential correspondence (1e-9 relative on the float division) + monitor + setup validation check",
   text="Theorems C17_* (props/C17.v): the index value / recorded fundamental is (sum value_i x shares_i)/(sum shares_i) over the components, for any number of components and unequal shares; "
        "index markets are stepped after all plain markets. Runs with an index over 2-3 components are compared with the model; the monitor recomputes both averages from the components' values at "
        "the same moment / delivered at the tick; duplicate components and missing outstanding shares must be rejected at setup.",
   note=S_NOTE),
})
CLAIMS["C18"] = dict(level="proof", suites=["C"], design="5/C18",
   technique="Coq proofs on component models (json_extends resolution + termination by pigeonhole, group expansion, supports, legacy keys, class lookup) + differential correspondence + monitor; PrimFloat witness for the known float finding",
   text="Theorems C18_* (props/C18.v): json_extends returns, for every inheritance graph, the entry's own keys and for every other non-excluded key the nearest ancestor's value, never loops "
        "(fuel = entries + 2 is never exhausted; missing parents and cycles are errors); a count / inclusive range creates exactly that many entities with consecutive ids and distinct names "
        "(lengths 1 and 2 included); accessible markets are the union of the listed groups; uniform values lie in [min, max) and exponential ones are positive in exact arithmetic; legacy keys are "
        "equivalent to their replacements; a class name resolves iff exactly one candidate exists. The real json_extends (several resolutions on one settings dict, which must stay unmodified), "
        "SequentialRunner._setup on every range of length 1-3, JsonRandom with a stub generator, Session.setup and find_class are compared with the model every run. "
        "K1 (uniform can return max in binary64) is a known finding with a bit-exact PrimFloat witness.",
   note=COMMON_NOTE + "Names and opaque values are interned as integers; key order of the merged dict is not compared (the property does not speak about it). "
        "Axioms under the K1 witness: Coq's primitive float operations only.")
CLAIMS["C12"] = dict(level="proof", suites=["F"], design="5/C12",
   technique="Coq proofs: structural state machine of Fundamentals over an abstract price type (history preservation, shock effect, termination) + real-number laws; differential correspondence with recorded generation rounds; numeric algebraic probe of the return transform (partial: NumPy/SciPy/libm trusted)",
   text="Theorems C12_* (props/C12.v): reads (across any number of generation chunks) never change a value at or below the regeneration point; a parameter change at t alters no value at times <= t; "
        "a shock at t multiplies exactly the target's value at t and nothing else at times <= t, later values continue from the new level; reads terminate; over the reals prices are strictly positive, "
        "the zero-volatility path is initial x exp(drift x t), regeneration continues the same path, and Cholesky rows give the configured volatilities and correlations. "
        "The real Fundamentals (+ Market.change_fundamental_price) is driven through scripts of clock steps, parameter changes, shocks and reads ahead; every generation round is recorded and fed to the model, "
        "all prices are compared exactly; each round is checked numerically against last kept x exp(cumsum(log-returns)) and an algebraic probe (stub NumPy generator: zeros and unit impulses) checks "
        "drift and M M^T = vol C vol for the currently configured parameters after every change. PARTIAL: the distributional claim rests on NumPy's standard_normal (oracle).",
   note=COMMON_NOTE + "Axioms under the real-number theorems: ClassicalDedekindReals.sig_not_dec, sig_forall_dec, FunctionalExtensionality.functional_extensionality_dep (Coq standard library Reals). "
        "Admissible inputs: positive initial values, non-negative volatilities, positive-definite correlation matrices, changes at times within the generated horizon.")
CLAIMS["C20"] = dict(level="proof", suites=["A"], design="5/C20",
   technique="Coq proofs of the agents' decision kernels (Q for market maker / arbitrage / FCN order rule, R for the FCN sign law) + differential correspondence with recorded libm results and gauss draws + monitor (partial: float/libm glue tested)",
   text="Theorems C20_* (props/C20.v): the FCN agent (fixed margin) emits one limit order of volume 1, lifetime = window, own id, buying exactly when expected price > market price (selling when below, nothing at equality) "
        "at the expected price shaded by the margin; over the reals the side is the sign of the weighted fundamental/chart/noise log-return; the market maker quotes one buy and one sell on its target, symmetric around the base "
        "price (mid of best accessible limit quotes, else market price) and separated by fundamental x spread; the arbitrage agent is silent unless everything runs and the gap exceeds the threshold, then sends one index order "
        "of n x v against n component orders of v on the opposite side. The real FCNAgent, MarketShareFCNAgent, MarketMakerAgent and ArbitrageAgent are driven in controlled market states built through the runner and Level-M "
        "operations; math.log/exp results and gauss draws are recorded and fed to the model (prices to 1e-9 relative for FCN, exact for the others); the monitor recomputes the documented strategy independently.",
   note=COMMON_NOTE + "PARTIAL: libm (log, exp), random.gauss and random.choices are oracles; a side decision with |expected/market - 1| < 1e-9 is counted inconclusive-float, never a violation. "
        "Normal-margin mode is outside the stated property. Real-number theorems depend on the standard library's real axioms.")
CLAIMS["C06"]["suites"] = ["M", "S"]
CLAIMS["C10"]["suites"] = ["S", "M"]
CLAIMS["C04"]["suites"] = ["M", "S"]

def c17_setup_checks(seed, tier, cov):
    """component validation happens at setup: a market named twice among the components, or a component without outstanding
    shares, must be refused (property text: components must be distinct markets that declare outstanding shares)"""
    import random
    from pams.runners import SequentialRunner
    out = []
    base = {"simulation": {"markets": ["A", "B", "I"], "agents": [], "sessions": [{"sessionName": 0, "iterationSteps": 1,
            "withOrderPlacement": True, "withOrderExecution": True, "withPrint": False}]},
            "A": {"class": "Market", "tickSize": 1.0, "marketPrice": 100.0, "outstandingShares": 100},
            "B": {"class": "Market", "tickSize": 1.0, "marketPrice": 200.0, "outstandingShares": 300}}
    import copy
    for label, comps, patch in [("duplicate-component", ["A", "B", "A"], None), ("duplicate-component", ["B", "B"], None),
                                ("component-without-outstanding-shares", ["A", "B"], "B")]:
        cfg = copy.deepcopy(base)
        cfg["I"] = {"class": "IndexMarket", "tickSize": 1.0, "marketPrice": 100.0, "outstandingShares": 100, "markets": comps}
        if patch:
            del cfg[patch]["outstandingShares"]
        try:
            r = SequentialRunner(settings=cfg, prng=random.Random(seed))
            r._setup()
            out.append({"rule": "components-distinct-with-outstanding-shares", "at": 0,
                        "detail": {"case": label, "components": comps, "accepted": True}})
        except (ValueError, AssertionError):
            pass
        cov["evaluations"] += 1
    # the index follows its CURRENT components: evaluated, then given a further component (IndexMarket._add_market, the API setup itself
    # uses), then evaluated again - both values and the fundamental recorded at the next clock step are the share-weighted averages
    from pams.index_market import IndexMarket
    from pams.market import Market
    from pams.simulator import Simulator
    rnd = random.Random(1700 + seed)
    for trial in range(8 if tier == "quick" else 80):
        sim = Simulator(prng=random.Random(trial))
        comps = []
        for k in range(3):
            m = Market(market_id=k, prng=random.Random(k), simulator=sim, name=f"m{k}")
            m.setup({"tickSize": 1.0, "marketPrice": float(rnd.choice([100, 200, 300, 400])), "outstandingShares": rnd.choice([100, 200, 500])})
            sim._add_market(m, group_name="g")
            sim.fundamentals.add_market(market_id=k, initial=float(rnd.choice([100, 250, 400])), drift=0.0, volatility=0.0)
            comps.append(m)
        idx = IndexMarket(market_id=3, prng=random.Random(9), simulator=sim, name="idx")
        idx.setup({"tickSize": 1.0, "marketPrice": 100.0, "outstandingShares": 100, "markets": ["m0", "m1"]})
        sim._add_market(idx, group_name="i")
        sim.fundamentals.add_market(market_id=3, initial=100.0, drift=0.0, volatility=0.0)
        sim._update_times_on_markets(sim.markets)

        def avg(ms, f):
            return sum(f(m) * m.outstanding_shares for m in ms) / sum(m.outstanding_shares for m in ms)
        steps = []
        try:
            got0 = idx.compute_market_index()
            steps.append(["market index of 2 components", got0, avg(comps[:2], lambda m: m.get_market_price())])
            idx._add_market(comps[2])
            got1 = idx.compute_market_index()
            steps.append(["market index after a third component was added", got1, avg(comps, lambda m: m.get_market_price())])
            got2 = idx.compute_fundamental_index()
            steps.append(["fundamental index after a third component was added", got2, avg(comps, lambda m: m.get_fundamental_price())])
            try:
                idx._add_market(comps[rnd.randrange(3)])          # a component twice: refused ...
                steps.append(["a component registered twice was accepted", 1.0, 0.0])
            except ValueError:
                pass
            got3 = idx.compute_market_index()                      # ... and the refusal leaves the index what it was
            steps.append(["market index after a refused duplicate registration", got3, avg(comps, lambda m: m.get_market_price())])
            got4 = idx.compute_fundamental_index()
            steps.append(["fundamental index after a refused duplicate registration", got4, avg(comps, lambda m: m.get_fundamental_price())])
            bad = [x for x in steps if abs(x[1] - x[2]) > 1e-9 * max(1.0, abs(x[2]))]
        except Exception as e:  # noqa
            bad = [["raised", repr(e)[:160], None]]
        cov["evaluations"] += 1
        if bad and len(out) < 3:
            out.append({"rule": "index-is-share-weighted-average-of-component-prices", "at": trial,
                        "detail": {"what": bad[0][0], "got": bad[0][1], "expected": bad[0][2],
                                   "components": [[m.name, m.outstanding_shares, m.get_market_price(), m.get_fundamental_price()] for m in comps],
                                   "source": "component added after the first evaluation"}})
    return out


CLAIMS["C17"]["extra_checks"] = c17_setup_checks


def _order_tie():
    import translated
    return translated.order_tie()


def _order_sweep_c02(seed, tier, cov):
    import translated
    return translated.order_sweep_c02(seed, tier, cov)


def _order_sweep_c04(seed, tier, cov):
    import translated
    return translated.order_sweep_c04(seed, tier, cov) + translated.expiry_sweep_c04(seed, tier, cov)


TRANSLATOR_NOTE = (" Translator tie (harness/py2coq_order.py, fail-closed Python-ast -> Gallina): the comparison operators and is_expired of "
                   "pams.order.Order are REGENERATED from /repo's source on every run and coq/translated/OrderGenProofs.v is re-checked against the "
                   "generated text: the generated `<` is the hand-written ranking oltq on accepted same-side orders (so every priority / matching theorem "
                   "is about the code's own comparator), `>` its converse, == / <= / >= / != consistent, mixed sides raise ValueError, is_expired is the model's "
                   "expiry test. A change the translator cannot read, or one that breaks a theorem, is searched for a concrete failing pair on the real Order "
                   "objects (exhaustive small-domain sweep) and otherwise reported with no-failing-input-found.")
def _arith_tie_for(group):
    def tie():
        import translated
        return translated.arith_tie(group)
    return tie


ARITH_NOTE = (" Translator tie (harness/py2coq_arith.py, fail-closed Python-ast -> Gallina over exact rationals): PriceLimitRule.get_limited_price and "
              "Market.convert_to_tick_level / _rounded_lower / _rounded_upper / convert_to_price are REGENERATED from /repo's source on every run and "
              "coq/translated/ArithGenProofs.v is re-checked against the generated text: the generated clipping function is the model's limited_price (the one all "
              "C15 theorems are about), market orders pass, foreign markets are refused; the generated tick level is floor for buys / ceiling for sells and level x tick "
              "is the model's round_price off the grid (the one all C19 theorems are about). Floating-point rounding of the arithmetic is not part of this tie.")
for _p in ("C15", "C19"):
    CLAIMS[_p]["ties"] = (_arith_tie_for(_p),)
    CLAIMS[_p]["text"] += ARITH_NOTE
    CLAIMS[_p]["technique"] += " + source-to-Gallina translator tie for the arithmetic kernel (regenerated and re-proved every run)"
CLAIMS["C03"]["ties"] = (_arith_tie_for("C03"),)
CLAIMS["C03"]["text"] += (" Translator tie: Market.remain_executable_orders (the decision whether a round has anything to do) is regenerated from the source on every run and "
                          "proved equal to the model's executable_b for all books, given the quantities it reads from the books (emptiness, best prices, market-order volumes, numbers of "
                          "limit levels, lowest ask / highest bid level); it never raises on them.")
CLAIMS["C03"]["text"] += (" Whole simulations (theories/SimBooks.v): for every configuration, tape of runner decisions, agent behaviour and fundamental path whose accepted orders have "
                          "positive volume and time-to-live (Order.__init__ enforces it), no run ever ends with an internal assertion of the matching engine and every market of the run satisfies "
                          "the lifetime invariant at every atomic update - so the market-level theorems (C01, C02, C03, C04, C08) apply to every market of every simulation.")
CLAIMS["C03"]["technique"] += " + source-to-Gallina translator tie for the executability decision (regenerated and re-proved every run)"
for _p, _sw in (("C02", _order_sweep_c02), ("C04", _order_sweep_c04)):
    CLAIMS[_p]["ties"] = (_order_tie,)
    CLAIMS[_p]["extra_checks"] = _sw
    CLAIMS[_p]["text"] += TRANSLATOR_NOTE
    CLAIMS[_p]["technique"] += " + source-to-Gallina translator tie for pams/order.py (regenerated and re-proved every run)"


def _state_tie():
    import translated
    return translated.state_tie()


def _holdings_sweep_c05(seed, tier, cov):
    import translated
    return translated.holdings_sweep_c05(seed, tier, cov)


CLAIMS["C05"]["ties"] = (_state_tie,)
CLAIMS["C05"]["extra_checks"] = _holdings_sweep_c05
CLAIMS["C05"]["technique"] += " + source-to-Gallina translator tie for Simulator._update_agents_for_execution (regenerated and re-proved every run)"
CLAIMS["C05"]["text"] += (" Translator tie (harness/py2coq_state.py, fail-closed Python-ast -> Gallina over an explicit object store, coq/theories/StatePy.v): "
                          "Simulator._update_agents_for_execution is REGENERATED from /repo's source on every run and coq/translated/StateC05Proofs.v is re-checked against the generated "
                          "text: whenever the code's loop does not raise it leaves exactly the model's apply_fill_holdings folded over the fills (aliasing of buyer and seller included); it raises "
                          "KeyError exactly when a party is unknown or does not hold the market's asset - the guard of the run-level conservation theorem - and under that guard it never raises. "
                          "A change the translator cannot read, or one that breaks a theorem, is searched for a concrete failing call of the real method and otherwise reported with "
                          "no-failing-input-found.")


CLAIMS["C16"]["ties"] = (_arith_tie_for("C16"),)
CLAIMS["C16"]["technique"] += " + source-to-Gallina translator tie for the two decisions of TradingHaltRule (regenerated and re-proved every run)"
CLAIMS["C16"]["text"] += (" Translator tie (harness/py2coq_arith.py): the halt decision of TradingHaltRule.hooked_after_execution and the resume decision of hooked_before_step_for_market "
                          "are REGENERATED from /repo's source on every run and coq/translated/ArithC16Proofs.v is re-checked against the generated text: the market must be running, "
                          "|p0 - p| must reach |p0 x rate x (halts so far + 1)| and the market must be a target - and that is exactly when the model's halt_after_execution (the function "
                          "the C16 theorems are about) halts; the resume branch is entered exactly when the clock has passed start + length on a target. What the rule does after "
                          "deciding (stop / restart, the session's switch, remembering market and session, counting) is modelled by hand; its source text is pinned, so an edit of it "
                          "makes the translator fail closed.")


CLAIMS["C14"]["ties"] = (_arith_tie_for("C14"),)
CLAIMS["C14"]["technique"] += " + source-to-Gallina translator tie for the hooks of FundamentalPriceShock and OrderMistakeShock (regenerated and re-proved every run)"
CLAIMS["C14"]["text"] += (" Translator tie (harness/py2coq_arith.py): FundamentalPriceShock.hooked_before_step_for_market and OrderMistakeShock.hooked_before_order are REGENERATED from "
                          "/repo's source on every run and coq/translated/ArithC14Proofs.v is re-checked against the generated text: the fundamental shock raises outside its window or on "
                          "another market and otherwise scales the fundamental value of the current time by 1 + rate - exactly the model's shock_before_step; the order mistake rewrites "
                          "the order (limit at market price x (1 + rate), buying iff rate > 0, configured volume and time-to-live, rule spent) exactly where the model's before_order_effect "
                          "does, and leaves every other order untouched. The call Market.change_fundamental_price and the stores on the order are read structurally (fail closed on any "
                          "other shape).")


LIFT_NOTE = (" Whole simulations (theories/SimMarketLift.v, market_invariant_of_every_run): a market of a run only ever changes through the Level-M operations (accepted order, "
             "accepted cancel, matching round, clock step, matching switched on / off) or a fundamental-price shock, and the run's records that name it are its Level-M records; so "
             "EVERY predicate on (market, records so far) that the valid Level-M operations preserve holds for every market of every run - for every configuration with distinct "
             "market ids, every tape, every agent behaviour and every set of events, given that accepted orders have positive volume and time-to-live (Order.__init__ enforces it). ")
CLAIMS["C04"]["text"] += LIFT_NOTE + ("Instance C04_nothing_lost_in_every_run: for every market of every run and every order accepted on it, accepted volume = its fills + what "
                                      "still rests + the volume of its first cancellation / expiry record; a resting order has had no terminal event.")
CLAIMS["C01"]["text"] += LIFT_NOTE + ("Instance C01_fills_honour_accepted_limits_in_every_run (theories/SimFillLimits.v): every fill among a market's records is preceded by the "
                                      "acceptance records of its buy and its sell order, names their agents, and its price is within the limits those orders were accepted with.")
CLAIMS["C08"]["text"] += LIFT_NOTE + ("Instance C08_storage_invariant_in_every_run: the storage invariant of the price series and the lifetime invariant of the books hold for every "
                                      "market of every run, so the per-operation rules apply at every accepted order, cancel, fill and clock step of every simulation.")
CLAIMS["C06"]["text"] += (" Whole simulations (theories/SimPast.v, the relational use of SimMarketLift.v): from any state satisfying the run invariant wf - which the initial state "
                          "satisfies and the begin record, the clock update, any number of steps and whole sessions preserve - after ANY number of further steps or a whole further session "
                          "the markets are the same, no clock has moved backwards, and for every time strictly before a market's clock in the earlier state all eight recorded values are "
                          "exactly what they were (C06_recorded_history_never_changes_in_a_run, C06_recorded_history_survives_a_session), for every configuration with distinct market ids, "
                          "every tape, agent behaviour and event.")
for _p in ("C01", "C04", "C08"):
    CLAIMS[_p]["technique"] += " + generic lifting of Level-M invariants to every market of every simulation (SimMarketLift.v)"


def _orders_tie():
    import translated
    return translated.orders_tie()


CLAIMS["C20"]["ties"] = (_orders_tie,)
CLAIMS["C20"]["technique"] += " + source-to-Gallina translator tie for the order lists built by ArbitrageAgent and MarketMakerAgent (regenerated and re-proved every run)"
CLAIMS["C20"]["text"] += (" Translator tie (harness/py2coq_orders.py, fail-closed Python-ast -> Gallina lists of orders): ArbitrageAgent._submit_orders and MarketMakerAgent.submit_orders "
                          "are REGENERATED from /repo's source on every run and coq/translated/OrdersC20Proofs.v is re-checked against the generated text: on an accessible index market "
                          "with equal outstanding shares the arbitrage agent's list is the model's arb_orders (the function the C20 theorems are about), it orders nothing elsewhere or "
                          "while a market is stopped, and refuses unequal shares; the market maker's two quotes are the model's mm_orders given the base price its get_base_price returns "
                          "(that helper's max / min scan is modelled by hand). The FCN agent (log, exp, Gaussian draws) is tied by the differential correspondence only.")


def _dict_tie():
    import translated
    return translated.dict_tie()


CLAIMS["C18"]["ties"] = (_dict_tie,)
CLAIMS["C18"]["technique"] += " + source-to-Gallina translator tie for json_extends (regenerated and re-proved every run)"
CLAIMS["C18"]["text"] += (" Translator tie (harness/py2coq_dict.py, fail-closed): pams/utils/json_extends.py is REGENERATED from /repo's source on every run - which key is tested and "
                          "popped, which dict is searched, the order of the two checks, the filter on the parent's items and which side wins in dict(items, **other) are read from the "
                          "statements - and coq/translated/DictC18Proofs.v is re-checked against the generated text: the source's loop, turn by turn, is the model's jext (the function "
                          "the C18 theorems - own keys, then the nearest ancestor defining the key; termination; missing parent; cycles - are about), with fuel entries + 2 never exhausted.")


def _corr_tie():
    import translated
    return translated.corr_tie()


def _corr_sweep_c12(seed, tier, cov):
    import translated
    return translated.corr_sweep_c12(seed, tier, cov)


CLAIMS["C12"]["ties"] = (_corr_tie,)
CLAIMS["C12"]["extra_checks"] = _corr_sweep_c12
CLAIMS["C12"]["technique"] += " + source-to-Gallina translator tie for the correlation table (regenerated and re-proved every run)"
CLAIMS["C12"]["text"] += (" Translator tie (harness/py2coq_corr.py over the pair-keyed dict of coq/theories/FundCorr.v): Fundamentals.set_correlation and remove_correlation are REGENERATED "
                          "from /repo's source on every run and coq/translated/CorrC12Proofs.v is re-checked against the generated text: on a table in canonical form (no pair stored both "
                          "ways round) a successful set_correlation(a, b, c) leaves the table canonical, makes BOTH (a, b) and (b, a) read c whichever way round the pair was named before, "
                          "changes no other pair and moves the regeneration point to the given time; it is accepted for every -1 < c < 1 and a <> b and refused otherwise; "
                          "remove_correlation removes the pair for both orders and raises KeyError when it is not there. A directed search drives the real methods with random scripts "
                          "naming pairs both ways round.")


def _cells_tie():
    import translated
    return translated.cells_tie()


CLAIMS["C08"]["ties"] = (_cells_tie,)
CLAIMS["C08"]["technique"] += " + source-to-Gallina translator tie for Market._update_market_price (regenerated and re-proved every run)"
CLAIMS["C08"]["text"] += (" Translator tie (harness/py2coq_cells.py; Optional[float] expressions evaluated in the error monad of coq/theories/CellsPy.v, arithmetic on None being "
                          "Python's TypeError): Market._update_market_price is REGENERATED from /repo's source on every run and coq/translated/CellsC08Proofs.v is re-checked against "
                          "the generated text: it never raises; the mid price becomes the mean of the two best limit prices when both exist and undefined otherwise; while running "
                          "the market price becomes the last executed price of the step, else the mid price, else stays - exactly the model's update_market_price (the function the "
                          "C08 theorems are about) on the two series at the current time.")


def _hooks_tie():
    import translated
    return translated.hooks_tie()


CLAIMS["C13"]["ties"] = (_hooks_tie,)
CLAIMS["C13"]["technique"] += " + source-to-Gallina translator tie for the hook table (registration and the nine dispatch methods; regenerated and re-proved every run)"
CLAIMS["C13"]["text"] += (" Translator tie (harness/py2coq_hooks.py over the insertion-ordered dict of coq/theories/HooksPy.v): the registration loop of Simulator._add_event and the "
                          "nine _trigger_event_* methods are REGENERATED from /repo's source on every run and coq/translated/HooksC13Proofs.v is re-checked against the generated text: "
                          "registering hooks with distinct identities one after the other and dispatching with ANY of the nine methods yields, for every time, first the hooks registered "
                          "for every time and then those whose time list contains that time, each exactly once (a repeated entry registers once), in registration order - and that is the "
                          "model's hooks_for, the function the C13 theorems are about (generated_dispatch_is_the_models_hooks_for). Modelled, pinned by text: which time each trigger "
                          "uses, the table names, the class / instance filter of the market hooks; the other registries maintained by _add_event are not part of the unit.")


def _logger_tie():
    import translated
    return translated.logger_tie()


CLAIMS["C10"]["ties"] = (_logger_tie,)
CLAIMS["C10"]["technique"] += " + source-to-Gallina translator tie for the Logger (regenerated and re-proved every run)"
CLAIMS["C10"]["text"] += (" Translator tie (harness/py2coq_logger.py): Log.read_and_write*, Logger.write / bulk_write / *_and_direct_process / _process and the class dispatch of "
                          "Logger.process are REGENERATED from /repo's source on every run and coq/translated/LoggerC10Proofs.v is re-checked against the generated text: every one of "
                          "the ten record classes (all direct subclasses of Log) has its own handler and none is refused; processing a list delivers every record to the handler of its "
                          "class, in order, once; any script of queued writes (single or bulk) followed by a flush delivers exactly what was written, in that order, and leaves the "
                          "queue empty - the queue discipline of the model's write / flush.")


def _series_tie():
    import translated
    return translated.series_tie()


def _tick_tie():
    import translated
    return translated.tick_tie()


TICK_NOTE = (" Translator tie (harness/py2coq_tick.py; the two calls into the book and the reporting of expirations in coq/theories/TickPy.v): Market._update_time is REGENERATED "
             "from /repo's source on every run, statement by statement in source order, and coq/translated/TickC06Proofs.v is re-checked against the generated text: it IS the "
             "model's clock step `tick` (time advanced by one, both sides losing exactly the orders past their time to live - buys reported before sells - room made in the series, "
             "the fundamental price recorded, last-trade / mid / market price carried over from the previous step, the market price becoming the previous last-trade or else mid "
             "price while the market runs), and therefore leaves every entry of every series other than the new step's as it was.")
CLAIMS["C06"]["ties"] = (_series_tie, _tick_tie)
CLAIMS["C06"]["technique"] += " + source-to-Gallina translator ties for the chunked series storage and for the clock step (regenerated and re-proved every run)"
CLAIMS["C08"]["ties"] += (_tick_tie,)
CLAIMS["C08"]["text"] += TICK_NOTE


def _fill_tie():
    import translated
    return translated.fill_tie()


FILL_NOTE = (" Translator tie (harness/py2coq_fill.py; OrderBook.change_order_volume in coq/theories/FillPy.v): Market._execute_orders is REGENERATED from /repo's source on "
             "every run, statement by statement, and coq/translated/FillC08Proofs.v is re-checked against the generated text: on two orders of this market it IS the model's "
             "apply_fill - refused on a stopped market and for a non-positive volume; both orders lose the volume and leave the book at zero; the step's last-trade price "
             "becomes the price, its executed volume grows by the volume and its turnover by volume x price; mid and market price are refreshed; exactly one record with "
             "market, time, both agents, both order ids, price and volume is reported.")
for _p in ("C04", "C08"):
    CLAIMS[_p]["ties"] += (_fill_tie,)
    CLAIMS[_p]["text"] += FILL_NOTE


def _add_tie():
    import translated
    return translated.add_tie()


ADD_NOTE = (" Translator tie (harness/py2coq_add.py; OrderBook.add in coq/theories/AddPy.v): Market._add_order is REGENERATED from /repo's source on every run, statement by "
            "statement with the mutable fields of the order tracked symbolically, and coq/translated/AddC04Proofs.v is re-checked against the generated text: for a fresh order "
            "it IS the model's add_order - an order of another market is refused; an off-grid limit price becomes level x tick with the level of the order's side; the order "
            "gets the next id (ids consecutive) and the book's time, enters its side at its priority, mid and market price are refreshed, the step's count of buy or sell "
            "orders grows by one, and exactly one record carrying the order as accepted is reported.")
for _p in ("C04", "C19"):
    CLAIMS[_p]["ties"] += (_add_tie,)
    CLAIMS[_p]["text"] += ADD_NOTE


def _cancel_tie():
    import translated
    return translated.cancel_tie()


CANCEL_NOTE = (" Translator tie (harness/py2coq_cancel.py; OrderBook.cancel in coq/theories/CancelPy.v): Market._cancel_order is REGENERATED from /repo's source on every run, "
               "statement by statement, and coq/translated/CancelC04Proofs.v is re-checked against the generated text: for a cancel naming an order as the market holds it "
               "(resting on its side, or remembered among those that left) it IS the model's cancel_order - a resting order leaves its side and is remembered as it was, an "
               "order that already left changes nothing in the book, either way mid and market price are refreshed and exactly one record with the order as it is now and "
               "the time of the cancel is reported.")
for _p in ("C04", "C08", "C10"):
    CLAIMS[_p]["ties"] += (_cancel_tie,)
    CLAIMS[_p]["text"] += CANCEL_NOTE


def _market_step_tie():
    import translated
    return translated.market_step_tie()


STEP_NOTE = (" Capstone (coq/translated/MarketStepProofs.v, re-checked on every run against the five generated units together): the step function assembled from the GENERATED "
             "_update_time, _add_order, _cancel_order, _execute_orders and the generated walk of a round (pre-loop statements and loop body of _execution, iterated with the model's fuel) equals the model's step_rec on every state satisfying "
             "the book invariant, for every operation, and therefore along every sequence of operations (`every_history_of_the_source_is_a_history_of_the_model`: same "
             "states, same records; `histories_of_the_source_from_setup`: from market setup and the first clock step, the model's final_state and trace; "
             "`nothing_is_lost_along_histories_of_the_source`, `a_round_of_the_source_never_fails_and_trades_at_one_price_within_both_limits`, `the_series_are_well_stored_along_histories_of_the_source`, `a_round_of_the_source_leaves_books_that_do_not_cross`, `a_round_of_the_source_on_a_stopped_market_trades_nothing`, `an_order_the_source_cancelled_is_never_filled_afterwards`, `an_order_the_source_reported_expired_is_never_filled_afterwards` as worked instances) - the Level-M theorems of this property are theorems about histories of the source's own statements.")
for _p in ("C04", "C06", "C08"):
    CLAIMS[_p]["ties"] += (_market_step_tie,)
    CLAIMS[_p]["text"] += STEP_NOTE


def _expire_tie():
    import translated
    return translated.expire_tie()


def _expiry_sweep_c10(seed, tier, cov):
    import translated
    return translated.expiry_sweep_c04(seed, tier, cov)


CLAIMS["C10"]["ties"] += (_expire_tie,)
CLAIMS["C10"]["extra_checks"] = _expiry_sweep_c10
CLAIMS["C10"]["text"] += (" Translator tie (harness/py2coq_expire.py): OrderBook._check_expired_orders is REGENERATED from /repo's source on every run and "
                          "coq/translated/ExpireC04Proofs.v is re-checked against the generated text: for a clock step of ANY size exactly one record per order past its time to "
                          "live is reported, carrying the order as it is and the new time; a directed search moves the clock of a real Market by one and by several steps "
                          "(Market._set_time) and compares the expiry records the logger receives with the orders that left the book.")
CLAIMS["C04"]["ties"] += (_expire_tie,)
CLAIMS["C04"]["text"] += (" Translator tie (harness/py2coq_expire.py; the expiry index as an insertion-ordered dict in coq/theories/ExpirePy.v): OrderBook._check_expired_orders "
                          "and OrderBook._set_time are REGENERATED from /repo's source on every run and coq/translated/ExpireC04Proofs.v is re-checked against the generated text: "
                          "the buckets dropped are exactly those strictly older than the new time, whatever the size of the clock step; with every order filed under accept time + "
                          "ttl, the records reported are exactly the filed orders past their time to live, each as it is and at the new time, they are removed from the queue, and "
                          "nothing that stays filed is past its time to live. A directed search moves the clock of a real Market by one and by several steps (Market._set_time) "
                          "and reads the property off the book and the expiry records.")
CLAIMS["C06"]["text"] += TICK_NOTE
CLAIMS["C06"]["text"] += (" Translator tie (harness/py2coq_series.py): Market._fill_until is REGENERATED from /repo's source on every run - which series is assigned, which one is "
                          "extended, whose length is measured and the padding value are read from each statement - and coq/translated/SeriesC06Proofs.v is re-checked against the "
                          "generated text: it is the model's fill_until (every one of the eight series extended from itself to the next multiple of the chunk size with its own padding "
                          "value), the function under the C06 theorems on recorded history across the 100-step chunks.")


def _runner_tie():
    import translated
    return translated.runner_tie()


RUNNER_NOTE = (" Translator tie (harness/py2coq_runner.py; primitives in coq/theories/RunnerPy.v): the per-order block of SequentialRunner._handle_orders - both copies, for normal "
               "and for high-frequency agents - is REGENERATED from /repo's source on every run as the source's sequence of effect statements with the source's branching, and "
               "coq/translated/RunnerC09Proofs.v is re-checked against the generated text: before-hooks, acceptance, the owner's callback, after-hooks and, while matching is on, the "
               "round, the update of the holdings for the whole round, then per fill the buyer's callback, the seller's callback and the after-execution hooks - with nothing "
               "running after an exception - IS the model's handle_request, the function the run-level theorems of C05, C09, C11, C13 and C16 are about; with placement off the "
               "block refuses the order before anything else happens. Each primitive (what one effect statement does) is the model's own piece and is modelled by hand.")
for _p in ("C09", "C11"):
    CLAIMS[_p]["ties"] = (_runner_tie,)
    CLAIMS[_p]["technique"] += " + source-to-Gallina translator tie for the per-order block of the runner (regenerated and re-proved every run)"
    CLAIMS[_p]["text"] += RUNNER_NOTE


def _exec_tie():
    import translated
    return translated.exec_tie()


CLAIMS["C01"]["ties"] = (_exec_tie,)
CLAIMS["C01"]["technique"] += " + source-to-Gallina translator tie for the decision kernels of Market._execution (regenerated and re-proved every run)"
CLAIMS["C01"]["text"] += (" Translator tie (harness/py2coq_exec.py): the three decision kernels inside the loop of Market._execution - the test that stops the walk, the volume of a "
                          "fill, and the statement that decides the round's price and appends the matched pair - are REGENERATED from /repo's source on every run and "
                          "coq/translated/ExecC01Proofs.v is re-checked against the generated text: the walk stops exactly where the model's crossing test fails (both limit orders and "
                          "bid < ask), the volume is the minimum of the two residuals, and the price decision is the model's choose_price (a market order leaves the price to the limit "
                          "side, two market orders leave it unchanged, between two limit orders the earlier accepted - accept time, then id - decides), the pair being appended exactly "
                          "once; equal ids at equal times and missing ids are refused. The loop around them (heap pops, residual volumes, the pending list) is the hand-written "
                          "Match.walk, tied by the correspondence.")


def _shock_sweep_c14(seed, tier, cov):
    import translated
    return translated.shock_sweep_c14(seed, tier, cov)


CLAIMS["C14"]["extra_checks"] = _shock_sweep_c14
CLAIMS["C14"]["text"] += (" Market.change_fundamental_price is translated too (the new level = current level x scale, stored in the market's series and in Fundamentals.prices, and the "
                          "regeneration point moved to the current time unconditionally - the model's Fund.shock); a directed search calls the real method at every distance from the "
                          "point up to which the fundamentals were already generated (zero drift and volatility: every later value must continue from the new level).")


def _index_tie():
    import translated
    return translated.index_tie()


CLAIMS["C17"]["ties"] = (_index_tie,)
CLAIMS["C17"]["technique"] += " + source-to-Gallina translator tie for IndexMarket.compute_market_index / compute_fundamental_index (regenerated and re-proved every run)"
CLAIMS["C17"]["text"] += (" Translator tie (harness/py2coq_state.py): IndexMarket.compute_market_index and compute_fundamental_index are REGENERATED from /repo's source on every "
                          "run (two accumulators over the components, then a division) and coq/translated/IndexC17Proofs.v is re-checked against the generated text: given the values read "
                          "from the components, the generated function is the model's wavg (the function the C17 theorems and every step record of an index market are about), it is "
                          "(sum value_i x shares_i)/(sum shares_i), and it raises ZeroDivisionError exactly when the shares sum to zero. At every step record the harness also asks the real "
                          "index with an explicit time (now, the step before, time 0) and compares it with the components' own prices at that time.")


def c07_determinism(seed, tier, cov):
    """differential determinism test: each configuration is run in fresh processes under different interpreter hash seeds, with
    Python's and NumPy's global generators perturbed, and twice in one process; everything observable must hash the same"""
    import os, subprocess, sys, json as _json
    from concurrent.futures import ThreadPoolExecutor
    here = os.path.dirname(os.path.abspath(__file__))
    n_cases = 3 if tier == "quick" else 16
    variants = [("0", "plain"), ("1", "plain"), ("random", "perturbed"), ("0", "twice"), ("12345", "perturbed"), ("0", "after_other"), ("0", "after_twin")]
    jobs = [(ci, hs, mode) for ci in range(n_cases) for hs, mode in variants]

    def run(job):
        ci, hs, mode = job
        env = dict(os.environ, PYTHONHASHSEED=hs, PYTHONPATH=os.environ.get("PAMS_REPO", "/repo"), PYTHONDONTWRITEBYTECODE="1")
        p = subprocess.run([sys.executable, os.path.join(here, "determinism_worker.py"), str(ci + 100 * (seed % 7)), str(seed + 11 * ci + 1), mode],
                           env=env, capture_output=True, text=True, timeout=1200)
        lines = [l for l in p.stdout.splitlines() if l.startswith("{")]
        if p.returncode != 0 or not lines:
            return job, {"error": (p.stderr or p.stdout)[-400:]}
        return job, _json.loads(lines[-1])
    with ThreadPoolExecutor(max_workers=8) as ex:
        results = list(ex.map(run, jobs))
    out = []
    by_case = {}
    for (ci, hs, mode), r in results:
        cov["evaluations"] += 1
        by_case.setdefault(ci, []).append(((hs, mode), r))
    nontrivial = 0
    samples = []
    for ci, rs in by_case.items():
        errs = [x for x in rs if "error" in x[1]]
        if errs:
            out.append({"rule": "run-raised", "at": ci, "detail": {"case": ci, "variant": errs[0][0], "error": errs[0][1]["error"]}})
            continue
        digests = {r["digest"] for _, r in rs}
        if len(digests) != 1:
            out.append({"rule": "outcome-depends-on-something-else-than-configuration-and-seed", "at": ci,
                        "detail": {"case": ci, "digests": {f"{v[0]}/{v[1]}": r["digest"][:16] for v, r in rs}}})
        if not all(r["settings_untouched"] for _, r in rs):
            out.append({"rule": "settings-object-modified-by-run", "at": ci, "detail": {"case": ci}})
        if rs[0][1]["fills"] > 0:
            nontrivial += 1
        samples.append({"case": ci, "runs": len(rs), "fills": rs[0][1]["fills"], "logs": rs[0][1]["logs"], "digest": rs[0][1]["digest"][:16]})
    cov["determinism_cases"] = len(by_case)
    cov["determinism_cases_with_fills"] = nontrivial
    cov["determinism_samples"] = samples[:4]
    cov["determinism_variants"] = [f"PYTHONHASHSEED={h} {m}" for h, m in variants]
    return out


CLAIMS["C07"] = dict(level="other", suites=["C"], design="5/C07", extra_checks=c07_determinism,
   technique="differential determinism test across processes / hash seeds / perturbed global generators (a test, not a proof) + Coq theorem on seed plumbing + purity of settings handling checked on suite C",
   text="PARTIAL. A determinism theorem about a Gallina function is empty, so what is proved (props/C07.v) is the seed plumbing (every component seeded by its own draw, in creation order) and that the model's outcome "
        "is a function of configuration and tapes by type. What decides the property is a differential test, labelled as such: configurations covering every built-in market/agent/event type (correlated fundamentals, "
        "randomised endowments, agents listing several market groups, high-frequency agents behind a rate strictly between 0 and 1, extends/ranges/legacy keys) are run in fresh processes with PYTHONHASHSEED 0, 1, "
        "random, 12345, with Python's and NumPy's global generators reseeded and consumed before setup and between setup and run, twice in one process with a different seed first, and after a different configuration over the same market names (other volatilities, drift and correlations; every other case has uncorrelated fundamentals) and after the same configuration with only the fundamental correlations toggled, in the same process; the SHA-256 of every logger "
        "record, all price series and final holdings must coincide and the settings dict must be unchanged; json_extends must leave the settings untouched on every generated inheritance graph (suite C).",
   note=COMMON_NOTE + "Absence of hidden inputs inside CPython/NumPy is established by the differential test only.")


NOT_CLAIMED = {}


def _book_tie():
    import translated
    return translated.book_tie()


BOOK_NOTE = (" Translator tie (harness/py2coq_book.py; the queue as heapq uses it - a list plus the fact whether it currently is a heap - in coq/theories/HeapPy.v): "
             "OrderBook.add, _remove, cancel, change_order_volume and the put-back of the popped orders at the end of Market._execution are REGENERATED from /repo's source on "
             "every run, statement by statement, and coq/translated/BookC02Proofs.v is re-checked against the generated text: heappush / heappop / [0] keep or need the heap, "
             "list.remove and a list display lose it, heapify restores it - and whenever one of these methods returns the queue is a heap again with exactly the expected "
             "elements (add: the stamped order more, in the model's view the model's `insert`; _remove / cancel: that order less; the put-back: popped ++ rest on both sides). "
             "The sorted list of Level M is the view `by priority` of such a heap; that heapq implements its contract is trusted.")
for _p in ("C01", "C02", "C03"):
    CLAIMS[_p]["ties"] += (_book_tie,)
    CLAIMS[_p]["text"] += BOOK_NOTE


def _walk_tie():
    import translated
    return translated.walk_tie()


WALK_NOTE = (" Translator tie (harness/py2coq_walk.py; loop state in coq/theories/WalkPy.v): the statements of Market._execution before its `while True:` loop and the loop body "
             "are REGENERATED from /repo's source on every run - the refills and their guards, the exits, the assertions, the decrements, what is appended where, in source "
             "order; the three decision kernels stand as the model's crossing / min / choose_price, to which the twelfth translator ties them - and "
             "coq/translated/WalkC01Proofs.v is re-checked against the generated text: on queues of orders with positive volume the loop never raises, and whenever it stops "
             "within n iterations the price and the pending fills it leaves are exactly Match.walk's with fuel n on the two sorted books; the popped orders followed by the "
             "rest are the books it started from (so the put-back loses nothing).")
for _p in ("C01", "C03"):
    CLAIMS[_p]["ties"] += (_walk_tie,)
    CLAIMS[_p]["text"] += WALK_NOTE
for _p in ("C01", "C03"):
    CLAIMS[_p]["ties"] += (_market_step_tie,)
    CLAIMS[_p]["text"] += STEP_NOTE


def _hook_sweep_c13(seed, tier, cov):
    import translated
    return translated.hook_sweep_c13(seed, tier, cov)


CLAIMS["C13"]["extra_checks"] = _hook_sweep_c13
CLAIMS["C13"]["text"] += (" A directed search interleaves registrations and occurrences on a real Simulator (a hook registered after an occurrence at some time must be called at "
                          "every later matching occurrence, that same time included; each matching hook exactly once, untimed first, in registration order).")
