"""One table of what is claimed per property (used by main.py for evidence and by gen_manifest.py)."""

COMMON_NOTE = ("Trusted: Coq 8.16.1 kernel (vm_compute for evaluation, no native_compute); the hand-written Gallina model and the "
               "correspondence harness that runs model and implementation on the same generated histories every run; CPython semantics, "
               "heapq (the model's book is the priority-sorted list), dict order; prices exact rationals (the matching engine only compares/copies "
               "prices; computed floats compared exactly on the dyadic stream only). ")

CLAIMS = {
 "C01": dict(level="proof", suites=["M"], design="5/C01",
   technique="Coq proof by induction over the matching walk (any price order, any book depth) + reachable-state invariant + differential correspondence (vm_compute)",
   text="Theorems C01_* (props/C01.v): every state reachable by ANY operation list has priority-sorted books; for one matching round on such a state "
        "there is one price p, the emitted fills are exactly the walk's fills priced at p, each pairs a resting buy with a resting sell of this market, "
        "p is <= every filled buy limit and >= every filled sell limit (market orders unbounded), and p is the limit of the earlier-accepted order of the "
        "last matched pair (the limit side when the other is a market order). Proved for unbounded books over an abstract strict price order and instantiated at Q. "
        "The model (Market.v/Match.v) is run against pams.market.Market on generated histories (continuous, call-auction, deep books) every run; a Python monitor "
        "written from the property text checks every fill of the real engine.",
   note=COMMON_NOTE),
 "C02": dict(level="proof", suites=["M"], design="5/C02",
   technique="Coq proof (strict total order; sortedness invariant; prefix-consumption of the walk) + differential correspondence + operator cross-check on real Order objects",
   text="Theorems C02_* (props/C02.v): the comparison on accepted same-side orders is irreflexive, asymmetric, transitive, total and equals the stated ranking "
        "(market first, better price, earlier time, lower id); every reachable book is sorted by it with unique ids, so the head is the unique best order; in a round "
        "each side is consumed as a prefix (done fully / at most one partial / rest untouched), i.e. no order is filled while a higher-priority one keeps volume. "
        "Tie to code: best order, sorted content and depth of the real heap are compared with the model after every operation; the real __lt__/__gt__/__eq__ are "
        "compared with the model's comparator on generated and small-domain order pairs.",
   note=COMMON_NOTE),
 "C03": dict(level="proof", suites=["M"], design="5/C03",
   technique="Coq proof of the post-condition + differential correspondence incl. error kinds; 'never raises' decided by monitor + correspondence of Err sites",
   text="Theorems C03_* (props/C03.v): after a round that returns, if both sides are non-empty and one best order is a limit order then both are and best bid < best ask; "
        "reachable books are sorted so heads are the best orders; no fill unless the market is running. The claim 'the round never raises' is carried by the model's "
        "explicit Err sites (one per assertion of Market._execution/change_order_volume), which the correspondence compares with the real engine on every generated "
        "history (market-order share 0-50%, call-auction accumulation): a raise in the code or an Err in the model on a reachable book is a violation. "
        "The closed-form theorem 'execution never returns Err on a book_ok state' is not yet proved (see DESIGN 5/C03, partial).",
   note=COMMON_NOTE),
 "C04": dict(level="proof", suites=["M"], design="5/C04",
   technique="Coq proof by invariant over all operation lists (lifetime invariant, dead-stays-dead) + differential correspondence of the full record stream",
   text="Theorems C04_* (props/C04.v): lifetime invariant of every reachable state; resting volume positive; the clock step to t reports and removes exactly the "
        "resting orders with accepted time+ttl+1 = t; every fill names two orders resting at that moment within their lifetimes; no fill after an accepted cancel "
        "or after a reported expiry, whatever follows; accepted ids are fresh consecutive integers, re-submission / foreign market refused. The volume-accounting identity "
        "over whole lifetimes is checked by the monitor on every real history and by the correspondence of all Order/Cancel/Execution/Expiration records "
        "(its closed-form theorem is not yet proved: partial).",
   note=COMMON_NOTE),
 "C06": dict(level="proof", suites=["M"], design="5/C06",
   technique="Coq proof of the frame property over all operation lists + differential correspondence incl. storage chunk crossings",
   text="Theorems C06_* (props/C06.v): for ANY further operation list, the eight recorded series values at every time strictly before the current time never change "
        "(across the 100-step storage chunks); the clock advances by exactly one per clock step and never goes back; queries for t > now are refused and t <= now are not. "
        "The lock-step of several markets and the session spans are checked at simulation level (suite S) by monitor.",
   note=COMMON_NOTE),
 "C08": dict(level="proof", suites=["M"], design="5/C08",
   technique="Coq proof of the price/mid/last/counter rules per event with a storage invariant over all operation lists + differential correspondence",
   text="Theorems C08_* (props/C08.v): storage invariant in every reachable state; after every accepted order and cancel the mid is the book's mid (mean of best limits, else None), "
        "last-trade untouched, market price = last trade, else mid, else previous (unchanged if not running); after every fill last = market price = fill price, volume += v, "
        "turnover += v*p; at the clock step mid/last are carried, market price refreshed only while running; counters move only with acceptances and fills. "
        "Best quotes/depth are compared with the real book after every operation by the correspondence.",
   note=COMMON_NOTE),
 "C19": dict(level="proof", suites=["M"], design="5/C19",
   technique="Coq proof over Q (lra/field) + differential correspondence of the executable model (vm_compute)",
   text="Theorems C19_* (props/C19.v) prove, for every tick>0, price and side, that rounding leaves on-grid prices unchanged, lands on the grid, "
        "and moves an off-grid price by less than one tick downwards for buys / upwards for sells (exact rationals). The model function is the one "
        "the Level-M market model calls in add_order; that model is run against pams.market.Market on generated histories every run and must agree exactly "
        "on dyadic ticks/prices; a Python monitor written from the property text checks every accepted price (strict on dyadic, 1e-9 relative otherwise).",
   note=COMMON_NOTE + "For decimal ticks the property's own hedge applies and the monitor uses a 1e-9 relative tolerance."),
}

NOT_CLAIMED = {}
