"""Tie (a) of DESIGN 4.1: a fail-closed translator from the comparison operators and is_expired of
pams.order.Order (Python `ast`) to Gallina.  The output (coq/translated/OrderGen.v) is regenerated from
$PAMS_REPO/pams/order.py on every run and coq/translated/OrderGenProofs.v is re-checked against it: the hand-written
ranking `oltq` used by every matching theorem IS the generated `<`, `>` its converse, == consistent with them,
mixed sides refused, and is_expired the model's `expired`.

Accepted subset (anything else raises Unsupported => the tie is reported broken):
  statements: docstring, `if/elif/else`, `return <expr>`, `raise Cls(...)`, `other = cast(Order, other)`,
              `self._check_comparability(other)`, one level of nested `def` (inlined at its calls), `x = <value or test>` to a fresh local
  expressions: True/False, the flag `gt`, not/and/or, `x if c else y`, `self.is_buy`,
              comparisons == != < > <= >= between two attribute reads of the same field, truthiness of an Optional number, `f is None` / `is not None`,
              `kind ==/!= MARKET_ORDER|LIMIT_ORDER`, `self.__class__ != other.__class__` (modelled: always the same class),
              `self.placed_at + self.ttl < time`, calls of self.__eq__/__lt__/__gt__/_gt_lt(other[, gt=<const>])
"""
import ast
import os
import sys


class Unsupported(Exception):
    pass


FIELDS = {"price": ("p_price", "oq"), "placed_at": ("p_placed", "oz"), "order_id": ("p_id", "oz"), "ttl": ("p_ttl", "oz"),
          "is_buy": ("p_buy", "b"), "kind": ("p_kind", "k"), "__class__": (None, "cls")}
EXC = {"ValueError": "PyValueError", "NotImplementedError": "PyNotImplementedError", "AssertionError": "PyAssertionError",
       "Exception": "PyException", "AttributeError": "PyAttributeError", "TypeError": "PyTypeError"}
METHODS = {"__eq__": "eq_gen", "__lt__": "lt_gen", "__gt__": "gt_gen"}


def value(e, env):
    """-> (coq term, type) for a value expression; types: oz, oq, b, k, cls"""
    if isinstance(e, ast.Attribute) and isinstance(e.value, ast.Name) and e.value.id in env and env[e.value.id][1] == "order":
        if e.attr not in FIELDS:
            raise Unsupported("attribute " + e.attr)
        f, ty = FIELDS[e.attr]
        if ty == "cls":
            return ("tt", "cls")
        return (f"({f} {env[e.value.id][0]})", ty)
    if isinstance(e, ast.Name) and e.id in env and env[e.id][1] == "int":
        return (f"(Some {env[e.id][0]})", "oz")
    if isinstance(e, ast.Name) and e.id in env and env[e.id][1] in ("oz", "oq", "b", "k"):
        return env[e.id]                                   # a local bound by `x = <value>`
    if isinstance(e, ast.Name) and e.id in ("MARKET_ORDER", "LIMIT_ORDER"):
        return (e.id, "k")
    if isinstance(e, ast.BinOp) and isinstance(e.op, ast.Add):
        (a, ta), (b, tb) = value(e.left, env), value(e.right, env)
        if ta == tb == "oz":
            return (f"(oz_add {a} {b})", "oz")
    raise Unsupported("value " + ast.dump(e)[:160])


def expr(e, env):
    """-> Coq term of type `pres bool`"""
    if isinstance(e, ast.BoolOp):
        op = "pand" if isinstance(e.op, ast.And) else "por"
        vs = [expr(v, env) for v in e.values]
        t = vs[-1]
        for v in reversed(vs[:-1]):
            t = f"({op} {v} {t})"
        return t
    if isinstance(e, ast.UnaryOp) and isinstance(e.op, ast.Not):
        return f"(pnot {expr(e.operand, env)})"
    if isinstance(e, ast.Constant) and isinstance(e.value, bool):
        return "(POk true)" if e.value else "(POk false)"
    if isinstance(e, ast.Name) and e.id in env and env[e.id][1] in ("bool", "b"):
        return f"(POk {env[e.id][0]})"
    if isinstance(e, ast.Name) and e.id in env and env[e.id][1] == "pb":
        return env[e.id][0]                                # a local bound to a test (may hold a raised exception)
    if isinstance(e, ast.Attribute):
        t, ty = value(e, env)
        if ty == "b":
            return f"(POk {t})"
        if ty in ("oz", "oq"):
            return f"(POk ({ty}_truthy {t}))"       # Python truthiness of an Optional number
        raise Unsupported("attribute of this type in a test: " + e.attr)
    if isinstance(e, ast.IfExp):
        return f"(pif {expr(e.test, env)} {expr(e.body, env)} {expr(e.orelse, env)})"
    if isinstance(e, ast.Call):
        return call(e, env)
    if isinstance(e, ast.Compare) and len(e.ops) == 1:
        l, r, op = e.left, e.comparators[0], e.ops[0]
        if isinstance(r, ast.Constant) and r.value is None and isinstance(op, (ast.Is, ast.IsNot)):
            t, ty = value(l, env)
            if ty not in ("oz", "oq"):
                raise Unsupported("`is None` on a non-optional field")
            return f"(POk (is_none {t}))" if isinstance(op, ast.Is) else f"(POk (negb (is_none {t})))"
        (a, ta), (b, tb) = value(l, env), value(r, env)
        if ta != tb:
            raise Unsupported("comparison between different kinds of values")
        opn = {ast.Lt: "lt", ast.Gt: "gt", ast.LtE: "le", ast.GtE: "ge", ast.Eq: "eq", ast.NotEq: "ne"}.get(type(op))
        if opn is None:
            raise Unsupported("operator " + type(op).__name__)
        ordering = ("lt", "gt", "le", "ge")
        if ta in ("oz", "oq"):
            if opn in ordering:
                return f"({ta}_{opn} {a} {b})"
            t = f"({ta}_eqb {a} {b})"
        elif ta == "b":
            if opn in ordering:
                raise Unsupported("ordering on booleans")
            t = f"(Bool.eqb {a} {b})"
        elif ta == "k":
            if opn in ordering:
                raise Unsupported("ordering on kinds")
            t = f"(kind_eqb {a} {b})"
        elif ta == "cls":
            if opn in ordering:
                raise Unsupported("ordering on classes")
            t = "true"        # modelled: both operands are Order instances
        else:
            raise Unsupported("type " + ta)
        return f"(POk {t})" if opn == "eq" else f"(POk (negb {t}))"
    raise Unsupported("expr " + ast.dump(e)[:160])


def call(e, env):
    f = e.func
    if isinstance(f, ast.Attribute) and isinstance(f.value, ast.Name) and f.value.id == "self" and env.get("self", (None, None))[1] == "order":
        if f.attr in METHODS and len(e.args) == 1 and not e.keywords and isinstance(e.args[0], ast.Name) and e.args[0].id == "other":
            return f"({METHODS[f.attr]} {env['self'][0]} {env['other'][0]})"
        if f.attr == "_gt_lt" and len(e.args) == 1 and isinstance(e.args[0], ast.Name) and e.args[0].id == "other":
            kw = {k.arg: k.value for k in e.keywords}
            g = kw.get("gt", ast.Constant(True))
            if set(kw) <= {"gt"} and isinstance(g, ast.Constant) and isinstance(g.value, bool):
                return f"(gt_lt_gen {env['self'][0]} {env['other'][0]} {'true' if g.value else 'false'})"
    raise Unsupported("call " + ast.dump(e)[:160])


def stmts(body, env, helpers, cont):
    """statement list -> Coq term of type `pres T`; `cont` is the term for falling off the end (None: not allowed)"""
    if not body:
        if cont is None:
            raise Unsupported("a path falls off the end of a function that must return a value")
        return cont
    s, rest = body[0], body[1:]
    if isinstance(s, ast.Expr) and isinstance(s.value, ast.Constant) and isinstance(s.value.value, str):
        return stmts(rest, env, helpers, cont)
    if isinstance(s, ast.Expr) and isinstance(s.value, ast.Call):
        f = s.value.func
        if (isinstance(f, ast.Attribute) and f.attr == "_check_comparability" and isinstance(f.value, ast.Name) and f.value.id == "self"
                and len(s.value.args) == 1 and isinstance(s.value.args[0], ast.Name) and s.value.args[0].id == "other"):
            return f"(pseq (check_comparability_gen {env['self'][0]} {env['other'][0]})\n {stmts(rest, env, helpers, cont)})"
    if (isinstance(s, ast.Assign) and len(s.targets) == 1 and isinstance(s.targets[0], ast.Name) and s.targets[0].id == "other"
            and isinstance(s.value, ast.Call) and getattr(s.value.func, "id", None) == "cast"
            and len(s.value.args) == 2 and getattr(s.value.args[1], "id", None) == "other"):
        return stmts(rest, env, helpers, cont)
    if (isinstance(s, (ast.Assign, ast.AnnAssign)) and isinstance(s.value, ast.Call) and getattr(s.value.func, "id", None) == "cast"
            and len(s.value.args) == 2 and not s.value.keywords and isinstance(s.value.args[1], ast.Name) and s.value.args[1].id in env):
        # `y = cast(T, x)` to a fresh local: typing.cast returns its second argument - y is another name of x
        tgt = s.targets[0] if isinstance(s, ast.Assign) and len(s.targets) == 1 else getattr(s, "target", None)
        if isinstance(tgt, ast.Name) and tgt.id not in env and tgt.id not in ("self", "other", "gt", "time"):
            env2 = dict(env)
            env2[tgt.id] = env[s.value.args[1].id]
            return stmts(rest, env2, helpers, cont)
    if isinstance(s, (ast.Assign, ast.AnnAssign)):
        # `x = <value or test>` to a fresh local (extract-variable refactorings)
        tgt = s.targets[0] if isinstance(s, ast.Assign) and len(s.targets) == 1 else getattr(s, "target", None)
        if isinstance(tgt, ast.Name) and s.value is not None and tgt.id not in env and tgt.id not in ("self", "other", "gt", "time"):
            try:
                t, ty = value(s.value, env)
            except Unsupported:
                t, ty = expr(s.value, env), "pb"
            env2 = dict(env)
            env2[tgt.id] = (f"v_{tgt.id}", ty)
            return f"(let v_{tgt.id} := {t} in\n {stmts(rest, env2, helpers, cont)})"
        raise Unsupported("assignment " + ast.unparse(s)[:100])
    if isinstance(s, ast.FunctionDef):
        if helpers.get("__depth", 0) >= 1 or s.decorator_list:
            raise Unsupported("nested helper in a nested helper")
        h2 = dict(helpers)
        h2[s.name] = s
        return stmts(rest, env, h2, cont)
    if isinstance(s, ast.Return):
        v = s.value
        if v is None:
            raise Unsupported("bare return")
        if isinstance(v, ast.Call) and isinstance(v.func, ast.Name) and v.func.id in helpers:
            h = helpers[v.func.id]
            names = [a.arg for a in h.args.args]
            actual = {}
            for n, a in zip(names, v.args):
                actual[n] = a
            for k in v.keywords:
                actual[k.arg] = k.value
            if set(actual) != set(names) or h.args.vararg or h.args.kwarg or h.args.defaults:
                raise Unsupported("helper call shape")
            env2 = dict(env)
            for n in names:
                a = actual[n]
                if not (isinstance(a, ast.Name) and a.id in env):
                    raise Unsupported("helper argument")
                env2[n] = env[a.id]
            return stmts(h.body, env2, {"__depth": 1}, None)
        return expr(v, env)
    if isinstance(s, ast.Raise):
        x = s.exc
        name = x.func.id if isinstance(x, ast.Call) and isinstance(x.func, ast.Name) else getattr(x, "id", None)
        if name not in EXC:
            raise Unsupported("raise " + ast.dump(s)[:120])
        return f"(PErr {EXC[name]})"
    if isinstance(s, ast.If):
        k = stmts(rest, env, helpers, cont) if (rest or cont is not None) else None
        thn = stmts(s.body, env, helpers, k)
        els = stmts(s.orelse, env, helpers, k) if s.orelse else k
        if els is None:
            raise Unsupported("a path falls off the end of a function that must return a value")
        return f"(pif {expr(s.test, env)}\n {thn}\n {els})"
    raise Unsupported("statement " + ast.dump(s)[:160])


def translate(order_py):
    src = open(order_py).read()
    mod = ast.parse(src)
    cls = [n for n in mod.body if isinstance(n, ast.ClassDef) and n.name == "Order"]
    if len(cls) != 1:
        raise Unsupported("class Order not found exactly once")
    funcs = {}
    for n in cls[0].body:
        if isinstance(n, ast.FunctionDef):
            if n.name in funcs:
                raise Unsupported("method defined twice: " + n.name)
            funcs[n.name] = n
    need = ["_check_comparability", "__eq__", "_gt_lt", "__gt__", "__lt__", "__ne__", "__le__", "__ge__", "is_expired"]
    for n in need:
        if n not in funcs:
            raise Unsupported("missing method " + n)
        if funcs[n].decorator_list:
            raise Unsupported("decorated method " + n)
    # the module-level constants the comparator refers to must still be the two pre-defined kinds
    consts = {t.id: n.value for n in mod.body if isinstance(n, ast.Assign) for t in n.targets if isinstance(t, ast.Name)}
    for name, kid in (("MARKET_ORDER", 0), ("LIMIT_ORDER", 1)):
        v = consts.get(name)
        ok = (isinstance(v, ast.Call) and getattr(v.func, "id", None) == "OrderKind"
              and any(k.arg == "kind_id" and isinstance(k.value, ast.Constant) and k.value.value == kid for k in v.keywords))
        if not ok:
            raise Unsupported("constant " + name)

    def args_of(fn, expect):
        names = [a.arg for a in fn.args.args]
        if names != expect or fn.args.vararg or fn.args.kwarg or fn.args.kwonlyargs:
            raise Unsupported(f"signature of {fn.name}: {names}")

    out = ["(* GENERATED by harness/py2coq_order.py from pams/order.py - do not edit *)",
           "Require Import Pams.Prelude Pams.Match Pams.Market Pams.OrderPy.", "Open Scope Z_scope.", ""]
    so = {"self": ("self", "order"), "other": ("other", "order")}
    args_of(funcs["_check_comparability"], ["self", "other"])
    out.append("Definition check_comparability_gen (self other : pyorder) : pres unit :=\n"
               + stmts(funcs["_check_comparability"].body, so, {}, "(POk tt)") + ".\n")
    args_of(funcs["__eq__"], ["self", "other"])
    out.append("Definition eq_gen (self other : pyorder) : pres bool :=\n" + stmts(funcs["__eq__"].body, so, {}, None) + ".\n")
    args_of(funcs["_gt_lt"], ["self", "other", "gt"])
    d = funcs["_gt_lt"].args.defaults
    if not (len(d) == 1 and isinstance(d[0], ast.Constant) and d[0].value is True):
        raise Unsupported("default of gt")
    env = dict(so, gt=("gt", "bool"))
    out.append("Definition gt_lt_gen (self other : pyorder) (gt : bool) : pres bool :=\n" + stmts(funcs["_gt_lt"].body, env, {}, None) + ".\n")
    for py, coq in (("__gt__", "gt_gen"), ("__lt__", "lt_gen"), ("__ne__", "ne_gen"), ("__le__", "le_gen"), ("__ge__", "ge_gen")):
        args_of(funcs[py], ["self", "other"])
        out.append(f"Definition {coq} (self other : pyorder) : pres bool :=\n" + stmts(funcs[py].body, so, {}, None) + ".\n")
    args_of(funcs["is_expired"], ["self", "time"])
    env = {"self": ("self", "order"), "time": ("time", "int")}
    out.append("Definition is_expired_gen (self : pyorder) (time : Z) : pres bool :=\n" + stmts(funcs["is_expired"].body, env, {}, None) + ".\n")
    return "\n".join(out)


if __name__ == "__main__":
    repo = os.environ.get("PAMS_REPO", "/repo")
    sys.stdout.write(translate(os.path.join(repo, "pams", "order.py")))
