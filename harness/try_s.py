import random, sys, time, warnings
warnings.filterwarnings("ignore")
sys.path.insert(0,'/verif/harness')
from common import *
import suite_s
rng=random.Random(int(sys.argv[1]) if len(sys.argv)>1 else 0)
N=int(sys.argv[2]) if len(sys.argv)>2 else 20
IMP="Require Import Pams.Prelude Pams.Match Pams.Market Pams.Sim."
cases=[suite_s.gen_case(rng, long_ok=False) for _ in range(N)]
t=time.time()
res=[suite_s.run_case(c) for c in cases]
print("impl", round(time.time()-t,2), "setup errors", sum(1 for r in res if r["setup_error"]))
ok=[(c,r) for c,r in zip(cases,res) if not r["setup_error"]]
terms=[suite_s.case_term(c,r)[0] for c,r in ok]
print("bytes", sum(map(len,terms)))
t=time.time()
n,mism,logs=run_coq_cases("s",IMP,"run_case_s",terms,shard=2)
print("coq", round(time.time()-t,2), n, mism, [l[-700:] for l in logs[:1]])
for i in mism[:4]:
    c,r=ok[i]
    term,inp,exp=suite_s.case_term(c,r)
    try:
        out=eval_coq_term(IMP, f"run_case_s {inp}")
    except Exception as e:
        print("eval error", str(e)[-800:]); continue
    model=parse_ov(out)
    d=first_diff(exp,model)
    print(i,"diff at",d, "len exp",len(exp),"len model",len(model))
    k=d[0]
    for j in range(max(0,k-4),k): print("   prev", ov_json(exp[j]))
    print(" exp", ov_json(exp[k]) if k<len(exp) else None); print(" mod", ov_json(model[k]) if k<len(model) else None)
    if r.get("error_text"): print(" error_text", r["error_text"][-300:])
