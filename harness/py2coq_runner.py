"""Tie (a), eleventh translator: the per-order block of SequentialRunner._handle_orders -> a Gallina composition of the primitives of
coq/theories/RunnerPy.v, in SOURCE ORDER and with the source's branching.  Fail-closed.  Two blocks are translated: the body of
`for order in orders:` (normal agents) and the body of `for order in high_freq_orders:` (high-frequency agents).

Effect statements and the primitive each stands for (annotations and the spelling of the log variable are ignored):
  if not session.with_order_placement: raise AssertionError(..)           p_assert_placement (nothing happens while placement is on)
  market = self.simulator.id2market[order.market_id]                       p_market
  if isinstance(order, Order): A  elif isinstance(order, Cancel): B  else: raise NotImplementedError      p_case [A] [B]
  self.simulator._trigger_event_before_order(order=order)                  p_before_order
  L = market._add_order(order=order)                                       p_add_order
  agent = self.simulator.id2agent[order.agent_id]; agent.submitted_order(log=L)                 p_cb_submitted
  self.simulator._trigger_event_after_order(order_log=L)                   p_after_order
  self.simulator._trigger_event_before_cancel(cancel=order)                p_before_cancel
  L = market._cancel_order(cancel=order)                                   p_cancel_order
  agent = self.simulator.id2agent[order.order.agent_id]; agent.canceled_order(log=L)            p_cb_canceled
  self.simulator._trigger_event_after_cancel(cancel_log=L)                 p_after_cancel
  if session.with_order_execution: X                                       p_if_exec [X]
  logs = market._execution()                                               p_execution
  self.simulator._update_agents_for_execution(execution_logs=logs)         p_update_agents
  for execution_log in logs: Y                                             p_for_logs [Y]
  agent = self.simulator.id2agent[execution_log.buy_agent_id]; agent.executed_order(log=execution_log)    p_cb_buyer
  agent = self.simulator.id2agent[execution_log.sell_agent_id]; agent.executed_order(log=execution_log)   p_cb_seller
  self.simulator._trigger_event_after_execution(execution_log=execution_log)                    p_after_execution"""
import ast
import os
import re
import sys

from py2coq_arith import Unsupported


def _txt(s):
    """statement text without annotations"""
    if isinstance(s, ast.AnnAssign) and s.value is not None:
        return f"{ast.unparse(s.target)} = {ast.unparse(s.value)}"
    return ast.unparse(s)


HELPERS = {}      # method name -> FunctionDef, for `self.<helper>(session=session, order=order)` (inlined)


def block(stmts, logsvar="logs"):
    """-> list of Gallina terms (primitives), fail-closed"""
    out, i = [], 0
    logvar = None
    while i < len(stmts):
        s = stmts[i]
        t = _txt(s)
        nxt = _txt(stmts[i + 1]) if i + 1 < len(stmts) else None
        m_h = re.fullmatch(r"self\.(\w+)\(session=session, order=order\)", t)
        if m_h and m_h.group(1) in HELPERS:
            h = HELPERS[m_h.group(1)]
            a = h.args
            if [x.arg for x in a.args] != ["self", "session", "order"] or a.vararg or a.kwarg or a.kwonlyargs or a.defaults:
                raise Unsupported("signature of helper " + h.name)
            body = [x for x in h.body if not (isinstance(x, ast.Expr) and isinstance(x.value, ast.Constant) and isinstance(x.value.value, str))]
            out += block(body)
            i += 1
            continue
        if isinstance(s, ast.AnnAssign) and s.value is None and isinstance(s.target, ast.Name):
            i += 1                                   # a bare declaration `x: T`
            continue
        if (isinstance(s, ast.If) and ast.unparse(s.test) == "not session.with_order_execution" and not s.orelse
                and len(s.body) == 1 and isinstance(s.body[0], ast.Return) and s.body[0].value is None):
            out.append(f"p_if_exec [{'; '.join(block(stmts[i + 1:]))}]")     # guard clause: the rest runs only while matching is on
            return out
        m_e = re.fullmatch(r"(\w+) = market\._execution\(\)", t)
        if m_e:
            logsvar = m_e.group(1)
            out.append("p_execution")
            i += 1
            continue
        if isinstance(s, ast.If) and ast.unparse(s.test) == "not session.with_order_placement":
            if s.orelse or len(s.body) != 1 or not ast.unparse(s.body[0]).startswith("raise AssertionError("):
                raise Unsupported("placement assertion")
            out.append("p_assert_placement")
        elif t == "market = self.simulator.id2market[order.market_id]":
            out.append("p_market")
        elif isinstance(s, ast.If) and ast.unparse(s.test) == "isinstance(order, Order)":
            if not (len(s.orelse) == 1 and isinstance(s.orelse[0], ast.If) and ast.unparse(s.orelse[0].test) == "isinstance(order, Cancel)"
                    and [ast.unparse(x) for x in s.orelse[0].orelse] == ["raise NotImplementedError"]):
                raise Unsupported("the order / cancel case distinction")
            out.append(f"p_case [{'; '.join(block(s.body))}] [{'; '.join(block(s.orelse[0].body))}]")
        elif t == "self.simulator._trigger_event_before_order(order=order)":
            out.append("p_before_order")
        elif re.fullmatch(r"\w+ = market\._add_order\(order=order\)", t):
            logvar = t.split(" = ")[0]
            out.append("p_add_order")
        elif t == "agent = self.simulator.id2agent[order.agent_id]" and nxt == f"agent.submitted_order(log={logvar})":
            out.append("p_cb_submitted")
            i += 1
        elif t == f"self.simulator._trigger_event_after_order(order_log={logvar})" and logvar:
            out.append("p_after_order")
        elif t == "self.simulator._trigger_event_before_cancel(cancel=order)":
            out.append("p_before_cancel")
        elif re.fullmatch(r"\w+ = market\._cancel_order\(cancel=order\)", t):
            logvar = t.split(" = ")[0]
            out.append("p_cancel_order")
        elif t == "agent = self.simulator.id2agent[order.order.agent_id]" and nxt == f"agent.canceled_order(log={logvar})":
            out.append("p_cb_canceled")
            i += 1
        elif t == f"self.simulator._trigger_event_after_cancel(cancel_log={logvar})" and logvar:
            out.append("p_after_cancel")
        elif isinstance(s, ast.If) and ast.unparse(s.test) == "session.with_order_execution" and not s.orelse:
            out.append(f"p_if_exec [{'; '.join(block(s.body))}]")
        elif t == f"self.simulator._update_agents_for_execution(execution_logs={logsvar})":
            out.append("p_update_agents")
        elif isinstance(s, ast.For) and ast.unparse(s.target) == "execution_log" and ast.unparse(s.iter) == logsvar and not s.orelse:
            out.append(f"p_for_logs [{'; '.join(block(s.body))}]")
        elif t == "agent = self.simulator.id2agent[execution_log.buy_agent_id]" and nxt == "agent.executed_order(log=execution_log)":
            out.append("p_cb_buyer")
            i += 1
        elif t == "agent = self.simulator.id2agent[execution_log.sell_agent_id]" and nxt == "agent.executed_order(log=execution_log)":
            out.append("p_cb_seller")
            i += 1
        elif t == "self.simulator._trigger_event_after_execution(execution_log=execution_log)":
            out.append("p_after_execution")
        else:
            raise Unsupported("statement " + t[:110])
        i += 1
    return out


def translate(repo):
    mod = ast.parse(open(os.path.join(repo, "pams/runners/sequential.py")).read())
    cs = [n for n in mod.body if isinstance(n, ast.ClassDef) and n.name == "SequentialRunner"]
    if len(cs) != 1:
        raise Unsupported("class SequentialRunner not found exactly once")
    fs = [n for n in cs[0].body if isinstance(n, ast.FunctionDef) and n.name == "_handle_orders"]
    if len(fs) != 1 or fs[0].decorator_list:
        raise Unsupported("method _handle_orders not found exactly once (undecorated)")
    HELPERS.clear()
    for n in cs[0].body:
        if isinstance(n, ast.FunctionDef) and not n.decorator_list and n.name != "_handle_orders":
            HELPERS[n.name] = n
    loops = [n for n in ast.walk(fs[0]) if isinstance(n, ast.For) and ast.unparse(n.target) == "order"]
    by_iter = {ast.unparse(n.iter): n for n in loops}
    if sorted(by_iter) != ["high_freq_orders", "orders"] or len(loops) != 2:
        raise Unsupported("the two per-order loops: " + ", ".join(sorted(ast.unparse(n.iter) for n in loops)))
    out = ["(* GENERATED by harness/py2coq_runner.py - do not edit *)",
           "Require Import Pams.Prelude Pams.Match Pams.Market Pams.Sim Pams.RunnerPy.", "Open Scope Z_scope.", ""]
    for it, name in (("orders", "handle_order_gen"), ("high_freq_orders", "handle_hft_order_gen")):
        ps = block(by_iter[it].body)
        out.append(f"(* pams/runners/sequential.py: SequentialRunner._handle_orders - the body of `for order in {it}:` *)")
        sep = ";\n   "
        out.append(f"Definition {name}_steps : list (ctx -> ctx) :=\n  [" + sep.join(ps) + "].")
        out.append(f"Definition {name} (s : sim) (r : request) : sim := cs (seqg {name}_steps (init_ctx s r)).\n")
    return "\n".join(out)


if __name__ == "__main__":
    sys.stdout.write(translate(os.environ.get("PAMS_REPO", "/repo")))
