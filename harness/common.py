"""Shared machinery: paths, exact values -> Coq literals, running coqc on generated case
files, reading back mismatches, proof-obligation status, evidence, known findings."""
import hashlib
import json
import os
import re
import subprocess
import sys
import time
import warnings
from fractions import Fraction

VERIF = os.path.dirname(os.path.dirname(os.path.abspath(__file__)))
REPO = os.environ.get("PAMS_REPO", "/repo")
COQ = os.path.join(VERIF, "coq")
GEN = os.path.join(COQ, "gen")
CACHE = os.path.join(VERIF, ".cache")
EVID = os.path.join(VERIF, "evidence")
REPLAYS = os.path.join(VERIF, "replays")
NCPU = min(16, os.cpu_count() or 4)

warnings.filterwarnings("ignore")
if REPO not in sys.path:
    sys.path.insert(0, REPO)

COQ_FLAGS = ["-Q", os.path.join(COQ, "theories"), "Pams", "-Q", os.path.join(COQ, "props"), "PamsProps",
             "-Q", GEN, "PamsGen", "-w", "-notation-overridden,-deprecated-hint-without-locality,-deprecated-instance-without-locality"]


def seed_and_tier(argv_tier=None):
    seed = int(os.environ.get("VERIF_SEED", "0") or 0)
    tier = argv_tier or os.environ.get("VERIF_TIER", "quick")
    return seed, tier


# --------------------------------------------------------------------------------------
# exact values -> Coq
# --------------------------------------------------------------------------------------
class E:
    """an exception, by kind (codes = Prelude.err_code)"""
    def __init__(self, code, text=""):
        self.code = code
        self.text = text

    def __repr__(self):
        return f"E({self.code},{self.text!r})"

    def __eq__(self, o):
        return isinstance(o, E) and o.code == self.code

    def __hash__(self):
        return hash(("E", self.code))


class A:
    """a float computed by a division: compared approximately"""
    def __init__(self, x):
        self.x = Fraction(x)

    def __repr__(self):
        return f"A({float(self.x)!r})"


def zlit(n):
    n = int(n)
    return str(n) if n >= 0 else f"({n})"


def qlit(x):
    f = Fraction(x)
    return f"(q {zlit(f.numerator)} {f.denominator})"


def oqlit(x):
    return "None" if x is None else f"(Some {qlit(x)})"


def ozlit(x):
    return "None" if x is None else f"(Some {zlit(x)})"


def blit(b):
    return "true" if b else "false"


def ov_lit(v):
    """Python observation -> Coq term of type ov.  bool before int (bool is an int)."""
    if v is None:
        return "VN"
    if isinstance(v, bool):
        return "(VB true)" if v else "(VB false)"
    if isinstance(v, int):
        return f"(VZ {zlit(v)})"
    if isinstance(v, (float, Fraction)):
        f = Fraction(v)
        return f"(vq {zlit(f.numerator)} {f.denominator})"
    if isinstance(v, E):
        return f"(VE {v.code})"
    if isinstance(v, A):
        return f"(VA {qlit(v.x)})"
    if isinstance(v, (list, tuple)):
        return "(VL [" + "; ".join(ov_lit(x) for x in v) + "])"
    raise TypeError(f"cannot encode {v!r}")


def ov_json(v):
    """JSON-able rendering for replays/evidence."""
    if v is None or isinstance(v, (bool, int, str)):
        return v
    if isinstance(v, float):
        return v
    if isinstance(v, Fraction):
        return float(v) if v.denominator != 1 else int(v)
    if isinstance(v, tuple) and False:
        return [ov_json(x) for x in v]
    if isinstance(v, E):
        return {"exc": v.code, "text": v.text}
    if isinstance(v, A):
        return float(v.x)
    if isinstance(v, (list, tuple)):
        return [ov_json(x) for x in v]
    if isinstance(v, dict):
        return {str(k): ov_json(x) for k, x in v.items()}
    return repr(v)


# --------------------------------------------------------------------------------------
# parsing an ov term printed by Coq
# --------------------------------------------------------------------------------------
_TOK = re.compile(r"\s*(VL|VZ|VQ|VA|VN|VB|VE|true|false|\[|\]|;|\(|\)|#|-?0x[0-9a-fA-F]+(?:\.[0-9a-fA-F]+)?|-?\d+\.\d+|-?\d+|%[A-Za-z]+)")


def _num_token(t):
    """integer, decimal or hexadecimal (with fraction) literal as printed by Coq's Q number notation"""
    neg = t.startswith("-")
    if neg:
        t = t[1:]
    if t.startswith("0x") or t.startswith("0X"):
        body = t[2:]
        if "." in body:
            a, b = body.split(".")
            v = Fraction(int(a + b, 16), 16 ** len(b))
        else:
            v = Fraction(int(body, 16))
    elif "." in t:
        v = Fraction(t)
    else:
        v = Fraction(int(t))
    return -v if neg else v


def parse_ov(text):
    toks = [t for t in _TOK.findall(text) if not t.startswith("%")]
    pos = [0]

    def peek():
        return toks[pos[0]] if pos[0] < len(toks) else None

    def nxt():
        t = toks[pos[0]]
        pos[0] += 1
        return t

    def num():
        t = nxt()
        if t == "(":
            v = num()
            assert nxt() == ")"
            return v
        v = _num_token(t)
        return int(v) if v.denominator == 1 else v

    def rat():
        t = peek()
        if t == "(":
            nxt()
            v = rat()
            assert nxt() == ")"
            return v
        n = num()
        if peek() == "#":
            nxt()
            d = num()
            return Fraction(n, d)
        return Fraction(n)

    def val():
        t = nxt()
        if t == "(":
            v = val()
            assert nxt() == ")", toks[pos[0] - 3:pos[0] + 3]
            return v
        if t == "VN":
            return None
        if t == "VZ":
            return num()
        if t == "VQ":
            return rat()
        if t == "VA":
            return A(rat())
        if t == "VB":
            return nxt() == "true"
        if t == "VE":
            return E(num())
        if t == "VL":
            assert nxt() == "["
            out = []
            if peek() == "]":
                nxt()
                return out
            while True:
                out.append(val())
                t2 = nxt()
                if t2 == "]":
                    return out
                assert t2 == ";", t2
        raise ValueError(f"unexpected token {t}")

    return val()


def ov_equal(a, b):
    if isinstance(a, A) and isinstance(b, A):
        return a.x == b.x or abs(a.x - b.x) * 10**9 <= abs(b.x) or abs(a.x - b.x) * 10**15 <= 1
    if isinstance(a, (list, tuple)) and isinstance(b, (list, tuple)):
        return len(a) == len(b) and all(ov_equal(x, y) for x, y in zip(a, b))
    if isinstance(a, bool) != isinstance(b, bool):
        return False
    if isinstance(a, bool) or isinstance(b, bool):
        return a is b
    if isinstance(a, int) != isinstance(b, int):
        return False          # VZ vs VQ
    if isinstance(a, (float, Fraction, int)) and isinstance(b, (float, Fraction, int)):
        return Fraction(a) == Fraction(b)
    return a == b


def first_diff(a, b, path=()):
    """path to the first differing position between two observations, or None"""
    if isinstance(a, (list, tuple)) and isinstance(b, (list, tuple)):
        for i, (x, y) in enumerate(zip(a, b)):
            d = first_diff(x, y, path + (i,))
            if d is not None:
                return d
        if len(a) != len(b):
            return path + (min(len(a), len(b)),)
        return None
    return None if ov_equal(a, b) else path


# --------------------------------------------------------------------------------------
# Coq build and evaluation
# --------------------------------------------------------------------------------------
def sh(cmd, timeout=None, cwd=None, env=None):
    p = subprocess.run(cmd, shell=isinstance(cmd, str), cwd=cwd, env=env, timeout=timeout,
                       stdout=subprocess.PIPE, stderr=subprocess.STDOUT, text=True)
    return p.returncode, p.stdout


_BUILD = {}


def coq_build():
    """full .vo build of the development (a no-op when nothing changed).  Returns
    (ok, log, failed_file)."""
    if "r" in _BUILD:
        return _BUILD["r"]
    os.makedirs(GEN, exist_ok=True)
    if not os.path.exists(os.path.join(COQ, "Makefile")) or \
            os.path.getmtime(os.path.join(COQ, "Makefile")) < os.path.getmtime(os.path.join(COQ, "_CoqProject")):
        sh("coq_makefile -f _CoqProject -o Makefile", cwd=COQ, timeout=60)
    rc, out = sh(f"timeout 1500 make -k -j{NCPU}", cwd=COQ, timeout=1600)
    failed = re.findall(r"File \"\./([^\"]+)\", line \d+, characters [\d-]+:\s*\nError", out)
    _BUILD["r"] = (rc == 0, out, failed)
    return _BUILD["r"]


def coq_deps(vfile):
    """transitive .v dependencies of a props file inside the development"""
    rc, out = sh(["coqdep", "-Q", "theories", "Pams", "-Q", "props", "PamsProps", "-Q", "gen", "PamsGen"] +
                 [os.path.relpath(p, COQ) for p in all_vfiles()], cwd=COQ, timeout=120)
    dep = {}
    for line in out.splitlines():
        if ":" not in line:
            continue
        lhs, rhs = line.split(":", 1)
        tgt = [x for x in lhs.split() if x.endswith(".vo")]
        if not tgt:
            continue
        v = tgt[0][:-1]
        dep[v] = [x[:-1] for x in rhs.split() if x.endswith(".vo") and (x.startswith("theories/") or x.startswith("props/") or x.startswith("gen/"))]
    seen, todo = set(), [vfile]
    while todo:
        x = todo.pop()
        if x in seen:
            continue
        seen.add(x)
        todo.extend(dep.get(x, []))
    return sorted(seen)


def all_vfiles():
    out = []
    for d in ("theories", "props", "gen"):
        dd = os.path.join(COQ, d)
        if os.path.isdir(dd):
            out += [os.path.join(dd, f) for f in sorted(os.listdir(dd)) if f.endswith(".v") and not f.startswith("cases_")]
    return out


def proof_status(prop):
    """Compile props/<prop>.v on its own (its dependencies were built by coq_build) and collect, per
    Theorem, whether it checked and what Print Assumptions reported."""
    ok, log, failed = coq_build()
    vfile = os.path.join(COQ, "props", f"{prop}.v")
    res = {"file": f"coq/props/{prop}.v", "theorems": [], "build_ok": ok, "broken": []}
    if not os.path.exists(vfile):
        res["broken"].append({"theorem": None, "why": "no props file"})
        return res
    src = open(vfile).read()
    names = re.findall(r"^(?:Theorem|Example)\s+(\w+)", src, re.M)
    deps = coq_deps(f"props/{prop}.v")
    broken_deps = [f for f in failed if f in deps]
    rc, out = sh(["coqc"] + COQ_FLAGS + [vfile], cwd=COQ, timeout=900)
    # split Print Assumptions output per theorem, in order
    blocks = re.split(r"(?m)^(?=Closed under the global context|Axioms:)", out)
    blocks = [b.strip() for b in blocks if b.startswith("Closed under") or b.startswith("Axioms:")]
    printed = re.findall(r"^Print Assumptions\s+(\w+)", src, re.M)
    assum = {}
    for n, b in zip(printed, blocks):
        if b.startswith("Closed"):
            assum[n] = []
        else:
            axs = [a for a in re.findall(r"^([\w.]+)\s*:", b, re.M) if a != "Axioms"]
            assum[n] = axs
    for n in names:
        res["theorems"].append({"name": n, "checked": rc == 0 and not broken_deps, "assumptions": assum.get(n)})
    if rc != 0 or broken_deps:
        m = re.search(r"File \"[^\"]*\", line (\d+)", out)
        which = None
        if m:
            line = int(m.group(1))
            upto = "\n".join(src.splitlines()[:line])
            prev = re.findall(r"^(?:Theorem|Example)\s+(\w+)", upto, re.M)
            which = prev[-1] if prev else None
        res["broken"].append({"theorem": which, "why": (out[-1500:] if rc != 0 else f"dependency failed: {broken_deps}"),
                              "failed_files": broken_deps})
    res["coqc_rc"] = rc
    return res


def forbidden_scan():
    """no Axiom/Parameter/Admitted/... anywhere in the development"""
    pat = re.compile(r"\b(Admitted|admit|Axiom|Axioms|Parameter|Parameters|Conjecture|Admit Obligations|Unset Guard Checking|"
                     r"Unset Positivity Checking|Unset Universe Checking|bypass_check|type-in-type|impredicative-set)\b")
    hits = []
    for f in all_vfiles():
        txt = open(f).read()
        txt = re.sub(r"\(\*.*?\*\)", "", txt, flags=re.S)
        for i, line in enumerate(txt.splitlines(), 1):
            if pat.search(line):
                hits.append(f"{os.path.relpath(f, VERIF)}:{i}: {line.strip()}")
    return hits


def run_coq_cases(suite, imports, runner, case_terms, shard=150, keep=False):
    """case_terms: list of Coq terms of type (input * ov).  Returns (n_evaluated, mismatch indices, logs)."""
    os.makedirs(GEN, exist_ok=True)
    # a private directory per call: several checks may run at the same time (file names must not collide)
    import tempfile
    import shutil
    wd = tempfile.mkdtemp(prefix=f"run_{suite}_", dir=GEN)
    files = []
    for k in range(0, len(case_terms), shard):
        part = case_terms[k:k + shard]
        name = f"cases_{suite}_{k // shard}"
        path = os.path.join(wd, name + ".v")
        with open(path, "w") as fh:
            fh.write(imports + "\nOpen Scope Z_scope.\n")
            # the element type is fixed by the runner's domain: a first case with empty lists must not leave it open
            fh.write("Definition tyof {A : Type} (f : A -> ov) : Type := A.\n")
            fh.write(f"Definition cases : list (tyof {runner} * ov) := [\n" + ";\n".join(part) + "\n].\n")
            fh.write(f"Eval vm_compute in mismatches {runner} cases.\n")
        files.append((k, path, len(part)))
    procs = []
    results = []
    env = dict(os.environ)

    def launch(item):
        k, path, n = item
        return (item, subprocess.Popen(["timeout", "900", "coqc"] + COQ_FLAGS + [path], cwd=wd,
                                       stdout=subprocess.PIPE, stderr=subprocess.STDOUT, text=True, env=env))
    pending = list(files)
    running = []
    total = 0
    mism = []
    logs = []
    while pending or running:
        while pending and len(running) < NCPU:
            running.append(launch(pending.pop(0)))
        item, pr = running.pop(0)
        out, _ = pr.communicate()
        k, path, n = item
        m = re.search(r"=\s*\(\s*(\d+)%nat\s*,\s*\[(.*?)\]\s*\)", out, re.S)
        if pr.returncode != 0 or not m:
            logs.append(f"{path}: coqc rc={pr.returncode}\n{out[-2000:]}")
            mism.extend(range(k, k + n))   # fail closed: everything in the shard counts as unverified
            continue
        total += int(m.group(1))
        idx = [int(x.replace("%nat", "")) for x in re.findall(r"\d+(?:%nat)?", m.group(2))]
        mism.extend(k + i for i in idx)
        if not keep:
            for ext in (".v", ".vo", ".glob", ".vok", ".vos"):
                try:
                    os.remove(path[:-2] + ext)
                except OSError:
                    pass
    if not keep:
        shutil.rmtree(wd, ignore_errors=True)
    return total, sorted(mism), logs


def eval_coq_term(imports, term, timeout=600):
    """Evaluate one term by vm_compute and return coqc's printed output (after '=')."""
    os.makedirs(GEN, exist_ok=True)
    name = f"cases_eval_{os.getpid()}_{int(time.time()*1000) % 100000}"
    path = os.path.join(GEN, name + ".v")
    with open(path, "w") as fh:
        fh.write(imports + "\nOpen Scope Z_scope.\nEval vm_compute in (" + term + ").\n")
    rc, out = sh(["timeout", str(timeout), "coqc"] + COQ_FLAGS + [path], cwd=GEN, timeout=timeout + 30)
    for ext in (".v", ".vo", ".glob", ".vok", ".vos"):
        try:
            os.remove(path[:-2] + ext)
        except OSError:
            pass
    try:
        os.remove(os.path.join(GEN, "." + name + ".aux"))
    except OSError:
        pass
    if rc != 0:
        raise RuntimeError(out[-2000:])
    i = out.index("=")
    body = out[i + 1:]
    j = body.rfind("\n     :")
    return body[:j] if j >= 0 else body


# --------------------------------------------------------------------------------------
# source hash (cache key) and evidence
# --------------------------------------------------------------------------------------
def tree_hash():
    h = hashlib.sha256()
    roots = [(REPO, "pams"), (VERIF, "harness"), (VERIF, "coq/theories"), (VERIF, "corpus")]
    for base, sub in roots:
        for dp, dn, fn in sorted(os.walk(os.path.join(base, sub))):
            dn.sort()
            for f in sorted(fn):
                if f.endswith((".py", ".v", ".json")):
                    p = os.path.join(dp, f)
                    h.update(p.encode())
                    h.update(open(p, "rb").read())
    return h.hexdigest()[:20]


def load_known():
    p = os.path.join(VERIF, "known_findings.json")
    if not os.path.exists(p):
        return []
    return json.load(open(p))


def write_json(path, obj):
    os.makedirs(os.path.dirname(path), exist_ok=True)
    tmp = path + ".tmp"
    with open(tmp, "w") as fh:
        json.dump(ov_json(obj), fh, indent=1, default=ov_json)
    os.replace(tmp, path)


TRUSTED_BASE_COMMON = [
    "Coq 8.16.1 kernel and coqc (vm_compute used for evaluation and finite witnesses; no native_compute)",
    "hand-written Gallina model tied to /repo by the correspondence harness (generators, recorders, projections in /verif/harness)",
    "the fail-closed Python-ast -> Gallina translators harness/py2coq_*.py with the normaliser harness/pynorm.py (the units of this property are listed under "
    "translator_ties) and the static preludes coq/theories/*Py.v that give the translated constructs their meaning",
    "CPython semantics of the modelled statements; heapq's contract (a heap's [0] / heappop is the least element, heappush keeps a heap, heapify makes one); "
    "insertion-ordered dict with distinct keys",
    "embedding: finite doubles under < and == are order-isomorphic to their rational values; correspondence compared exactly on the dyadic stream only",
]


def resolved_entry(cfg, name):
    """a configuration entry with its `extends` chain resolved as the property says: own keys first, then the nearest ancestor's
    (the reference the harness and the monitors read event settings through)"""
    d = dict(cfg[name])
    seen = set()
    while "extends" in d:
        parent = d.pop("extends")
        if parent in seen:
            raise ValueError("cyclic extends")
        seen.add(parent)
        merged = dict(cfg[parent])
        merged.update(d)
        d = merged
    return d
