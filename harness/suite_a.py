"""Suite A (C20): the built-in agents of the real pams in controlled market states, next to coq/theories/Agents.v.
A state is built through the runner's own setup plus Level-M operations (clock steps, resting orders, fills); the agent's
libm calls and gauss draws are recorded (module-level `math` proxy, instance-level prng wrapper) and handed to the model."""
import collections
import json
import math
import random
import warnings
from fractions import Fraction

import engine
from common import E, A, ov_lit, qlit, oqlit, ozlit, zlit, blit


def V(rule, at, **detail):
    return {"rule": rule, "at": at, "detail": detail}


class MathProxy:
    def __init__(self):
        self.calls = []

    def __getattr__(self, name):
        f = getattr(math, name)
        if name in ("log", "exp"):
            def g(x):
                y = f(x)
                self.calls.append((name, x, y))
                return y
            return g
        return f


def gen_case(rng):
    kind = rng.choice(["fcn", "fcn", "fcn", "msfcn", "mm", "mm", "arb", "arb"])
    tick = rng.choice([1.0, 0.5, 0.25, 0.125])
    n_plain = 2 if kind != "arb" else rng.choice([2, 3])
    prices = [float(rng.randint(80, 120)) * 4 for _ in range(n_plain)]
    case = {"kind": kind, "tick": tick, "prices": prices, "seed": rng.randint(0, 2 ** 30), "script": [], "steps": rng.choice([0, 1, 3, 8, 30])}
    # scripted history: per step a list of orders (market index, is_buy, price offset in ticks | None for market order, volume)
    for s in range(case["steps"] + 1):
        row = []
        for _ in range(rng.choice([0, 1, 2, 4])):
            row.append([rng.randrange(n_plain + (1 if kind == "arb" else 0)), rng.random() < 0.5,
                        None if rng.random() < 0.05 else rng.randint(-5, 5), rng.randint(1, 4)])
        case["script"].append(row)
    if kind in ("fcn", "msfcn"):
        case["params"] = {"fundamentalWeight": rng.choice([0.0, 1.0, 10.0]), "chartWeight": rng.choice([0.0, 1.0, 5.0]),
                          "noiseWeight": rng.choice([0.0, 1.0, 2.0]), "noiseScale": rng.choice([0.0, 0.001, 0.01]),
                          "timeWindowSize": rng.choice([1, 5, 20, 100]), "orderMargin": rng.choice([0.0, 0.01, 0.0625, 0.5]),
                          "meanReversionTime": rng.choice([None, 1, 50]), "isChartFollowing": rng.random() < 0.5,
                          "marginType": "fixed"}
        if sum(case["params"][k] for k in ("fundamentalWeight", "chartWeight", "noiseWeight")) == 0:
            case["params"]["fundamentalWeight"] = 1.0
        case["fund_shift"] = rng.choice([-20.0, -1.0, 0.0, 0.0, 1.0, 20.0])
        case["access"] = rng.choice([[0, 1], [0], [1]])
    elif kind == "mm":
        case["params"] = {"netInterestSpread": rng.choice([0.0, 0.015625, 0.0625, 0.25]), "orderTimeLength": rng.choice([None, 1, 3])}
        case["fund_shift"] = rng.choice([-8.0, 0.0, 8.0])
        case["access"] = rng.choice([[0, 1], [0]])
        case["reask"] = rng.choice([None, None, 0.5, 2.0, 1.25])       # ask again in the same step after a fundamental shock
    else:
        case["params"] = {"orderVolume": rng.randint(1, 5), "orderThresholdPrice": rng.choice([0.0, 0.5, 1.0, 4.0, 50.0]),
                          "orderTimeLength": rng.choice([None, 1, 4])}
        case["index_price"] = float(rng.randint(300, 500))
        case["stop"] = rng.choice([None, None, None, "index", "comp"])
    # the same agent instance asked again within one step after the market moved (an agent must not remember what it saw)
    if rng.random() < (0.6 if kind == "arb" else 0.4):
        moves = []
        for _ in range(rng.choice([1, 2])):
            mi = rng.randrange(n_plain + (1 if kind == "arb" and rng.random() < 0.3 else 0))
            off, vol = rng.choice([-120, -40, -12, -3, 3, 12, 40, 120]), rng.randint(1, 3)
            moves += [[mi, True, off, vol], [mi, False, off, vol]]       # a crossing pair: a trade `off` ticks away
        case["reask_orders"] = moves
        if not case.get("reask") and kind == "mm":
            case["reask"] = None
    return case


def build(case):
    import suite_s
    from pams.runners import SequentialRunner
    kind = case["kind"]
    cfg = {"simulation": {"markets": [], "agents": ["AG"], "sessions": [{"sessionName": 0, "iterationSteps": 1000, "withOrderPlacement": True,
                                                                       "withOrderExecution": True, "withPrint": False}]}}
    for i, p in enumerate(case["prices"]):
        cfg[f"M{i}"] = {"class": "Market", "tickSize": case["tick"], "marketPrice": p, "outstandingShares": 100,
                        "fundamentalPrice": p + (case.get("fund_shift", 0.0) if i == 0 else 0.0)}
        cfg["simulation"]["markets"].append(f"M{i}")
    if kind == "arb":
        cfg["IDX"] = {"class": "IndexMarket", "tickSize": case["tick"], "marketPrice": case["index_price"], "outstandingShares": 100,
                      "markets": [f"M{i}" for i in range(len(case["prices"]))]}
        cfg["simulation"]["markets"].append("IDX")
    p = dict((k, v) for k, v in case["params"].items() if v is not None)
    if kind in ("fcn", "msfcn"):
        cfg["AG"] = dict(p, **{"class": "FCNAgent" if kind == "fcn" else "MarketShareFCNAgent", "numAgents": 1,
                               "markets": [f"M{i}" for i in case["access"]], "assetVolume": 50, "cashAmount": 10000})
    elif kind == "mm":
        cfg["AG"] = dict(p, **{"class": "MarketMakerAgent", "numAgents": 1, "markets": [f"M{i}" for i in case["access"]],
                               "assetVolume": 50, "cashAmount": 10000, "targetMarket": "M0"})
    else:
        cfg["AG"] = dict(p, **{"class": "ArbitrageAgent", "numAgents": 1, "markets": cfg["simulation"]["markets"],
                               "assetVolume": 50, "cashAmount": 10000})
    r = SequentialRunner(settings=cfg, prng=random.Random(case["seed"]))
    r._setup()
    return r


def run_case(case):
    warnings.filterwarnings("ignore")
    from pams.order import Order, LIMIT_ORDER, MARKET_ORDER
    import pams.agents.fcn_agent as fcn_mod
    try:
        r = build(case)
    except Exception as e:  # noqa
        return {"setup_error": repr(e)[:300]}
    sim = r.simulator
    ag = sim.agents[0]
    markets = sim.markets
    for m in markets:
        m._is_running = True
    sim._update_times_on_markets(markets)
    for s, row in enumerate(case["script"]):
        for (mi, buy, off, vol) in row:
            if mi >= len(markets):
                continue
            m = markets[mi]
            px = None if off is None else max(m.tick_size, m.get_market_price() + off * m.tick_size)
            o = Order(agent_id=999, market_id=m.market_id, is_buy=buy, kind=MARKET_ORDER if px is None else LIMIT_ORDER,
                      volume=vol, price=px, ttl=None)
            try:
                m._add_order(o)
                if m.is_running:
                    m._execution()
            except AssertionError:
                pass
        if s < case["steps"]:
            sim._update_times_on_markets(markets)
    if case["kind"] == "arb" and case.get("stop"):
        (markets[-1] if case["stop"] == "index" else markets[0])._is_running = False
    if case["kind"] in ("fcn", "msfcn"):
        ag.is_chart_following = bool(case["params"]["isChartFollowing"])     # not configurable through settings: set on the instance
    # record libm and gauss
    proxy = MathProxy()
    old_math = fcn_mod.math
    fcn_mod.math = proxy
    draws = []
    g0 = ag.prng.gauss

    def gauss(mu, sigma):
        x = g0(mu=mu, sigma=sigma)
        draws.append(x)
        return x
    ag.prng.gauss = gauss
    def snapshot():
        st = []
        for m in markets:
            t = m.get_time()
            st.append({"id": m.market_id, "time": t, "mp": m.get_market_price(), "fund": m.get_fundamental_price(),
                       "bb": m.get_best_buy_price(), "bs": m.get_best_sell_price(), "running": bool(m.is_running),
                       "acc": bool(ag.is_market_accessible(m.market_id)),
                       "hist": [m.get_market_price(x) for x in range(0, t + 1)]})
        if case["kind"] == "arb":
            st[-1]["index"] = markets[-1].get_index()
            st[-1]["comps_running"] = bool(markets[-1].is_all_markets_running())
        return st

    def ask():
        orders = ag.submit_orders(markets=markets)
        return [[o.agent_id, o.market_id, bool(o.is_buy), o.price, o.volume, o.ttl, o.kind.kind_id if hasattr(o.kind, "kind_id") else str(o.kind),
                 o.placed_at is None and o.order_id is None] for o in orders]
    state = snapshot()
    res = {"setup_error": None, "state": state, "agent_id": ag.agent_id, "again": None}
    try:
        res["orders"] = ask()
        res["error"] = None
        n_d, n_m = len(draws), len(proxy.calls)
        if case.get("reask") or case.get("reask_orders"):
            if case.get("reask"):
                markets[0].change_fundamental_price(scale=case["reask"])
            for (mi, buy, off, vol) in case.get("reask_orders") or []:
                m = markets[mi]
                px = max(m.tick_size, m.get_market_price() + off * m.tick_size)
                o = Order(agent_id=998, market_id=m.market_id, is_buy=buy, kind=LIMIT_ORDER, volume=vol, price=px, ttl=None)
                try:
                    m._add_order(o)
                    if m.is_running:
                        m._execution()
                except AssertionError:
                    pass
            st2 = snapshot()
            res["again"] = {"state": st2, "orders": ask()}
    except Exception as e:  # noqa
        res["orders"] = None
        res["error"] = repr(e)[:300]
    finally:
        fcn_mod.math = old_math
    if res.get("again"):
        res["math"], res["draws"] = proxy.calls[:n_m], draws[:n_d]
        res["math2"], res["draws2"] = proxy.calls[n_m:], draws[n_d:]
    else:
        res["math"] = proxy.calls
        res["draws"] = draws
    if case["kind"] == "arb":
        res["index"] = state[-1]["index"]
        res["comps_running"] = state[-1]["comps_running"]
    if case["kind"] in ("fcn", "msfcn"):
        res["tw"], res["mrt"], res["margin"] = ag.time_window_size, ag.mean_reversion_time, ag.order_margin
    if case["kind"] == "mm":
        res["spread"], res["otl"] = ag.net_interest_spread, ag.order_time_length
    if case["kind"] == "arb":
        res["v"], res["thr"], res["otl"] = ag.order_volume, ag.order_threshold_price, ag.order_time_length
    return res


# ------------------------------------------------------------------------------------ to Coq
def case_term(case, res):
    k = case["kind"]
    if res.get("setup_error") or res["error"] is not None:
        return None
    st = res["state"]
    if k in ("fcn", "msfcn"):
        # one market computation per (log, log, exp) triple; only single-market batches are modelled exactly here
        logs = [c for c in res["math"] if c[0] == "log"]
        exps = [c for c in res["math"] if c[0] == "exp"]
        if len(exps) != 1 or len(logs) != 2 or len(res["draws"]) < 1:
            return None
        p = case["params"]
        # which market was it?  the one whose fundamental / price ratio was logged
        cand = [s for s in st if s["acc"] and abs(s["fund"] / s["mp"] - logs[0][1]) < 1e-15]
        if len(cand) != 1:
            return None
        s = cand[0]
        P = (f"(mkFcn {qlit(p['fundamentalWeight'])} {qlit(p['chartWeight'])} {qlit(p['noiseWeight'])} {blit(p['isChartFollowing'])} "
             f"{qlit(p['noiseScale'])} {zlit(res['tw'])} {zlit(res['mrt'])} {qlit(res['margin'])})")
        inp = (f"(AFcn {P} {zlit(res['agent_id'])} {zlit(s['id'])} {zlit(s['time'])} {qlit(logs[0][2])} {qlit(logs[1][2])} {qlit(res['draws'][0])} "
               f"{qlit(s['mp'])} {qlit(exps[0][2])})")
        elr = exps[0][1] / res["tw"] if res["tw"] else 0.0
        exp = [A(elr), [[o[0], o[1], o[2], A(o[3]), o[4], o[5]] for o in res["orders"]]]
        return f"([{inp}], {ov_lit([exp])})", f"[{inp}]", [exp]
    if k == "mm":
        quotes = "[" + "; ".join(f"({oqlit(s['bb'])}, {oqlit(s['bs'])})" for s in st if s["acc"]) + "]"
        t0 = st[0]
        inp = (f"(AMm {zlit(res['agent_id'])} {zlit(t0['id'])} {quotes} {qlit(t0['mp'])} {qlit(t0['fund'])} {qlit(res['spread'])} {zlit(res['otl'])})")
        exp = [[o[0], o[1], o[2], Fraction(o[3]), o[4], o[5]] for o in res["orders"]]
        inps, exps = [inp], [exp]
        if res.get("again"):
            st2 = res["again"]["state"]
            quotes2 = "[" + "; ".join(f"({oqlit(s['bb'])}, {oqlit(s['bs'])})" for s in st2 if s["acc"]) + "]"
            inps.append(f"(AMm {zlit(res['agent_id'])} {zlit(st2[0]['id'])} {quotes2} {qlit(st2[0]['mp'])} {qlit(st2[0]['fund'])} {qlit(res['spread'])} {zlit(res['otl'])})")
            exps.append([[o[0], o[1], o[2], Fraction(o[3]), o[4], o[5]] for o in res["again"]["orders"]])
        inp = "[" + "; ".join(inps) + "]"
        return f"({inp}, {ov_lit(exps)})", inp, exps
    if k == "arb":
        idx = st[-1]
        comps = "[" + "; ".join(f"({zlit(s['id'])}, {qlit(s['mp'])})" for s in st[:-1]) + "]"
        inp = (f"(AArb {zlit(res['agent_id'])} {zlit(idx['id'])} {blit(idx['running'])} {blit(res['comps_running'])} {qlit(idx['mp'])} "
               f"{qlit(res['index'])} {qlit(res['thr'])} {comps} {zlit(res['v'])} {zlit(res['otl'])})")
        exp = [[o[0], o[1], o[2], Fraction(o[3]), o[4], o[5]] for o in res["orders"]]
        return f"([{inp}], {ov_lit([exp])})", f"[{inp}]", [exp]
    return None


# ------------------------------------------------------------------------------------ monitor (from the property text)
def mon_C20(case, res):
    out = []
    if res.get("setup_error"):
        return []
    k = case["kind"]
    st = res["state"]
    if res["error"] is not None:
        return [V("agent-raised", 0, error=res["error"])]
    if res.get("again"):
        # the same instance asked a second time in the same step, after the market moved: judged on what it can see then
        r2 = dict(res, state=res["again"]["state"], orders=res["again"]["orders"], again=None)
        if k == "arb":
            r2["index"], r2["comps_running"] = r2["state"][-1]["index"], r2["state"][-1]["comps_running"]
        if k in ("fcn", "msfcn"):
            r2["math"], r2["draws"] = res.get("math2", []), res.get("draws2", [])
        suffix = "-when-asked-again-after-a-fundamental-change" if (k == "mm" and not case.get("reask_orders")) else "-when-asked-again-after-the-market-moved"
        out += [dict(v, rule=v["rule"] + suffix) for v in mon_C20(dict(case, reask=None, reask_orders=None), r2)]
    acc = {s["id"] for s in st if s["acc"]}
    for o in res["orders"]:
        ag, mk, buy, price, vol, ttl, kind, fresh = o
        if ag != res["agent_id"]:
            out.append(V("orders-under-own-id", 0, order=o))
        if mk not in acc:
            out.append(V("orders-only-for-accessible-markets", 0, order=o))
        if vol <= 0 or (ttl is not None and ttl <= 0) or price is None or not (price == price) or not fresh:
            out.append(V("well-formed-order", 0, order=o))
    if k in ("fcn", "msfcn"):
        p = case["params"]
        mks = {o[1] for o in res["orders"]}
        if k == "msfcn" and len(mks) > 1:
            out.append(V("market-share-agent-orders-on-one-market", 0, markets=sorted(mks)))
        gi = 0
        for s in st:
            if not s["acc"]:
                continue
            mine = [o for o in res["orders"] if o[1] == s["id"]]
            if k == "msfcn" and not mine and len(acc) > 1:
                continue
            if gi >= len(res["draws"]):
                break
            g = res["draws"][gi]
            gi += 1
            tw = res["tw"]
            twp = min(s["time"], tw)
            flr = (1.0 / max(res["mrt"], 1)) * math.log(s["fund"] / s["mp"])
            clr = (1.0 / max(twp, 1)) * math.log(s["mp"] / s["hist"][s["time"] - twp])
            nlr = p["noiseScale"] * g
            w = p["fundamentalWeight"] + p["chartWeight"] + p["noiseWeight"]
            elr = (p["fundamentalWeight"] * flr + p["chartWeight"] * clr * (1 if p["isChartFollowing"] else -1) + p["noiseWeight"] * nlr) / w
            efp = s["mp"] * math.exp(elr * tw)
            rel = abs(efp / s["mp"] - 1)
            if elr == 0.0 and efp == s["mp"]:
                # an exact tie (every term of the expected return is exactly zero): the expected price neither exceeds the market
                # price nor is below it, so the agent must stay silent on this market
                if mine:
                    out.append(V("fcn-buys-iff-expected-price-above-market-price-quoting-shaded-price", 0, market=s["id"],
                                 got=[(o[2], o[3]) for o in mine], want=[], expected_price=efp, market_price=s["mp"], tie=True))
                continue
            if rel < 1e-9:
                continue             # inconclusive-float: the expected price is within rounding of the market price
            if efp > s["mp"]:
                want = [(True, efp * (1 - res["margin"]))]
            else:
                want = [(False, efp * (1 + res["margin"]))]
            got = [(o[2], o[3]) for o in mine]
            if len(got) != 1 or got[0][0] != want[0][0] or abs(got[0][1] - want[0][1]) > 1e-9 * abs(want[0][1]):
                out.append(V("fcn-buys-iff-expected-price-above-market-price-quoting-shaded-price", 0, market=s["id"], got=got, want=want,
                             expected_price=efp, market_price=s["mp"]))
            for o in mine:
                if o[4] != 1 or o[5] != tw:
                    out.append(V("fcn-order-volume-one-lifetime-window", 0, order=o))
    elif k == "mm":
        t0 = st[0]
        os_ = res["orders"]
        if len(os_) != 2 or os_[0][1] != t0["id"] or os_[1][1] != t0["id"] or sorted([os_[0][2], os_[1][2]]) != [False, True]:
            out.append(V("market-maker-quotes-one-buy-and-one-sell-on-target", 0, orders=os_))
        else:
            b = [o for o in os_ if o[2]][0][3]
            s_ = [o for o in os_ if not o[2]][0][3]
            bids = [x["bb"] for x in st if x["acc"] and x["bb"] is not None]
            asks = [x["bs"] for x in st if x["acc"] and x["bs"] is not None]
            base = (max(bids) + min(asks)) / 2.0 if bids and asks else t0["mp"]
            if Fraction(s_) - Fraction(b) != Fraction(t0["fund"]) * Fraction(res["spread"]):
                out.append(V("market-maker-quotes-separated-by-fundamental-times-spread", 0, buy=b, sell=s_, fundamental=t0["fund"], spread=res["spread"]))
            if (Fraction(b) + Fraction(s_)) / 2 != Fraction(base):
                out.append(V("market-maker-quotes-symmetric-around-base-price", 0, buy=b, sell=s_, base=base))
    elif k == "arb":
        idx = st[-1]
        comps = st[:-1]
        gap = idx["mp"] - res["index"]
        os_ = res["orders"]
        active = idx["running"] and res["comps_running"] and abs(gap) > res["thr"]
        if not active:
            if os_:
                out.append(V("arbitrage-acts-only-beyond-threshold-when-all-markets-run", 0, gap=gap, threshold=res["thr"], orders=os_))
        else:
            n, v = len(comps), res["v"]
            io = [o for o in os_ if o[1] == idx["id"]]
            co = [o for o in os_ if o[1] != idx["id"]]
            side = gap < 0        # index cheaper than its components: buy the index, sell the components
            ok = (len(io) == 1 and len(co) == n and io[0][2] == side and io[0][4] == n * v and
                  all(o[2] == (not side) and o[4] == v for o in co) and sorted(o[1] for o in co) == sorted(c["id"] for c in comps))
            if not ok:
                out.append(V("arbitrage-sends-hedged-basket", 0, gap=gap, orders=os_, n=n, v=v))
    return out


class SuiteA(engine.Suite):
    name = "A"
    imports = "Require Import Pams.Prelude Pams.Agents."
    runner = "run_case_a"
    shard = 40
    SIZES = {"quick": 400, "thorough": 8000, "search": 120}

    def generate(self, seed, tier):
        rng = random.Random(("A", seed, tier).__repr__())
        return [gen_case(rng) for _ in range(self.SIZES.get(tier, 400))]

    def run_impl(self, case):
        return run_case(case)

    def coq_term(self, case, res):
        try:
            return case_term(case, res)
        except Exception:  # noqa
            return None

    def owners(self, case, res, path, exp, model):
        return ["C20"]

    def monitors(self):
        return {"C20": mon_C20}

    def nontrivial_key(self, case, res):
        if res.get("setup_error") or not res.get("orders"):
            return None
        return hash(json.dumps(case, sort_keys=True))

    def describe(self, case, res):
        return {"case": case, "orders": res.get("orders"), "state": [{k: v for k, v in s.items() if k != "hist"} for s in res.get("state", [])]}

    def stats(self, cases, results):
        kinds = collections.Counter(c["kind"] for c in cases)
        sides = collections.Counter()
        for c, r in zip(cases, results):
            if r.get("orders") is None:
                sides[c["kind"] + ":error" if not r.get("setup_error") else c["kind"] + ":setup-error"] += 1
            else:
                sides[c["kind"] + ":" + ("none" if not r["orders"] else "+".join("buy" if o[2] else "sell" for o in r["orders"][:2]))] += 1
        return {"key_rule": "distinct cases in which the agent produced at least one order", "kinds": dict(kinds), "outcomes": dict(sides)}
