"""Tie (a), nineteenth translator: the walk of a matching round - the statements of Market._execution before its `while True:` loop and the
loop body - -> Gallina: `walk_init_gen` (the state the loop starts from) and `loop_body_gen` (one iteration: the new state and whether the
loop goes on).  Fail-closed.  The two queues are read in the model's view (the elements by priority - what heappop yields on a heap; the
heap discipline itself is the eighteenth translator's business); the three decision kernels (stop test, fill volume, price decision) are
located exactly as the twelfth translator locates them and stand here as the model's `crossing`, `Z.min` and `choose_price`, to which that
translator ties them.  What THIS unit reads from the source is the skeleton: the order of the statements, the refills and their guards,
the exits, the assertions, the decrements, what is appended where.

Loop state (coq/theories/WalkPy.v): buy_order, sell_order (unbound at first: an option), the two residual volumes, the two queues, the two
lists of popped orders, price, pending.
Statements of the body:
    if A != 0 and B != 0: raise AssertionError          if V == 0: <block>                 if V == 0 / V < 0: raise AssertionError
    if len(self.<side>_order_book.priority_queue) == 0: break
    <side>_order = heapq.heappop(self.<side>_order_book.priority_queue)       popped_<side>_orders.append(<side>_order)
    V = <side>_order.volume        volume = min(A, B)        V -= volume
    the stop test `if <..price..>: break`                 the price decision region (statements writing `price` / `pending`)"""
import ast
import os
import re
import sys

from py2coq_arith import Unsupported

VARS = {"buy_order_volume_tmp": "bt", "sell_order_volume_tmp": "st"}
PACK = "(mkW buy_order sell_order bt st bq sq popped_buy_orders popped_sell_orders price pending)"
Q = {"buy": "self.buy_order_book.priority_queue", "sell": "self.sell_order_book.priority_queue"}


def _z(e):
    t = ast.unparse(e)
    if t in VARS:
        return VARS[t]
    if t == "volume":
        return "volume"
    if isinstance(e, ast.Constant) and isinstance(e.value, int) and not isinstance(e.value, bool):
        return f"({e.value})"
    raise Unsupported("integer expression " + t[:60])


def with_sell(term):
    """a statement that reads sell_order: UnboundLocalError while it is still unbound"""
    return f"match sell_order with None => Err EIndex | Some so_ =>\n{term}\nend"


class W:
    def __init__(self, body):
        self.body = body
        stop = [s for s in body if isinstance(s, ast.If) and not s.orelse and len(s.body) == 1 and isinstance(s.body[0], ast.Break)
                and ".price" in ast.unparse(s.test)]

        def writes(s):
            return any((isinstance(x, ast.Assign) and ast.unparse(x.targets[0]) == "price") or
                       (isinstance(x, ast.Call) and ast.unparse(x.func) == "pending.append") for x in ast.walk(s))
        w = [k for k, s in enumerate(body) if writes(s)]
        if len(stop) != 1 or not w:
            raise Unsupported("the stop test / the price decision of the loop")
        self.stop = stop[0]
        self.dec = (w[0], w[-1])
        if w[-1] != len(body) - 1:
            raise Unsupported("statements after the price decision")

    def cond_raise(self, s):
        """`if <c>: raise AssertionError` -> Gallina bool or None"""
        if not (isinstance(s, ast.If) and not s.orelse and len(s.body) == 1 and isinstance(s.body[0], ast.Raise)
                and ast.unparse(s.body[0]).startswith("raise AssertionError")):
            return None
        e = s.test
        if isinstance(e, ast.BoolOp) and isinstance(e.op, ast.And) and len(e.values) == 2:
            parts = []
            for v in e.values:
                if not (isinstance(v, ast.Compare) and len(v.ops) == 1 and isinstance(v.ops[0], ast.NotEq) and ast.unparse(v.comparators[0]) == "0"):
                    return None
                parts.append(f"(negb ({_z(v.left)} =? 0))")
            return f"(andb {parts[0]} {parts[1]})"
        if isinstance(e, ast.Compare) and len(e.ops) == 1 and ast.unparse(e.comparators[0]) == "0":
            if isinstance(e.ops[0], ast.Eq):
                return f"({_z(e.left)} =? 0)"
            if isinstance(e.ops[0], ast.Lt):
                return f"({_z(e.left)} <? 0)"
        return None

    def stmts(self, body, k0=0, ind="  "):
        if not body:
            return f"{ind}Ok (true, {PACK})"
        s, rest = body[0], body[1:]
        t = ast.unparse(s)
        k = lambda: self.stmts(rest, k0 + 1, ind)          # noqa: E731
        if s is self.stop:
            return with_sell(f"{ind}if negb (crossing Q qltb buy_order so_) then Ok (false, {PACK}) else\n" + k())
        if s is self.body[self.dec[0]]:
            return with_sell(f"{ind}let price := choose_price buy_order so_ price in\n"
                             f"{ind}let pending := pending ++ [Fill volume buy_order so_] in\n{ind}Ok (true, {PACK})")
        c = self.cond_raise(s)
        if c is not None:
            return f"{ind}if {c} then Err EAssertWalk else\n" + k()
        if isinstance(s, ast.If) and not s.orelse and isinstance(s.test, ast.Compare) and len(s.test.ops) == 1 \
                and isinstance(s.test.ops[0], ast.Eq) and ast.unparse(s.test.comparators[0]) == "0" and ast.unparse(s.test.left) in VARS:
            return (f"{ind}if ({_z(s.test.left)} =? 0) then\n" + self.stmts(list(s.body) + rest, k0, ind + "  ")
                    + f"\n{ind}else\n" + self.stmts(rest, k0 + 1, ind + "  "))
        for side, q in (("buy", "bq"), ("sell", "sq")):
            if t == f"if len({Q[side]}) == 0:\n    break":
                return f"{ind}match {q} with [] => Ok (false, {PACK}) | _ :: _ =>\n" + k() + f"\n{ind}end"
            if t == f"{side}_order = heapq.heappop({Q[side]})":
                bind = "let buy_order := x_ in" if side == "buy" else "let sell_order := Some x_ in"
                return f"{ind}match {q} with [] => Err EIndex | x_ :: r_ =>\n{ind}{bind}\n{ind}let {q} := r_ in\n" + k() + f"\n{ind}end"
            if t == f"popped_{side}_orders.append({side}_order)":
                if side == "buy":
                    return f"{ind}let popped_buy_orders := popped_buy_orders ++ [buy_order] in\n" + k()
                return with_sell(f"{ind}let popped_sell_orders := popped_sell_orders ++ [so_] in\n" + k())
            if t == f"{side}_order_volume_tmp = {side}_order.volume":
                if side == "buy":
                    return f"{ind}let bt := vol buy_order in\n" + k()
                return with_sell(f"{ind}let st := vol so_ in\n" + k())
            if t in (f"{side}_order_volume_tmp -= volume", f"{side}_order_volume_tmp = {side}_order_volume_tmp - volume"):
                v = VARS[f"{side}_order_volume_tmp"]
                return f"{ind}let {v} := {v} - volume in\n" + k()
        m = re.fullmatch(r"volume = min\((\w+), (\w+)\)", t)
        if m and {m.group(1), m.group(2)} == set(VARS):
            return f"{ind}let volume := Z.min {VARS[m.group(1)]} {VARS[m.group(2)]} in\n" + k()
        raise Unsupported("statement " + t[:100])


def init(pre):
    """the statements between the early return and the loop"""
    lines, seen = [], set()
    for s in pre:
        t = ast.unparse(s.value) if isinstance(s, ast.AnnAssign) and s.value is not None else None
        txt = ast.unparse(s)
        if isinstance(s, ast.AnnAssign) and s.value is None:
            continue                                             # `sell_order: Order` - still unbound
        name = ast.unparse(s.target) if isinstance(s, ast.AnnAssign) else (ast.unparse(s.targets[0]) if isinstance(s, ast.Assign) else None)
        val = ast.unparse(s.value) if isinstance(s, (ast.AnnAssign, ast.Assign)) else None
        if name in ("pending", "popped_buy_orders", "popped_sell_orders") and val == "[]":
            lines.append(f"  let {name} : list {'fillq' if name == 'pending' else 'O'} := [] in")
        elif name == "buy_order" and val == f"heapq.heappop({Q['buy']})":
            lines.append("  match bq with [] => Err EIndex | x_ :: r_ =>\n  let buy_order := x_ in\n  let bq := r_ in")
            seen.add("pop")
        elif txt == "popped_buy_orders.append(buy_order)":
            lines.append("  let popped_buy_orders := popped_buy_orders ++ [buy_order] in")
        elif name == "buy_order_volume_tmp" and val == "buy_order.volume":
            lines.append("  let bt := vol buy_order in")
        elif name == "sell_order_volume_tmp" and val == "0":
            lines.append("  let st := 0 in")
        elif name == "price" and val == "None":
            lines.append("  let price : option Q := None in")
        else:
            raise Unsupported("statement before the loop: " + txt[:100])
        seen.add(name)
    need = {"pending", "popped_buy_orders", "popped_sell_orders", "buy_order", "buy_order_volume_tmp", "sell_order_volume_tmp", "price", "pop"}
    if not need <= seen:
        raise Unsupported("before the loop, missing: " + ", ".join(sorted(need - seen)))
    return ("Definition walk_init_gen (bq sq : list O) : result wst :=\n  let sell_order : option O := None in\n" + "\n".join(lines)
            + f"\n  Ok {PACK}\n  end.\n")


def translate(repo):
    mod = ast.parse(open(os.path.join(repo, "pams/market.py")).read())
    cs = [n for n in mod.body if isinstance(n, ast.ClassDef) and n.name == "Market"]
    if len(cs) != 1:
        raise Unsupported("class Market not found exactly once")
    fs = [n for n in cs[0].body if isinstance(n, ast.FunctionDef) and n.name == "_execution"]
    if len(fs) != 1 or fs[0].decorator_list:
        raise Unsupported("method _execution not found exactly once (undecorated)")
    body = [s for s in fs[0].body if not (isinstance(s, ast.Expr) and isinstance(s.value, ast.Constant) and isinstance(s.value.value, str))]
    wi = [i for i, s in enumerate(body) if isinstance(s, ast.While) and ast.unparse(s.test) == "True"]
    if len(wi) != 1 or body[wi[0]].orelse:
        raise Unsupported("the `while True:` loop of _execution")
    g = body[0]
    if ast.unparse(g) != "if not self.remain_executable_orders():\n    return []":
        raise Unsupported("the early return of _execution: " + ast.unparse(g)[:80])
    loop = list(body[wi[0]].body)
    w = W(loop)
    return ("(* GENERATED by harness/py2coq_walk.py - do not edit *)\n"
            "Require Import Pams.Prelude Pams.Match Pams.Market Pams.OrderPy Pams.WalkPy.\nOpen Scope Z_scope.\n\n"
            "(* pams/market.py: Market._execution - from the early return to the loop *)\n" + init(body[1:wi[0]]) +
            "\n(* one iteration of `while True:` - (does the loop go on?, the state) *)\n"
            "Definition loop_body_gen (w : wst) : result (bool * wst) :=\n"
            "  let buy_order := w_b w in let sell_order := w_s w in let bt := w_bt w in let st := w_st w in\n"
            "  let bq := w_bq w in let sq := w_sq w in let popped_buy_orders := w_pb w in let popped_sell_orders := w_ps w in\n"
            "  let price := w_p w in let pending := w_pend w in\n" + w.stmts(loop) + ".\n")


if __name__ == "__main__":
    sys.stdout.write(translate(os.environ.get("PAMS_REPO", "/repo")))
