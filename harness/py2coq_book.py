"""Tie (a), eighteenth translator: the queue discipline of pams.order_book.OrderBook (add, _remove, cancel, change_order_volume) and of the
put-back at the end of Market._execution -> Gallina over the abstract queue of coq/theories/HeapPy.v: a list of orders together with the
fact whether it currently is a heap.  heappush / heappop / [0] keep or need the heap, list.remove and a list display lose it, heapify
restores it.  Fail-closed: statement by statement, anything else is refused.

Statements (after harness/pynorm.py; `order` also stands for `cancel.order`):
    if <c>: raise E(..)                    if <c>: .. [else: ..]               if order.ttl is not None: ..   (binds the time to live)
    order.placed_at = self.time            heapq.heappush(self.priority_queue, order)
    x = heapq.heappop(self.priority_queue) assert x == order
    self.priority_queue.remove(order)      heapq.heapify(self.priority_queue)
    self.expire_time_list[K] = []          self.expire_time_list[K].append(order)          self.expire_time_list[K].remove(order)
    order.volume += delta                  (a field outside the ranking changes in place: the queue sees it)
    cancel.order.is_canceled = True        cancel.placed_at = self.time       (marks on objects outside the book: no effect on it)
Conditions: order.is_buy != self.is_buy, order == self.priority_queue[0], order in self.priority_queue, order.placed_at is None,
order.volume == 0 / < 0, K not in self.expire_time_list.       K: order.placed_at + order.ttl
Market._execution, between the walk and the application of the fills:
    self.<side>_order_book.priority_queue = [*popped_<side>_orders, *self.<side>_order_book.priority_queue]   (or  A + B)
    heapq.heapify(self.<side>_order_book.priority_queue)"""
import ast
import os
import re
import sys

import pynorm
from py2coq_arith import Unsupported

PQ = "self.priority_queue"
ETL = "self.expire_time_list"


def _o(t):
    return t.replace("cancel.order", "order")


class B:
    def __init__(self):
        self.ttl = None       # name bound to the time to live inside `if order.ttl is not None:`
        self.n = 0

    def key(self, e):
        t = _o(ast.unparse(e))
        if t == "order.placed_at + order.ttl" and self.ttl:
            return f"(placed order + {self.ttl})"
        raise Unsupported("expiry key " + t[:60])

    def cond(self, e):
        """-> (binds, bool term, {exception class: error kind})"""
        t = _o(ast.unparse(e))
        if t in ("order.is_buy != self.is_buy", "self.is_buy != order.is_buy"):
            return "", "(negb (Bool.eqb (isbuy order) (b_side b)))", {"ValueError": "ENotThisMarket"}
        if t == f"order == {PQ}[0]":
            self.n += 1
            v = f"top{self.n}"
            return f"do {v} <- htop (b_q b);", f"(oeq order {v})", {}
        if t == f"order in {PQ}":
            return "", "(hmem order (b_q b))", {}
        if t == "order.placed_at is None":
            return "", "(is_none (Some (placed order)))", {"AssertionError": "EAssertWalk"}
        if t == "order.volume == 0":
            return "", "(vol order =? 0)", {}
        if t == "order.volume < 0":
            return "", "(vol order <? 0)", {"AssertionError": "EAssertNegVolume"}
        m = re.fullmatch(r"(.+) not in " + re.escape(ETL), t)
        if m:
            return "", f"(negb (xhas {self.key(ast.parse(m.group(1), mode='eval').body)} (b_tbl b)))", {}
        raise Unsupported("condition " + t[:80])

    def stmts(self, body, ind="  "):
        """-> Gallina term of type result (book * O) reading and rebinding b and order"""
        if not body:
            return f"{ind}Ok (b, order)"
        s, rest = body[0], body[1:]
        t = _o(ast.unparse(s))
        k = lambda: self.stmts(rest, ind)          # noqa: E731
        if isinstance(s, ast.Pass) or t in ("order.is_canceled = True", "cancel.placed_at = self.time"):
            return k()
        if isinstance(s, ast.If) and _o(ast.unparse(s.test)) == "order.ttl is None":
            s = ast.If(test=ast.parse("order.ttl is not None", mode="eval").body, body=s.orelse or [ast.Pass()], orelse=s.body)
        if isinstance(s, ast.If) and _o(ast.unparse(s.test)) == "order.ttl is not None":
            if self.ttl:
                raise Unsupported("nested test of the time to live")
            self.ttl = "ttl_"
            inner = self.stmts(s.body, ind + "    ")
            self.ttl = None
            other = self.stmts(s.orelse, ind + "    ")
            return (f"{ind}do (b, order) <- (match ttl order with\n{ind}  | Some ttl_ =>\n{inner}\n{ind}  | None =>\n{other}\n{ind}  end);\n" + k())
        if isinstance(s, ast.If):
            binds, c, kinds = self.cond(s.test)
            if not s.orelse and len(s.body) == 1 and isinstance(s.body[0], ast.Raise):
                exc = s.body[0].exc
                name = exc.func.id if isinstance(exc, ast.Call) and isinstance(exc.func, ast.Name) else (exc.id if isinstance(exc, ast.Name) else None)
                if name not in kinds:
                    raise Unsupported("raise " + t[:100])
                return f"{ind}{binds}\n{ind}if {c} then Err {kinds[name]} else\n" + k()
            a = self.stmts(s.body, ind + "    ")
            o = self.stmts(s.orelse, ind + "    ")
            return f"{ind}{binds}\n{ind}do (b, order) <- (if {c} then\n{a}\n{ind}  else\n{o});\n" + k()
        if t == "order.placed_at = self.time":
            return f"{ind}let order := with_placed order (b_time b) in\n" + k()
        if t == f"heapq.heappush({PQ}, order)":
            return f"{ind}let b := bq_set b (hpush order (b_q b)) in\n" + k()
        m = re.fullmatch(r"(\w+) = heapq\.heappop\(" + re.escape(PQ) + r"\)", t)
        if m:
            return f"{ind}do ({m.group(1)}, q_) <- hpop (b_q b);\n{ind}let b := bq_set b q_ in\n" + k()
        m = re.fullmatch(r"assert (\w+) == order", t)
        if m:
            return f"{ind}if negb (oeq {m.group(1)} order) then Err EAssertWalk else\n" + k()
        if t == f"{PQ}.remove(order)":
            return f"{ind}do q_ <- hremove order (b_q b);\n{ind}let b := bq_set b q_ in\n" + k()
        if t == f"heapq.heapify({PQ})":
            return f"{ind}let b := bq_set b (hheapify (b_q b)) in\n" + k()
        if t in ("order.volume += delta", "order.volume = order.volume + delta"):
            return (f"{ind}let order := with_vol order (vol order + delta) in\n{ind}let b := bq_set b (hupdate order (b_q b)) in\n" + k())
        if isinstance(s, ast.Assign) and len(s.targets) == 1 and isinstance(s.targets[0], ast.Subscript) \
                and ast.unparse(s.targets[0].value) == ETL and ast.unparse(s.value) == "[]":
            return f"{ind}let b := btbl_set b (xset {self.key(s.targets[0].slice)} [] (b_tbl b)) in\n" + k()
        if (isinstance(s, ast.Expr) and isinstance(s.value, ast.Call) and isinstance(s.value.func, ast.Attribute)
                and s.value.func.attr in ("append", "remove") and isinstance(s.value.func.value, ast.Subscript)
                and ast.unparse(s.value.func.value.value) == ETL and len(s.value.args) == 1 and _o(ast.unparse(s.value.args[0])) == "order"):
            f = "xappend" if s.value.func.attr == "append" else "xunfile"
            return f"{ind}do t_ <- {f} {self.key(s.value.func.value.slice)} order (b_tbl b);\n{ind}let b := btbl_set b t_ in\n" + k()
        raise Unsupported("statement " + t[:100])


def _method(cls, name, params):
    fs = [n for n in cls.body if isinstance(n, ast.FunctionDef) and n.name == name]
    if len(fs) != 1 or fs[0].decorator_list:
        raise Unsupported(f"method {name} not found exactly once (undecorated)")
    a = fs[0].args
    if [x.arg for x in a.args] != ["self"] + params or a.vararg or a.kwarg or a.kwonlyargs or a.defaults:
        raise Unsupported("signature of " + name)
    return pynorm.normalise(fs[0], cls, returns_none=True)


def putback(repo):
    mod = ast.parse(open(os.path.join(repo, "pams/market.py")).read())
    cs = [n for n in mod.body if isinstance(n, ast.ClassDef) and n.name == "Market"]
    fs = [n for n in cs[0].body if isinstance(n, ast.FunctionDef) and n.name == "_execution"] if len(cs) == 1 else []
    if len(fs) != 1:
        raise Unsupported("Market._execution not found exactly once")
    body = fs[0].body
    wi = [i for i, s in enumerate(body) if isinstance(s, ast.While)]
    li = [i for i, s in enumerate(body) if "self._execute_orders(" in ast.unparse(s)]
    if len(wi) != 1 or len(li) != 1 or li[0] < wi[0]:
        raise Unsupported("the walk / the application of the fills in _execution")
    lines = []
    seen = set()
    for s in body[wi[0] + 1:li[0]]:
        t = ast.unparse(s)
        if isinstance(s, ast.If) and len(s.body) == 1 and isinstance(s.body[0], ast.Raise) and not s.orelse:
            continue                                     # `if price is None: raise AssertionError` (the twelfth translator's business)
        m = re.fullmatch(r"self\.(buy|sell)_order_book\.priority_queue = (?:\[\*popped_(buy|sell)_orders, \*self\.(buy|sell)_order_book\.priority_queue\]"
                         r"|popped_(buy|sell)_orders \+ self\.(buy|sell)_order_book\.priority_queue)", t)
        if m:
            sides = {x for x in m.groups() if x}
            if len(sides) != 1:
                raise Unsupported("put-back mixes the sides: " + t[:100])
            sd = sides.pop()
            lines.append(f"  let q{sd} := hassign (popped_{sd} ++ items q{sd}) in")
            seen.add(sd)
            continue
        m = re.fullmatch(r"heapq\.heapify\(self\.(buy|sell)_order_book\.priority_queue\)", t)
        if m:
            lines.append(f"  let q{m.group(1)} := hheapify q{m.group(1)} in")
            continue
        if "priority_queue" not in t and "heapq" not in t and "order_book" not in t:
            continue                                     # not about the queues
        raise Unsupported("statement " + t[:100])
    if seen != {"buy", "sell"}:
        raise Unsupported("the popped orders of a side are not put back")
    return ("(* pams/market.py: Market._execution - the popped orders are put back in front of what is left of each queue *)\n"
            "Definition putback_gen (popped_buy popped_sell : list O) (qbuy qsell : hq) : hq * hq :=\n" + "\n".join(lines) + "\n  (qbuy, qsell).\n")


def translate(repo):
    mod = ast.parse(open(os.path.join(repo, "pams/order_book.py")).read())
    cs = [n for n in mod.body if isinstance(n, ast.ClassDef) and n.name == "OrderBook"]
    if len(cs) != 1:
        raise Unsupported("class OrderBook not found exactly once")
    cls = cs[0]
    out = ["(* GENERATED by harness/py2coq_book.py - do not edit *)",
           "Require Import Pams.Prelude Pams.Match Pams.Market Pams.OrderPy Pams.ExpirePy Pams.HeapPy.", "Open Scope Z_scope.", ""]
    for name, params, sig in (("add", ["order"], "(b : book) (order : O)"), ("_remove", ["order"], "(b : book) (order : O)"),
                              ("cancel", ["cancel"], "(b : book) (order : O)"),
                              ("change_order_volume", ["order", "delta"], "(b : book) (order : O) (delta : Z)")):
        body = _method(cls, name, params)
        term = B().stmts(body)
        out.append(f"(* pams/order_book.py: OrderBook.{name} *)")
        out.append(f"Definition {name.strip('_')}_gen {sig} : result (book * O) :=\n{term}.\n")
    out.append(putback(repo))
    return "\n".join(out)


if __name__ == "__main__":
    sys.stdout.write(translate(os.environ.get("PAMS_REPO", "/repo")))
