"""Tie (a), twelfth translator: the three decision kernels inside the `while True:` loop of Market._execution -> Gallina.  Fail-closed.
The loop itself (heap pops, the residual volumes, the list of pending fills) is modelled by hand (Match.walk); what is translated is what
decides whether the walk stops, how much is filled and which price the round gets:

  (a) the stop test      `if <condition over buy_order.price / sell_order.price>: break`         -> stop_gen bp sp : pres bool
  (b) the fill volume    `volume = min(buy_order_volume_tmp, sell_order_volume_tmp)`              -> volume_gen b s : Z
  (c) the price decision the statement `if buy_order.price is None or sell_order.price is None: ... else: ...` that assigns `price`
      and appends the pair to `pending`                                                          -> price_gen old bp sp bpl spl bid sid : pres (option Q * nat)
      (the nat counts the `pending.append((volume, buy_order, sell_order))` executed on the path)

Reads: buy_order.price / sell_order.price (Optional[float]), buy_order.placed_at / sell_order.placed_at (int, possibly under cast(int, .)),
buy_order.order_id / sell_order.order_id (Optional[int]); the cell `price`.  Expressions: `x is None`, `x is not None`, and / or / not,
== < > on ints (an ordering of Optional ints is TypeError when one is None), `a if c else b`; statements: `price = e`, if / elif / else,
`raise AssertionError`, the append."""
import ast
import os
import sys

from py2coq_arith import Unsupported

OQ = {"buy_order.price": "bp", "sell_order.price": "sp", "price": "price"}
ZR = {"buy_order.placed_at": "bpl", "sell_order.placed_at": "spl"}
OZ = {"buy_order.order_id": "bid", "sell_order.order_id": "sid"}


def _uncast(e):
    if isinstance(e, ast.Call) and isinstance(e.func, ast.Name) and e.func.id == "cast" and len(e.args) == 2:
        return e.args[1]
    return e


class X:
    def oq(self, e):
        t = ast.unparse(e)
        if t in OQ:
            return f"(POk {OQ[t]})"
        if isinstance(e, ast.Constant) and e.value is None:
            return "(POk None)"
        if isinstance(e, ast.IfExp):
            return f"(pif {self.cond(e.test)} {self.oq(e.body)} {self.oq(e.orelse)})"
        raise Unsupported("expression " + t[:100])

    def cond(self, e):
        t = ast.unparse(e)
        if (isinstance(e, ast.Compare) and len(e.ops) == 1 and isinstance(e.ops[0], (ast.Is, ast.IsNot))
                and isinstance(e.comparators[0], ast.Constant) and e.comparators[0].value is None):
            lt = ast.unparse(e.left)
            if lt in OQ:
                x = f"(POk (is_none {OQ[lt]}))"
            elif lt in OZ:
                x = f"(POk (is_none {OZ[lt]}))"
            else:
                raise Unsupported("`is None` on " + lt)
            return x if isinstance(e.ops[0], ast.Is) else f"(pnot {x})"
        if isinstance(e, ast.Compare) and len(e.ops) == 1 and isinstance(e.ops[0], (ast.Eq, ast.Lt, ast.Gt)):
            a, b = ast.unparse(_uncast(e.left)), ast.unparse(_uncast(e.comparators[0]))
            if a in ZR and b in ZR:
                f = {ast.Eq: "Z.eqb {a} {b}", ast.Lt: "Z.ltb {a} {b}", ast.Gt: "Z.ltb {b} {a}"}[type(e.ops[0])]
                return "(POk (" + f.format(a=ZR[a], b=ZR[b]) + "))"
            if a in OZ and b in OZ and not isinstance(e.ops[0], ast.Eq):
                return f"({'oz_lt' if isinstance(e.ops[0], ast.Lt) else 'oz_gt'} {OZ[a]} {OZ[b]})"
            if a in OQ and b in OQ and isinstance(e.ops[0], ast.Lt):
                return f"(oq_lt {OQ[a]} {OQ[b]})"
            raise Unsupported("comparison " + t[:80])
        if isinstance(e, ast.UnaryOp) and isinstance(e.op, ast.Not):
            return f"(pnot {self.cond(e.operand)})"
        if isinstance(e, ast.BoolOp):
            op = "pand" if isinstance(e.op, ast.And) else "por"
            ts = [self.cond(v) for v in e.values]
            acc = ts[-1]
            for x in reversed(ts[:-1]):
                acc = f"({op} {x} {acc})"
            return acc
        raise Unsupported("condition " + t[:100])

    def stmts(self, body):
        """-> term of type pres (option Q * nat), reading the state from the variables price and n"""
        if not body:
            return "(POk (price, n))"
        s, rest = body[0], body[1:]
        if isinstance(s, ast.Assign) and len(s.targets) == 1 and ast.unparse(s.targets[0]) == "price":
            return f"(pbindm {self.oq(s.value)} (fun price =>\n {self.stmts(rest)}))"
        if ast.unparse(s) == "pending.append((volume, buy_order, sell_order))":
            return f"(let n := S n in\n {self.stmts(rest)})"
        if isinstance(s, ast.Pass):
            return self.stmts(rest)
        if isinstance(s, ast.Raise) and ast.unparse(s) == "raise AssertionError":
            return "(PErr PyAssertionError)"
        if isinstance(s, ast.If):
            return f"(pif {self.cond(s.test)}\n {self.stmts(list(s.body) + rest)}\n {self.stmts(list(s.orelse) + rest)})"
        raise Unsupported("statement " + ast.unparse(s)[:100])


def translate(repo):
    mod = ast.parse(open(os.path.join(repo, "pams/market.py")).read())
    cs = [n for n in mod.body if isinstance(n, ast.ClassDef) and n.name == "Market"]
    if len(cs) != 1:
        raise Unsupported("class Market not found exactly once")
    fs = [n for n in cs[0].body if isinstance(n, ast.FunctionDef) and n.name == "_execution"]
    if len(fs) != 1 or fs[0].decorator_list:
        raise Unsupported("method _execution not found exactly once (undecorated)")
    loops = [n for n in fs[0].body if isinstance(n, ast.While) and ast.unparse(n.test) == "True"]
    if len(loops) != 1:
        raise Unsupported("the `while True:` loop of _execution")
    body = loops[0].body
    stop = [s for s in body if isinstance(s, ast.If) and not s.orelse and len(s.body) == 1 and isinstance(s.body[0], ast.Break)
            and ".price" in ast.unparse(s.test)]
    vol = [s for s in body if isinstance(s, ast.Assign) and ast.unparse(s.targets[0]) == "volume"]
    def writes(s):
        return any((isinstance(x, ast.Assign) and ast.unparse(x.targets[0]) == "price") or
                   (isinstance(x, ast.Call) and ast.unparse(x.func) == "pending.append") for x in ast.walk(s))
    w = [k for k, s in enumerate(body) if writes(s)]
    if len(stop) != 1 or len(vol) != 1 or not w:
        raise Unsupported(f"kernels found: stop test {len(stop)}, volume {len(vol)}, statements writing price / pending {len(w)}")
    # the decision region: the contiguous statements from the first to the last one that writes `price` or `pending`
    dec = body[w[0]:w[-1] + 1]
    idx = [body.index(stop[0]), body.index(vol[0]), w[0]]
    if idx != sorted(idx):
        raise Unsupported("the three kernels are not in the order stop test / volume / price decision")
    x = X()
    if ast.unparse(vol[0].value) != "min(buy_order_volume_tmp, sell_order_volume_tmp)":
        raise Unsupported("volume: " + ast.unparse(vol[0].value))
    return ("(* GENERATED by harness/py2coq_exec.py - do not edit *)\n"
            "Require Import Pams.Prelude Pams.Match Pams.Market Pams.OrderPy Pams.CellsPy.\nFrom Coq Require Import QArith.\nOpen Scope Z_scope.\n\n"
            "(* pams/market.py: Market._execution, inside `while True:` *)\n"
            f"Definition stop_gen (bp sp : option Q) : pres bool :=\n  {x.cond(stop[0].test)}.\n\n"
            "Definition volume_gen (buy_order_volume_tmp sell_order_volume_tmp : Z) : Z := Z.min buy_order_volume_tmp sell_order_volume_tmp.\n\n"
            "Definition price_gen (price bp sp : option Q) (bpl spl : Z) (bid sid : option Z) : pres (option Q * nat) :=\n"
            f"  let n := 0%nat in\n  {x.stmts(list(dec))}.\n")


if __name__ == "__main__":
    sys.stdout.write(translate(os.environ.get("PAMS_REPO", "/repo")))
