"""writes MANIFEST.json from the table of claimed properties (kept in one place)."""
import json, os
VERIF = os.path.dirname(os.path.dirname(os.path.abspath(__file__)))
ALL = [f"C{i:02d}" for i in range(1, 21)]

import sys
sys.path.insert(0, os.path.dirname(os.path.abspath(__file__)))
from claims import CLAIMS, NOT_CLAIMED

def main():
    checks = []
    for p in ALL:
        if p not in CLAIMS:
            continue
        c = CLAIMS[p]
        checks.append({
            "property_id": p,
            "quick_cmd": f"./check {p} quick",
            "thorough_cmd": f"./check {p} thorough",
            "evidence_file": f"/verif/evidence/{p}.json",
            "replay_cmd_template": f"./check {p} --replay {{path}}",
            "engine": "coq-model+correspondence",
            "level_claimed": {"category": c["level"], "text": c["text"], "design_ref": c["design"]},
            "level_note": c["note"],
            "technique": c["technique"],
        })
    na = [{"property_id": p, "reason": NOT_CLAIMED.get(p, "check not built yet in this round (planned: see DESIGN.md section 5); not claimed until its check exists")}
          for p in ALL if p not in CLAIMS]
    m = {
        "version": 1,
        "setup_cmd": "cd /verif/coq && coq_makefile -f _CoqProject -o Makefile && timeout 3000 make -j16",
        "hooks": {"guard": "PAMS_VERIF", "enable": "no source hooks are needed; checks run with PAMS_VERIF=1 but /repo contains no guarded code",
                  "baseline_off_cmd": "cd /repo && /venv/bin/python -m pytest -q -p no:cacheprovider --timeout=900",
                  "source_commits": [], "add_only": True},
        "engines": [{"name": "coq-model+correspondence", "path": "/verif/harness/main.py",
                     "serves_properties": sorted(CLAIMS), "kind_free_text":
                     "Coq 8.16 development (/verif/coq) holding the executable model and the theorems; Python harness that runs the real pams and the model (coqc/vm_compute on generated case files) on the same inputs, property monitors, two fail-closed Python-ast -> Gallina translators whose output is regenerated from /repo and re-proved on every run (C02, C03, C04, C15, C19), evidence writer"}],
        "checks": checks,
        "not_applicable": na,
        "notes": "Seven genuine defects were repaired in /repo by separate 'fix:' commits (see known_findings.json, DESIGN.md section 6).",
    }
    json.dump(m, open(os.path.join(VERIF, "MANIFEST.json"), "w"), indent=1)

if __name__ == "__main__":
    main()
