"""Tie (a), sixteenth translator: Market._cancel_order (the acceptance of one cancel) -> Gallina over the model's market record, statement
by statement in source order.  Fail-closed.

The cancel names an order object; `o` is that object as it is now (an accepted order: its id and accept time are not optional, so
`cancel.order.order_id is None` is translated as a test on `Some (oid o)`).  cancel.placed_at is tracked symbolically (None on entry).
Statements accepted:
    if <cond>: raise ValueError(..) / AssertionError                 if <cond> then Err <kind> else ...
    (self.buy_order_book if cancel.order.is_buy else self.sell_order_book).cancel(cancel=cancel)
                                  book_cancel (static prelude CancelPy.v: the hand model of OrderBook.cancel - the cancel is stamped with
                                  the book's time; the order leaves its side if it is still there, and is remembered as it was)
    self._update_market_price()
    log = CancelLog(order_id=.., market_id=.., cancel_time=cancel.placed_at, order_time=cancel.order.placed_at, agent_id=.., is_buy=..,
                    kind=cancel.order.kind, volume=.., price=.., ttl=..)
    if self.logger is not None: log.read_and_write(logger=self.logger)           reported exactly once
    return log"""
import ast
import os
import sys

import pynorm
from py2coq_arith import Unsupported

LOGARGS = ["order_id", "market_id", "cancel_time", "order_time", "agent_id", "is_buy", "kind", "volume", "price", "ttl"]
FIELDS = {"order_id": "oid", "market_id": "mkt", "order_time": "placed", "agent_id": "agent", "is_buy": "isbuy", "volume": "vol",
          "price": "price", "ttl": "ttl"}
SRC = {"order_id": "order_id", "market_id": "market_id", "order_time": "placed_at", "agent_id": "agent_id", "is_buy": "is_buy",
       "volume": "volume", "price": "price", "ttl": "ttl", "kind": "kind"}


def translate(repo):
    mod = ast.parse(open(os.path.join(repo, "pams/market.py")).read())
    cs = [n for n in mod.body if isinstance(n, ast.ClassDef) and n.name == "Market"]
    if len(cs) != 1:
        raise Unsupported("class Market not found exactly once")
    fs = [n for n in cs[0].body if isinstance(n, ast.FunctionDef) and n.name == "_cancel_order"]
    if len(fs) != 1 or fs[0].decorator_list:
        raise Unsupported("method _cancel_order not found exactly once (undecorated)")
    a = fs[0].args
    if [x.arg for x in a.args] != ["self", "cancel"] or a.vararg or a.kwarg or a.kwonlyargs or a.defaults:
        raise Unsupported("signature of _cancel_order")
    body = pynorm.normalise(fs[0], cs[0], returns_none=False)
    lines, logvar, reported, returned, stamped = [], None, 0, False, False

    def none_test(e):
        if (isinstance(e, ast.Compare) and len(e.ops) == 1 and isinstance(e.ops[0], ast.Is) and isinstance(e.comparators[0], ast.Constant)
                and e.comparators[0].value is None):
            t = ast.unparse(e.left)
            if t == "cancel.order.order_id":
                return "(is_none (Some (oid o)))"
            if t == "cancel.order.placed_at":
                return "(is_none (Some (placed o)))"
            if t == "cancel.placed_at":
                return "(is_none cancel_placed_at)"
        return None

    def cond(e):
        t = ast.unparse(e)
        if isinstance(e, ast.Compare) and len(e.ops) == 1 and isinstance(e.ops[0], ast.NotEq):
            if {ast.unparse(e.left), ast.unparse(e.comparators[0])} == {"self.market_id", "cancel.order.market_id"}:
                return "(negb (m_id m =? mkt o))", {"ValueError": "ENotThisMarket"}
        if isinstance(e, ast.BoolOp) and isinstance(e.op, ast.Or) and all(none_test(v) for v in e.values):
            if {ast.unparse(v.left) for v in e.values} != {"cancel.order.order_id", "cancel.order.placed_at"}:
                raise Unsupported("condition " + t[:80])
            acc = none_test(e.values[-1])
            for v in reversed(e.values[:-1]):
                acc = f"(orb {none_test(v)} {acc})"
            return acc, {"ValueError": "ENotSubmitted"}
        if none_test(e) and ast.unparse(e.left) == "cancel.placed_at":
            return none_test(e), {"AssertionError": "EAssertWalk"}
        raise Unsupported("condition " + t[:80])
    for s in body:
        if returned:
            raise Unsupported("statement after return")
        t = ast.unparse(s)
        if isinstance(s, ast.If) and not s.orelse and len(s.body) == 1 and isinstance(s.body[0], ast.Raise):
            c, kinds = cond(s.test)
            exc = s.body[0].exc
            name = exc.func.id if isinstance(exc, ast.Call) and isinstance(exc.func, ast.Name) else (exc.id if isinstance(exc, ast.Name) else None)
            if name not in kinds:
                raise Unsupported("raise " + t[:100])
            lines.append(f"  if {c} then Err {kinds[name]} else")
        elif t == "(self.buy_order_book if cancel.order.is_buy else self.sell_order_book).cancel(cancel=cancel)":
            if stamped:
                raise Unsupported("the cancel enters the book twice")
            lines.append("  let cancel_placed_at := Some (m_time m) in")
            lines.append("  let m := book_cancel (isbuy o) m o in")
            stamped = True
        elif t == "self._update_market_price()":
            lines.append("  let m := update_market_price m in")
        elif (isinstance(s, (ast.Assign, ast.AnnAssign)) and isinstance(s.value, ast.Call) and ast.unparse(s.value.func) == "CancelLog"
              and isinstance(getattr(s, "target", None) or s.targets[0], ast.Name)):
            if logvar is not None or s.value.args or sorted(kw.arg for kw in s.value.keywords) != sorted(LOGARGS):
                raise Unsupported("the cancel log: " + t[:120])
            kw = {q.arg: ast.unparse(q.value) for q in s.value.keywords}
            for n, src in SRC.items():
                if kw[n] != f"cancel.order.{src}":
                    raise Unsupported(f"log field {n} = {kw[n][:60]}")
            if kw["cancel_time"] != "cancel.placed_at":
                raise Unsupported(f"log field cancel_time = {kw['cancel_time'][:60]}")
            logvar = (getattr(s, "target", None) or s.targets[0]).id
            o = "(mkO " + " ".join(f"({FIELDS[n]} o)" for n in ("order_id", "agent_id", "market_id", "is_buy", "price", "volume", "order_time", "ttl")) + ")"
            lines.append(f"  do ctime <- (match cancel_placed_at with Some c => Ok c | None => Err EAssertNone end);")
            lines.append(f"  let {logvar} := RCancel {o} ctime in")
        elif (isinstance(s, ast.If) and ast.unparse(s.test) == "self.logger is not None" and not s.orelse and len(s.body) == 1
              and logvar and ast.unparse(s.body[0]) == f"{logvar}.read_and_write(logger=self.logger)"):
            reported += 1
        elif isinstance(s, ast.Return) and logvar and ast.unparse(s.value) == logvar:
            returned = True
        else:
            raise Unsupported("statement " + t[:100])
    if not returned or reported != 1 or not stamped:
        raise Unsupported(f"the cancel is reported {reported} times, {'is' if returned else 'is not'} returned, {'entered' if stamped else 'never entered'} the book")
    return ("(* GENERATED by harness/py2coq_cancel.py - do not edit *)\n"
            "Require Import Pams.Prelude Pams.Match Pams.Market Pams.OrderPy Pams.CancelPy.\nFrom RecordUpdate Require Import RecordSet.\n"
            "Import RecordSetNotations.\nOpen Scope Z_scope.\n\n(* pams/market.py: Market._cancel_order *)\n"
            "Definition cancel_order_gen (m : market) (o : O) : result (market * record) :=\n"
            "  let cancel_placed_at : option Z := None in\n"
            + "\n".join(lines) + f"\n  Ok (m, {logvar}).\n")


if __name__ == "__main__":
    sys.stdout.write(translate(os.environ.get("PAMS_REPO", "/repo")))
