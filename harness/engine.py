"""Generic flow of one check (DESIGN 2.1): build + proof obligations, run suites on the real code,
monitors, correspondence with the Coq model, search for a failing input when a tie breaks,
known findings, evidence, exit code."""
import json
import os
import pickle
import random
import sys
import time
import collections

import common
from common import (VERIF, REPO, CACHE, EVID, REPLAYS, ov_json, write_json, proof_status, coq_build, forbidden_scan,
                    run_coq_cases, eval_coq_term, parse_ov, first_diff, tree_hash, load_known, TRUSTED_BASE_COMMON)


class Suite:
    """interface a suite module implements (see suite_m.py)"""
    name = "?"
    imports = ""
    runner = ""
    shard = 12

    def generate(self, seed, tier):            # -> list of cases (JSON-able dicts)
        raise NotImplementedError

    def run_impl(self, case):                  # -> res dict
        raise NotImplementedError

    def coq_term(self, case, res):             # -> (term, input_term, expected_ov) or None (not modelled)
        raise NotImplementedError

    def owners(self, case, res, path, exp, model):   # which properties own the observation at `path`
        raise NotImplementedError

    def monitors(self):                        # prop -> fn(case,res) -> [violations]
        return {}

    def shrink(self, case, still_fails):       # -> smaller case
        return case

    def nontrivial_key(self, case, res):       # hashable key or None when trivial
        return None

    def describe(self, case, res):
        return case

    def stats(self, cases, results):
        return {}


def _cache_path(suite, seed, tier):
    return os.path.join(CACHE, f"{tree_hash()}-{suite.name}-{seed}-{tier}.pkl")


def suite_result(suite, seed, tier, use_cache=True):
    """runs (or loads) implementation + correspondence for a suite"""
    path = _cache_path(suite, seed, tier)
    if use_cache and os.path.exists(path):
        try:
            with open(path, "rb") as fh:
                return pickle.load(fh)
        except Exception:  # noqa
            pass
    t0 = time.time()
    cases = suite.generate(seed, tier)
    results = [suite.run_impl(c) for c in cases]
    t_impl = time.time() - t0
    terms, idx = [], []
    exps = {}
    for i, (c, r) in enumerate(zip(cases, results)):
        ct = suite.coq_term(c, r)
        if ct is None:
            continue
        term, inp, exp = ct
        terms.append(term)
        idx.append(i)
        exps[i] = (inp, exp)
    t1 = time.time()
    n_eval, mism, logs = run_coq_cases(suite.name, suite.imports, suite.runner, terms, shard=suite.shard)
    t_coq = time.time() - t1
    diffs = []
    for k in mism[:40]:
        i = idx[k]
        inp, exp = exps[i]
        try:
            out = eval_coq_term(suite.imports, f"{suite.runner} {inp}")
            model = parse_ov(out)
            path_ = first_diff(exp, model)
            own = suite.owners(cases[i], results[i], path_, exp, model)
            diffs.append({"case": i, "path": path_, "owners": own, "expected_at": _at(exp, path_), "model_at": _at(model, path_)})
        except Exception as e:  # noqa
            diffs.append({"case": i, "path": None, "owners": None, "error": repr(e)[-500:]})
    for k in mism[40:]:
        diffs.append({"case": idx[k], "path": None, "owners": None})
    sr = {"suite": suite.name, "cases": cases, "results": results, "modelled": idx, "n_eval": n_eval,
          "mismatch_cases": [idx[k] for k in mism], "diffs": diffs, "coq_logs": logs,
          "t_impl": t_impl, "t_coq": t_coq}
    os.makedirs(CACHE, exist_ok=True)
    try:
        tmp = f"{path}.{os.getpid()}.tmp"
        with open(tmp, "wb") as fh:
            pickle.dump(sr, fh)
        os.replace(tmp, path)          # atomic: a concurrent check never reads a half-written cache
        # keep the cache small
        files = sorted((os.path.getmtime(os.path.join(CACHE, f)), f) for f in os.listdir(CACHE))
        for _, f in files[:-40]:
            os.remove(os.path.join(CACHE, f))
    except Exception:  # noqa
        pass
    return sr


def _at(v, path):
    if path is None:
        return None
    try:
        for p in path[:-1] if False else path:
            v = v[p]
        return ov_json(v)
    except Exception:  # noqa
        # path may point one past the end of the shorter list
        try:
            for p in path[:-1]:
                v = v[p]
            return {"truncated_list_of_len": len(v)}
        except Exception:  # noqa
            return None


def known_match(prop, violation, known):
    for k in known:
        if k.get("status") != "known" or k.get("property") != prop:
            continue
        sig = k.get("signature", {})
        if sig.get("rule") and sig["rule"] != violation.get("rule"):
            continue
        pred = sig.get("detail_equals")
        if pred:
            d = violation.get("detail", {})
            if not all(ov_json(d.get(kk)) == vv for kk, vv in pred.items()):
                continue
        return k
    return None


def run_check(prop, tier, suites, level, level_text, extra_trusted=(), assumptions=(), extra_checks=None,
              search_budget=None, ties=()):
    """suites: list of Suite objects serving this property."""
    t0 = time.time()
    seed, tier = common.seed_and_tier(tier)
    os.makedirs(REPLAYS, exist_ok=True)
    known = load_known()
    violations = []      # (replay path, text, no_failing_input)
    known_hits = []
    # 1. proofs
    ps = proof_status(prop)
    forb = forbidden_scan()
    obligations = [t for t in ps["theorems"] if t["name"].startswith(prop)]
    discharged = [t for t in obligations if t["checked"]]
    broken_proofs = list(ps["broken"])
    if forb:
        broken_proofs.append({"theorem": None, "why": "forbidden construct in development: " + "; ".join(forb[:5])})
    # 1b. translated units: regenerate from the source, re-check the theorems about the generated text
    tie_results = []
    for tie in ties:
        tr = tie()
        tie_results.append(tr)
        obligations = obligations + tr["theorems"]
        discharged = discharged + [t for t in tr["theorems"] if t["checked"]]
        if not tr["ok"]:
            broken_proofs.append({"theorem": tr.get("broken_theorem") or tr["name"], "why": f"{tr['name']} broke at stage "
                                  f"'{tr['stage']}': {tr['log'][-1200:]}"})
    # 2-4. suites
    cov = {"evaluations": 0, "traces_validated_against_impl": 0}
    distinct = set()
    samples = []
    suite_stats = {}
    broken_corr = []
    monitor_hits = []
    for su in suites:
        sr = suite_result(su, seed, tier)
        cases, results = sr["cases"], sr["results"]
        cov["evaluations"] += len(cases)
        cov["traces_validated_against_impl"] += sr["n_eval"] - len(sr["mismatch_cases"])
        for c, r in zip(cases, results):
            k = su.nontrivial_key(c, r)
            if k is not None:
                distinct.add((su.name, k))
        if cases:
            samples.append({"suite": su.name, "case": ov_json(su.describe(cases[0], results[0]))})
        suite_stats[su.name] = dict(su.stats(cases, results), n_cases=len(cases), modelled=len(sr["modelled"]),
                                    model_evaluations=sr["n_eval"], mismatching_cases=len(sr["mismatch_cases"]),
                                    impl_seconds=round(sr["t_impl"], 2), coq_seconds=round(sr["t_coq"], 2))
        mon = su.monitors().get(prop)
        if mon:
            for ci, (c, r) in enumerate(zip(cases, results)):
                for v in mon(c, r):
                    monitor_hits.append((su, ci, v))
        for d in sr["diffs"]:
            if d["owners"] is None or prop in d["owners"]:
                broken_corr.append((su, d))
        if sr["coq_logs"]:
            broken_corr.append((su, {"case": None, "path": None, "owners": None, "error": sr["coq_logs"][0][-800:]}))
    if extra_checks:
        for v in extra_checks(seed, tier, cov):
            monitor_hits.append((None, None, v))
    # 3. monitor hits -> violations / known findings
    seen_rules = collections.Counter()
    for su, ci, v in monitor_hits:
        k = known_match(prop, v, known)
        if k is not None:
            known_hits.append((k, v))
            continue
        seen_rules[v["rule"]] += 1
        if seen_rules[v["rule"]] > 3:
            continue
        case = su.sr_case(ci) if False else (None if su is None else suite_result(su, seed, tier)["cases"][ci])
        if su is not None:
            mon = su.monitors()[prop]
            rule = v["rule"]

            def still(c2, _mon=mon, _rule=rule, _su=su):
                r2 = _su.run_impl(c2)
                return any(x["rule"] == _rule for x in _mon(c2, r2))
            try:
                small = su.shrink(case, still)
            except Exception:  # noqa
                small = case
            r2 = su.run_impl(small)
            vs = [x for x in su.monitors()[prop](small, r2) if x["rule"] == rule] or [v]
            rp = os.path.join(REPLAYS, f"{prop}-{su.name}-{seed}-{ci}-{rule}.json")
            write_json(rp, {"property": prop, "suite": su.name, "seed": seed, "case_id": f"{su.name}-{seed}-{tier}-{ci}",
                            "input": small, "impl": r2, "verdict": {"monitor": vs[0], "broken": None},
                            "shrunk_from": case if small is not case else None})
        else:
            rp = os.path.join(REPLAYS, f"{prop}-extra-{seed}-{v['rule']}.json")
            write_json(rp, {"property": prop, "suite": "extra", "seed": seed, "verdict": {"monitor": v}})
        violations.append((rp, f"{v['rule']}", False))
    # 5. broken ties without a concrete failing input
    concrete = bool(violations)
    if (broken_proofs or broken_corr) and not concrete:
        found = None
        if suites:
            found = intensified_search(prop, suites, seed, tier, broken_corr, search_budget)
        if found is not None:
            su, case, r2, v = found
            k = known_match(prop, v, known)
            if k is None:
                rp = os.path.join(REPLAYS, f"{prop}-{su.name}-{seed}-search-{v['rule']}.json")
                write_json(rp, {"property": prop, "suite": su.name, "seed": seed, "input": case, "impl": r2,
                                "verdict": {"monitor": v, "broken": "found by intensified search"}})
                violations.append((rp, v["rule"], False))
            else:
                known_hits.append((k, v))
        else:
            rp = os.path.join(REPLAYS, f"{prop}-broken-tie-{seed}.json")
            body = {"property": prop, "seed": seed,
                    "broken_theorems": broken_proofs,
                    "broken_correspondence": [
                        {"suite": su.name, "case_index": d.get("case"), "first_diff_path": d.get("path"),
                         "expected_at": d.get("expected_at"), "model_at": d.get("model_at"), "error": d.get("error"),
                         "input": (suite_result(su, seed, tier)["cases"][d["case"]] if d.get("case") is not None else None)}
                        for su, d in broken_corr[:5]],
                    "note": "no concrete failing input found; the property is no longer shown to hold"}
            write_json(rp, body)
            violations.append((rp, "broken-tie", True))
    # 6. evidence
    axioms = sorted({a for t in obligations for a in (t["assumptions"] or [])})
    cov.update({
        "distinct_nontrivial": len(distinct),
        "rule": "cases from seeded structured generators + corpus; distinct = different suite-specific keys (see suites[*].key_rule); "
                "non-trivial = at least one fill/expiry/cancel or a non-default configuration, per suite",
        "samples": samples[:3] or [{"note": "no differential suite for this property"}],
        "obligations": len(obligations),
        "discharged": len(discharged),
        "theorems": [{"name": t["name"], "checked": t["checked"], "assumptions": t["assumptions"]} for t in obligations],
        "axioms_used": axioms,
        "checker_cmd": f"cd /verif/coq && make && coqc -Q theories Pams -Q props PamsProps props/{prop}.v   # Print Assumptions under each theorem",
        "trusted_base": TRUSTED_BASE_COMMON + list(extra_trusted),
        "suites": suite_stats,
        "broken_proofs": broken_proofs,
        "translator_ties": [{k: v for k, v in tr.items() if k != "theorems"} for tr in tie_results],
        "broken_correspondence": len(broken_corr),
        "monitor_hits": len(monitor_hits),
        "known_findings_hit": sorted({k["id"] for k, _ in known_hits}),
        "explanation": level_text,
        "forbidden_constructs": forb,
    })
    ev = {"property_id": prop, "tier": tier, "seed": seed, "level": level, "coverage": cov,
          "assumptions": list(assumptions), "wall_s": round(time.time() - t0, 2),
          "violations": len(violations)}
    write_json(os.path.join(EVID, f"{prop}.json"), ev)
    for k in sorted({k["id"] for k, _ in known_hits}):
        kk = [x for x in known if x["id"] == k][0]
        print(f"KNOWN-FINDING: property={prop} {kk['id']} {kk['description']}")
    print(f"[{prop}] tier={tier} seed={seed} theorems={len(discharged)}/{len(obligations)} "
          f"cases={cov['evaluations']} model-agree={cov['traces_validated_against_impl']} "
          f"monitor-hits={len(monitor_hits)} broken-corr={len(broken_corr)} wall={ev['wall_s']}s")
    if violations:
        for rp, text, nofail in violations:
            print(f"VIOLATION property={prop} replay={rp}" + (" no-failing-input-found" if nofail else ""))
        return 1
    return 0


def intensified_search(prop, suites, seed, tier, broken_corr, budget=None):
    """the tie broke but the monitor saw nothing on the regular cases: look harder for a concrete
    failing input (more seeds; the disagreeing cases and their prefixes/mutations first)."""
    budget = budget or (150 if tier == "quick" else 450)
    t_end = time.time() + budget
    for su in suites:
        mon = su.monitors().get(prop)
        if not mon:
            continue
        # disagreeing cases first (already seen by the monitor as a whole; try their variants), round-robin over the cases so
        # that one case with many variants cannot use up the whole budget
        gens = []
        for s2, d in broken_corr:
            if s2 is su and d.get("case") is not None and hasattr(su, "variants"):
                case = suite_result(su, seed, tier)["cases"][d["case"]]
                gens.append(su.variants(case, random.Random(seed)))
        t_variants = time.time() + 0.75 * budget
        while gens and time.time() < t_variants:
            for g in list(gens):
                for _ in range(25):
                    try:
                        c2 = next(g)
                    except StopIteration:
                        gens.remove(g)
                        break
                    r2 = su.run_impl(c2)
                    vs = mon(c2, r2)
                    if vs:
                        return su, c2, r2, vs[0]
                if time.time() > t_variants:
                    break
        modes = [suite_result(su, seed, tier)["cases"][d["case"]].get("mode") for s2, d in broken_corr
                 if s2 is su and d.get("case") is not None and isinstance(suite_result(su, seed, tier)["cases"][d["case"]], dict)]
        su.search_modes = [m for m in modes if m] or None
        k = 0
        while time.time() < t_end:
            k += 1
            for c2 in su.generate(seed * 1000003 + 7919 * k + 1, "search"):
                r2 = su.run_impl(c2)
                vs = mon(c2, r2)
                if vs:
                    return su, c2, r2, vs[0]
                if time.time() > t_end:
                    return None
    return None


def replay(prop, path, suites):
    body = json.load(open(path))
    if "input" not in body or body.get("input") is None:
        print(json.dumps(body, indent=1)[:3000])
        print("this replay names a broken theorem/correspondence; re-run the check to see whether it still breaks")
        return 0
    su = [s for s in suites if s.name == body["suite"]][0]
    case = su.load_case(body["input"]) if hasattr(su, "load_case") else body["input"]
    r = su.run_impl(case)
    vs = su.monitors()[prop](case, r)
    for v in vs:
        print("reproduced:", json.dumps(ov_json(v))[:1500])
    if not vs:
        print("not reproduced on the current tree")
    return 1 if vs else 0
