"""Suite M: one real pams Market driven through its underscore methods (as the repository's own
tests do), next to the Level-M Coq model (coq/theories/Market.v).

An op history is a list of tuples:
  ("add", agent, market_id, is_buy, price|None, volume, ttl|None)
  ("resubmit", k)        submit again the object created by the k-th "add" of this history
  ("cancel", k)          cancel the object created by the k-th "add"
  ("cancel_foreign",) ("cancel_unsubmitted",)
  ("exec",) ("tick", fundamental) ("run", bool)
  ("qstate",) ("qat", t) ("qseries",)
Prices/ticks are floats that are dyadic rationals (exact stream) unless the case says otherwise.
"""
import random
import traceback
import linecache
from fractions import Fraction

from common import E, A, ov_lit, qlit, oqlit, ozlit, zlit, blit


def _imports():
    import pams  # noqa
    from pams.market import Market
    from pams.order import Order, Cancel, LIMIT_ORDER, MARKET_ORDER
    from pams.logs.base import Logger, OrderLog, CancelLog, ExecutionLog, ExpirationLog
    from pams.simulator import Simulator
    return Market, Order, Cancel, LIMIT_ORDER, MARKET_ORDER, Logger, OrderLog, CancelLog, ExecutionLog, ExpirationLog, Simulator


def exc_to_E(e):
    """Python exception -> error kind of the model (Prelude.err_code)."""
    msg = str(e)
    tb = traceback.extract_tb(e.__traceback__)
    last = tb[-1] if tb else None
    fn = last.name if last else ""
    if isinstance(e, ValueError):
        if "not for this market" in msg or "different market" in msg:
            return E(1, msg)
        if "already submitted" in msg:
            return E(2, msg)
        if "not submitted before" in msg:
            return E(3, msg)
        if "spoofing" in msg:
            return E(13, msg)
        return E(18, "ValueError:" + msg)
    if isinstance(e, AssertionError):
        if "market is not running" in msg:
            return E(4, msg)
        if "Cannot refer the future" in msg:
            return E(9, msg)
        if "currently order is not accepted" in msg:
            return E(14, msg)
        if fn == "change_order_volume":
            return E(8, msg)
        if fn == "_execution" and last is not None:
            prev = linecache.getline(last.filename, last.lineno - 1)
            if "price is None" in prev:
                return E(6, "price undefined")
            if "remain_executable_orders" in prev:
                return E(7, "executable orders remain")
            return E(5, "walk assertion line %d" % last.lineno)
        if fn in ("_extract_data_by_time", "_extract_sequential_data_by_time"):
            return E(10, "None in series")
        return E(18, "AssertionError:" + msg + "@" + fn)
    if isinstance(e, (IndexError, KeyError)):
        return E(11, type(e).__name__ + ":" + msg)
    return E(18, type(e).__name__ + ":" + msg)


def fr(x):
    return None if x is None else Fraction(x)


class Driver:
    """runs one history on the real Market and returns the list of observations (one per op)
    plus the stream the logger received."""

    def __init__(self, market_id, tick, mp0):
        (Market, Order, Cancel, LIMIT, MARKETK, Logger, OrderLog, CancelLog, ExecutionLog, ExpirationLog,
         Simulator) = _imports()
        self.Order, self.Cancel, self.LIMIT, self.MARKETK = Order, Cancel, LIMIT, MARKETK
        self.kinds = (OrderLog, CancelLog, ExecutionLog, ExpirationLog)
        drv = self

        class Rec(Logger):
            def __init__(s):
                super().__init__()
                s.stream = []

            def write(s, log):
                s.stream.append(drv.log_obs(log))

            def bulk_write(s, logs):
                for l in logs:
                    s.stream.append(drv.log_obs(l))

        self.logger = Rec()
        sim = Simulator(prng=random.Random(0))
        self.m = Market(market_id=market_id, prng=random.Random(1), simulator=sim, name="m", logger=self.logger)
        self.m.setup({"tickSize": tick, "marketPrice": mp0})
        self.market_id = market_id
        self.objs = []   # Order objects by "add" index
        self.cancels = {}   # Cancel objects by order index (re-used when the same order is cancelled again)

    # ---- observations, mirroring Market.v ov_record / q_state / q_at / q_series
    def order_fields(self, l, t):
        return [l.order_id, l.market_id, t, l.agent_id, bool(l.is_buy), fr(l.price), l.volume, l.ttl]

    def log_obs(self, l):
        OrderLog, CancelLog, ExecutionLog, ExpirationLog = self.kinds
        if isinstance(l, OrderLog):
            return [1] + self.order_fields(l, l.time)
        if isinstance(l, CancelLog):
            return [2, l.cancel_time] + self.order_fields(l, l.order_time)
        if isinstance(l, ExecutionLog):
            return [3, l.market_id, l.time, l.buy_agent_id, l.sell_agent_id, l.buy_order_id, l.sell_order_id,
                    fr(l.price), l.volume]
        if isinstance(l, ExpirationLog):
            return [4, l.time] + self.order_fields(l, l.order_time)
        raise TypeError(l)

    def depth(self, d, is_buy):
        items = list(d.items())
        lim = sorted([(k, v) for k, v in items if k is not None], key=lambda kv: kv[0], reverse=is_buy)
        out = [[None, v] for k, v in items if k is None] + [[fr(k), v] for k, v in lim]
        return out

    def qstate(self):
        m = self.m
        t = m.time
        bb, sb = m.buy_order_book, m.sell_order_book
        b0, s0 = bb.get_best_order(), sb.get_best_order()
        return [t, bool(m.is_running), None if b0 is None else b0.order_id, None if s0 is None else s0.order_id,
                fr(m.get_best_buy_price()), fr(m.get_best_sell_price()),
                [[o.order_id, o.volume] for o in sorted(bb.priority_queue)],
                [[o.order_id, o.volume] for o in sorted(sb.priority_queue)],
                self.depth(m.get_buy_order_book(), True), self.depth(m.get_sell_order_book(), False),
                fr(m._market_prices[t]), fr(m._mid_prices[t]), fr(m._last_executed_prices[t]),
                fr(m._fundamental_prices[t]), m._executed_volumes[t], fr(m._executed_total_prices[t]),
                m._n_buy_orders[t], m._n_sell_orders[t], self.heaps_ok()]

    def heaps_ok(self):
        """representation invariant behind the model's sorted-list abstraction: both priority queues are binary heaps
        under Order.__lt__ (a structure that is not a list is not judged here)"""
        for book in (self.m.buy_order_book, self.m.sell_order_book):
            h = getattr(book, "priority_queue", None)
            if not isinstance(h, list):
                continue
            for k in range(1, len(h)):
                if h[k] < h[(k - 1) // 2]:
                    return False
        return True

    def qat(self, t):
        m = self.m
        out = []
        getters = [m.get_market_price, m.get_mid_price, m.get_last_executed_price, m.get_fundamental_price,
                   m.get_executed_volume, m.get_executed_total_price, m.get_n_buy_order, m.get_n_sell_order]
        errs = []
        isq = [True, True, True, True, False, True, False, False]
        for g, q_ in zip(getters, isq):
            try:
                v = g(t)
                out.append(fr(v) if q_ else v)
            except Exception as e:  # noqa
                errs.append(exc_to_E(e))
        try:
            v = m.get_vwap(t)
            out.append(None if v != v else A(v))
        except Exception as e:  # noqa
            errs.append(exc_to_E(e))
        if errs:
            # the model answers one error for the whole query: every getter must refuse alike
            if len(errs) == len(getters) + 1 and all(x == errs[0] for x in errs):
                return errs[0]
            return [E(18, "getters disagree")] + out
        return out

    def qseries(self):
        m = self.m
        if m.time < 0:
            return []
        g = [m.get_market_prices(), m.get_mid_prices(), m.get_last_executed_prices(), m.get_fundamental_prices(),
             m.get_executed_volumes(), m.get_executed_total_prices(), m.get_n_buy_orders(), m.get_n_sell_orders()]
        isq = [True, True, True, True, False, True, False, False]
        return [[fr(x) if q_ else x for x in s] for s, q_ in zip(g, isq)]

    def qtimes(self, ts):
        """plural getters with an explicit (possibly unordered) list of times: all must answer, or all must refuse alike"""
        m = self.m
        getters = [(m.get_mid_prices, True), (m.get_last_executed_prices, True), (m.get_executed_volumes, False),
                   (m.get_executed_total_prices, True), (m.get_n_buy_orders, False), (m.get_n_sell_orders, False)]
        out, errs = [], []
        for g, q_ in getters:
            try:
                v = g(ts)
                out.append([fr(x) if q_ else x for x in v])
            except Exception as e:  # noqa
                errs.append(exc_to_E(e))
        if errs:
            if len(errs) == len(getters) and all(x == errs[0] for x in errs):
                return errs[0]
            return [E(18, "getters disagree")] + out
        return out

    # ---- ops
    def do(self, op):
        m = self.m
        k = op[0]
        try:
            if k == "add":
                _, ag, mk, buy, price, vol, ttl = op
                o = self.Order(agent_id=ag, market_id=mk, is_buy=buy,
                               kind=self.MARKETK if price is None else self.LIMIT,
                               volume=vol, price=price, ttl=ttl)
                self.objs.append(o)
                return self.log_obs(m._add_order(o))
            if k == "resubmit":
                return self.log_obs(m._add_order(self.objs[op[1]]))
            if k == "cancel":
                # a user agent may hand in the same Cancel object again, or one that already carries a (stale) time: every second
                # cancel of an order re-uses the object of the first, and every third first cancel is built with placed_at=0
                c = self.cancels.get(op[1])
                if c is None:
                    c = self.Cancel(order=self.objs[op[1]], placed_at=0) if op[1] % 3 == 0 else self.Cancel(order=self.objs[op[1]])
                    self.cancels[op[1]] = c
                return self.log_obs(m._cancel_order(c))
            if k == "cancel_foreign":
                o = self.Order(agent_id=0, market_id=self.market_id + 1, is_buy=True, kind=self.MARKETK, volume=1)
                o.order_id, o.placed_at = 0, 0
                return self.log_obs(m._cancel_order(self.Cancel(order=o)))
            if k == "cancel_unsubmitted":
                o = self.Order(agent_id=0, market_id=self.market_id, is_buy=True, kind=self.MARKETK, volume=1)
                return self.log_obs(m._cancel_order(self.Cancel(order=o)))
            if k == "exec":
                return [self.log_obs(l) for l in m._execution()]
            if k == "tick":
                n0 = len(self.logger.stream)
                m._update_time(next_fundamental_price=op[1])
                return list(self.logger.stream[n0:])
            if k == "run":
                m._is_running = op[1]
                return None
            if k == "qstate":
                return self.qstate()
            if k == "qat":
                return self.qat(op[1])
            if k == "qseries":
                return self.qseries()
            if k == "qtimes":
                return self.qtimes(list(op[1]))
        except Exception as e:  # noqa
            return exc_to_E(e)
        raise ValueError(op)


def run_history(case):
    d = Driver(case["market_id"], case["tick"], case["mp0"])
    obs = []
    aborted = None
    for i, op in enumerate(case["ops"]):
        ob = d.do(op)
        obs.append(ob)
        # an exception that is not one of the documented refusals leaves the market in an unknown
        # state: the history ends there (the monitors report the raise itself)
        if isinstance(ob, E) and not (ob.code in (1, 2, 3, 9) or (ob.code == 4 and not d.m.is_running)):
            aborted = i
            break
    if aborted is not None:
        case = dict(case, ops=case["ops"][:aborted + 1])
    # agent-side view of each created object at the end
    views = [[o.order_id, o.volume, bool(o.is_canceled), o.placed_at, fr(o.price)] for o in d.objs]
    return {"obs": obs, "logger": d.logger.stream, "views": views, "aborted": aborted, "ops": case["ops"]}


# --------------------------------------------------------------------------------------
# history -> Coq term
# --------------------------------------------------------------------------------------
def op_lit(op, add_ids):
    """add_ids: index of "add" -> accepted order id (None if that add was rejected)"""
    k = op[0]
    if k == "add":
        _, ag, mk, buy, price, vol, ttl = op
        return f"OAdd {zlit(ag)} {zlit(mk)} {blit(buy)} {oqlit(price)} {zlit(vol)} {ozlit(ttl)}"
    if k == "resubmit":
        i, _ = add_ids[op[1]]
        return f"OResubmit {zlit(i)}" if i is not None else None
    if k == "cancel":
        i, foreign = add_ids[op[1]]
        if i is not None:
            return f"OCancel {zlit(i)}"
        return "OCancelForeign" if foreign else "OCancelUnsubmitted"
    if k == "cancel_foreign":
        return "OCancelForeign"
    if k == "cancel_unsubmitted":
        return "OCancelUnsubmitted"
    if k == "exec":
        return "OExec"
    if k == "tick":
        return f"OTick {qlit(op[1])}"
    if k == "run":
        return f"ORun {blit(op[1])}"
    if k == "qstate":
        return "QState"
    if k == "qat":
        return f"QAt {zlit(op[1])}"
    if k == "qseries":
        return "QSeries"
    if k == "qtimes":
        return "QTimes [" + "; ".join(zlit(t) for t in op[1]) + "]"
    raise ValueError(op)


def case_term(case, res):
    """Coq term ((id, tick, mp0, ops), expected observation)."""
    add_ids = []
    for op, ob in zip(case["ops"], res["obs"]):
        if op[0] == "add":
            add_ids.append((ob[1] if isinstance(ob, list) else None, op[2] != case["market_id"]))
    ops = []
    exp = []
    for op, ob in zip(case["ops"], res["obs"]):
        lit = op_lit(op, add_ids)
        if lit is None:
            continue
        ops.append("(" + lit + ")")
        exp.append(ob)
    inp = f"({zlit(case['market_id'])}, {qlit(case['tick'])}, {qlit(case['mp0'])}, [" + "; ".join(ops) + "])"
    return f"({inp}, {ov_lit(exp)})", ops, exp


# --------------------------------------------------------------------------------------
# generator
# --------------------------------------------------------------------------------------
DYADIC_TICKS = [2.0, 1.0, 0.5, 0.25, 0.125]


def gen_deep(rng):
    """deep one-sided books with interior removals (cancel / expiry), then sweeps: exercises the
    re-heapify duties of OrderBook._remove/_check_expired_orders and the rebuild after a round."""
    tick = rng.choice(DYADIC_TICKS)
    ref = rng.choice([100.0, 300.0, 1000.0])
    mid = rng.randint(0, 3)
    ops = [("tick", ref), ("run", True), ("qstate",)]
    n_add = 0
    time = 0
    for rnd in range(rng.randint(1, 3)):
        side_buy = rng.random() < 0.5
        n = rng.randint(6, 18)
        mine = []
        for _ in range(n):
            lvl = rng.randint(1, 12)
            price = ref - lvl * tick if side_buy else ref + lvl * tick
            ttl = rng.choice([None, None, 1, 2, 3])
            ops.append(("add", rng.randint(0, 4), mid, side_buy, price, rng.choice([1, 2, 3]), ttl))
            mine.append(n_add)
            n_add += 1
            if rng.random() < 0.3:
                ops.append(("qstate",))
        ops.append(("qstate",))
        for _ in range(rng.choice([1, 2, 3, 4, 6, 9])):
            g = rng.random()
            if g < 0.7 and mine:
                k = rng.choice(mine)
                mine.remove(k)
                ops.append(("cancel", k))
                ops.append(("qstate",))
            elif g < 0.85:
                ops.append(("tick", ref))
                time += 1
                ops.append(("qstate",))
            else:
                # partial sweep by a small aggressive order
                ops.append(("add", rng.randint(0, 4), mid, not side_buy, None, rng.choice([1, 2, 4]), None))
                n_add += 1
                ops.append(("qstate",))
                ops.append(("exec",))
                ops.append(("qstate",))
        # the sweep
        vol = rng.choice([5, 9, 15, 40])
        if rng.random() < 0.5:
            price = None
        else:
            price = ref - 13 * tick if not side_buy else ref + 13 * tick
            if rng.random() < 0.5:
                price = ref - rng.randint(2, 8) * tick if not side_buy else ref + rng.randint(2, 8) * tick
        ops.append(("add", rng.randint(0, 4), mid, not side_buy, price, vol, rng.choice([None, 1])))
        n_add += 1
        ops.append(("qstate",))
        ops.append(("exec",))
        ops.append(("qstate",))
        if rng.random() < 0.5:
            ops.append(("tick", ref))
            time += 1
            ops.append(("qstate",))
    ops.append(("qseries",))
    ops.append(("qat", time))
    ops.append(("qat", time + 1))
    return {"market_id": mid, "tick": tick, "mp0": ref, "ops": ops, "mode": "deep"}


def gen_heap(rng):
    """heap stress: many resting orders on both sides (matching off), then all of them removed one by one in random
    order by cancel / expiry, with the best order, the sorted content and the depth observed after every removal"""
    tick = rng.choice(DYADIC_TICKS)
    ref = rng.choice([100.0, 300.0])
    mid = rng.randint(0, 3)
    ops = [("tick", ref), ("run", False)]
    n_add = 0
    ids = []
    for _ in range(rng.randint(7, 16)):
        buy = rng.random() < 0.7
        lvl = rng.randint(1, 20)
        price = None if rng.random() < 0.05 else (ref - lvl * tick if buy else ref + lvl * tick)
        ttl = rng.choice([None, None, None, 1, 2])
        ops.append(("add", rng.randint(0, 4), mid, buy, price, rng.choice([1, 2, 3]), ttl))
        ids.append(n_add)
        n_add += 1
    ops.append(("qstate",))
    rng.shuffle(ids)
    time = 0
    for k in ids:
        if rng.random() < 0.12:
            ops.append(("tick", ref))
            time += 1
            ops.append(("qstate",))
        ops.append(("cancel", k))
        ops.append(("qstate",))
    ops.append(("qseries",))
    return {"market_id": mid, "tick": tick, "mp0": ref, "ops": ops, "mode": "heap"}


def gen_quiet(rng):
    """quiet steps: a market (running, sometimes switched) with quotes on both sides that do not cross - a mid price, no trade for a
    while, sometimes one trade early on - and then SEVERAL clock steps with nothing, or only a cancel, in between; every recorded series
    is read before and after each clock step, so whatever a quiet step writes into a step that is already over shows"""
    tick = rng.choice(DYADIC_TICKS)
    ref = rng.choice([100.0, 300.0])
    mid = rng.randint(0, 3)
    running = rng.random() < 0.5
    ops = [("tick", ref), ("run", running)]
    n = 0
    for k in range(rng.randint(1, 3)):
        ops.append(("add", rng.randint(0, 4), mid, True, ref - tick * rng.randint(2, 9), rng.randint(1, 3), rng.choice([None, None, 2, 5])))
        ops.append(("add", rng.randint(0, 4), mid, False, ref + tick * rng.randint(4, 15), rng.randint(1, 3), rng.choice([None, None, 2, 5])))
        n += 2
    if rng.random() < 0.25:
        ops.append(("add", rng.randint(0, 4), mid, True, ref + tick * 20, 1, None))       # one trade, early
        ops.append(("exec",))
        n += 1
    ops += [("qstate",), ("qseries",)]
    t = 0
    for _ in range(rng.randint(2, 6)):
        if not running and rng.random() < 0.6:
            running = True
            ops.append(("run", True))            # quotes came in while the market was stopped; it runs again right before the step
        ops.append(("tick", ref + tick * rng.randint(-2, 2)))
        t += 1
        ops += [("qseries",), ("qat", rng.randint(0, t))]
        r = rng.random()
        if r < 0.2:
            ops.append(("cancel", rng.randrange(n)))
        elif r < 0.3:
            running = rng.random() < 0.5
            ops.append(("run", running))
        elif r < 0.4:
            ops.append(("add", rng.randint(0, 4), mid, rng.random() < 0.5, ref - tick * rng.randint(10, 14), 1, None))
            n += 1
        ops.append(("qstate",))
    ops.append(("qseries",))
    return {"market_id": mid, "tick": tick, "mp0": ref, "ops": ops, "mode": "quiet"}


def gen_churn(rng):
    """continuous trading against a deep book: 8-16 small resting orders on one side at a few price levels (many ties), then a series
    of small aggressive limit orders on the other side at resting levels, a matching round and an observation after each - every round
    consumes the top of the deep side again, so damage done to the book's layout by one round is met by the next ones"""
    tick = rng.choice(DYADIC_TICKS)
    ref = rng.choice([100.0, 300.0])
    mid = rng.randint(0, 3)
    deep_buy = rng.random() < 0.5
    ops = [("tick", ref), ("run", True)]
    levels = [rng.randint(1, 13) for _ in range(rng.randint(3, 6))]
    rest = []
    for _ in range(rng.randint(8, 16)):
        lvl = rng.choice(levels)
        price = ref - lvl * tick if deep_buy else ref + lvl * tick
        ops.append(("add", rng.randint(0, 4), mid, deep_buy, price, rng.choice([1, 1, 1, 2]), None))
        rest.append(lvl)
    ops.append(("qstate",))
    for _ in range(rng.randint(3, 9)):
        lvl = rng.choice(sorted(set(rest)) + [max(rest) + 1, min(rest)])       # any resting level, the best one, or beyond the deepest
        price = ref - lvl * tick if deep_buy else ref + lvl * tick
        ops.append(("add", rng.randint(0, 4), mid, not deep_buy, price, rng.choice([1, 1, 2, 3]), None))
        ops.append(("exec",))
        ops.append(("qstate",))
        if rng.random() < 0.15:
            ops.append(("tick", ref))
    ops.append(("qseries",))
    return {"market_id": mid, "tick": tick, "mp0": ref, "ops": ops, "mode": "churn"}


def gen_tickprobe(rng):
    """limit prices of every magnitude, on the grid and off it by tiny and by large fractions of a tick
    (all exactly representable: dyadic tick, < 53 significant bits), both sides, matching off"""
    tick = rng.choice(DYADIC_TICKS + [2.0 ** -10, 2.0 ** -4, 4.0])
    mid = rng.randint(0, 3)
    ops = [("tick", 100.0), ("run", False)]
    for _ in range(rng.randint(8, 24)):
        k = rng.choice([rng.randint(1, 50), rng.randint(1, 10 ** 4), rng.randint(1, 2 ** 24), rng.randint(2 ** 24, 2 ** 34)])
        g = rng.random()
        if g < 0.25:
            off = 0.0
        else:
            # from half a tick down to 2^-48 of a tick off the grid (the level shrinks so that the sum stays exact)
            j = rng.choice([1, 1, 2, 3, 5, 8, 12, 16, 24, 32, 40, 48])
            k = min(k, 2 ** max(1, 50 - j) - 1)
            off = tick * (2.0 ** -j) * rng.choice([1, -1]) * (rng.choice([1, 3]) if j >= 2 else 1)
        price = k * tick + off
        assert Fraction(price) == Fraction(k) * Fraction(tick) + Fraction(off)
        ops.append(("add", rng.randint(0, 4), mid, rng.random() < 0.5, price, rng.choice([1, 2, 3]), None))
        if rng.random() < 0.3:
            ops.append(("qstate",))
    ops.append(("qstate",))
    return {"market_id": mid, "tick": tick, "mp0": 100.0, "ops": ops, "mode": "tickprobe"}


def gen_history(rng, n_ops, mode=None):
    mode = mode or rng.choice(["continuous", "continuous", "call", "mixed", "deep", "deep", "tickprobe", "heap", "churn"])
    if mode == "churn":
        return gen_churn(rng)
    if mode == "deep":
        return gen_deep(rng)
    if mode == "heap":
        return gen_heap(rng)
    if mode == "tickprobe":
        return gen_tickprobe(rng)
    tick = rng.choice(DYADIC_TICKS)
    ref = rng.choice([100.0, 300.0, 8.0, 1000.0]) + tick * rng.randint(0, 7)
    mid = rng.randint(0, 3)
    ops = [("tick", ref + tick * rng.randint(-3, 3))]
    running = mode != "call"
    ops.append(("run", running))
    n_add = 0
    live = []
    market_share = rng.choice([0.0, 0.1, 0.25, 0.5])
    ttl_mode = rng.choice(["short", "short", "mixed", "none"])
    nlev = rng.choice([2, 3, 5, 9])
    # "penny" histories: limit prices around zero - exactly 0.0, below one tick (a buy is floored to 0.0), negative
    # (Order.__init__ only warns about them, so they are inputs: "any price on or off the tick grid")
    penny = rng.random() < 0.1
    pref = tick * rng.randint(0, 2) if penny else ref
    time = 0
    mutating = 0

    def observe():
        ops.append(("qstate",))
        r = rng.random()
        if r < 0.08:
            ops.append(("qat", rng.randint(0, time + 3)))
        elif r < 0.11:
            ops.append(("qseries",))
        elif r < 0.16:
            # an explicit list of times: in order, out of order, with a future time first / last / in the middle
            ts = [rng.randint(0, time) for _ in range(rng.randint(1, 4))]
            if rng.random() < 0.5:
                ts.insert(rng.randint(0, len(ts)), time + rng.randint(1, 3))
            ops.append(("qtimes", tuple(ts)))

    while mutating < n_ops:
        r = rng.random()
        if r < 0.58:
            is_buy = rng.random() < 0.5
            if rng.random() < market_share:
                price = None
            else:
                lvl = rng.randint(-nlev, nlev)
                # bias towards crossing: buys a bit high, sells a bit low
                if rng.random() < 0.35:
                    lvl = abs(lvl) if is_buy else -abs(lvl)
                price = pref + lvl * tick
                g = rng.random()
                if g < 0.15:
                    price += tick / 2
                elif g < 0.2:
                    price += tick / 4 * rng.choice([1, 3])
                elif g < 0.23:
                    price = float(int(price)) if price == int(price) else price
                if price <= 0 and not penny:
                    price = tick
            vol = rng.choice([1, 1, 2, 3, 5, 8])
            if ttl_mode == "none":
                ttl = None
            elif ttl_mode == "short":
                ttl = rng.choice([1, 1, 2, 3])
            else:
                ttl = rng.choice([None, 1, 2, 5, 10])
            mk = mid
            g = rng.random()
            if g < 0.02:
                mk = mid + 1
            ops.append(("add", rng.randint(0, 4), mk, is_buy, price, vol, ttl))
            if mk == mid:
                live.append(n_add)
            n_add += 1
            mutating += 1
            observe()
            if mode == "continuous" or (mode == "mixed" and running):
                ops.append(("exec",))
                observe()
        elif r < 0.72 and n_add > 0:
            k = rng.choice(live) if (live and rng.random() < 0.8) else rng.randrange(n_add)
            ops.append(("cancel", k))
            if k in live and rng.random() < 0.8:
                live.remove(k)
            mutating += 1
            observe()
            if mode == "continuous" or (mode == "mixed" and running):
                ops.append(("exec",))
                observe()
        elif r < 0.84:
            ops.append(("tick", ref + tick * rng.randint(-5, 5)))
            time += 1
            mutating += 1
            observe()
        elif r < 0.90:
            if mode in ("call", "mixed"):
                running = not running
                ops.append(("run", running))
                if running:
                    ops.append(("exec",))
                observe()
            else:
                ops.append(("exec",))
                observe()
            mutating += 1
        elif r < 0.93:
            ops.append(("exec",))   # also when not running: refused iff the book is executable
            mutating += 1
            observe()
        elif r < 0.97 and n_add > 0:
            g = rng.random()
            if g < 0.4:
                ops.append(("resubmit", rng.randrange(n_add)))
            elif g < 0.7:
                ops.append(("cancel_foreign",))
            else:
                ops.append(("cancel_unsubmitted",))
            mutating += 1
            observe()
        else:
            # a burst of clock steps (crosses the 100-step storage chunk now and then)
            n = rng.choice([2, 3, 3, 40, 101]) if rng.random() < 0.3 else 2
            for _ in range(n):
                ops.append(("tick", ref + tick * rng.randint(-5, 5)))
                time += 1
            mutating += 1
            observe()
    if mode == "call":
        ops.append(("run", True))
        ops.append(("exec",))
        ops.append(("qstate",))
    ops.append(("qseries",))
    ops.append(("qat", time))
    ops.append(("qat", time + 1))
    return {"market_id": mid, "tick": tick, "mp0": ref, "ops": ops, "mode": mode}


# --------------------------------------------------------------------------------------
# Suite interface (engine.py)
# --------------------------------------------------------------------------------------
import collections
import json
import os
import engine


def _tup(case):
    c = dict(case)
    c["ops"] = [tuple(o) for o in case["ops"]]
    return c


class SuiteM(engine.Suite):
    name = "M"
    imports = "Require Import Pams.Prelude Pams.Match Pams.Market."
    runner = "run_case"
    shard = 10

    SIZES = {"quick": (220, [10, 25, 40]), "thorough": (6000, [10, 25, 40, 80]), "search": (60, [10, 25, 40])}

    def generate(self, seed, tier):
        n, lens = self.SIZES.get(tier, self.SIZES["quick"])
        rng = random.Random(("M", seed, tier).__repr__())
        cases = []
        if tier != "search":
            cdir = os.path.join(os.path.dirname(os.path.dirname(os.path.abspath(__file__))), "corpus", "M")
            if os.path.isdir(cdir):
                for f in sorted(os.listdir(cdir)):
                    if f.endswith(".json"):
                        cases.append(_tup(json.load(open(os.path.join(cdir, f)))))
        hint = getattr(self, "search_modes", None) if tier == "search" else None
        for _ in range(n):
            cases.append(gen_history(rng, rng.choice(lens), mode=(rng.choice(hint) if hint and rng.random() < 0.8 else None)))
        # quiet-step histories, appended from a stream of their own: the cases above stay what they were
        rq = random.Random(("M-quiet", seed, tier).__repr__())
        for _ in range(max(4, n // 25)):
            cases.append(gen_quiet(rq))
        return cases

    def load_case(self, obj):
        return _tup(obj)

    def run_impl(self, case):
        return run_history(case)

    def coq_term(self, case, res):
        if case.get("stream", "dyadic") != "dyadic":
            return None
        c = dict(case, ops=res["ops"])
        term, ops, exp = case_term(c, res)
        inp = term[1:term.index(", (VL")]
        return term, inp, exp

    def owners(self, case, res, path, exp, model):
        if not path:
            return None
        # map position in the (possibly filtered) op list back to the op kind
        add_ids = []
        kept = []
        for op, ob in zip(res["ops"], res["obs"]):
            if op[0] == "add":
                add_ids.append((ob[1] if isinstance(ob, list) else None, op[2] != case["market_id"]))
        for op in res["ops"]:
            if op_lit(op, add_ids) is not None:
                kept.append(op)
        if path[0] >= len(kept):
            return None
        k = kept[path[0]][0]
        sub = path[1] if len(path) > 1 else None
        if k == "add":
            return ["C19", "C04"] if sub == 6 else ["C04"]
        if k in ("cancel", "resubmit", "cancel_foreign", "cancel_unsubmitted"):
            return ["C04"]
        if k == "tick":
            return ["C04", "C10"]
        if k == "exec":
            own = ["C01", "C02", "C03", "C04"]
            return own
        if k == "qstate":
            if sub in (0, 1):
                return ["C06"]
            if sub in (2, 3, 6, 7):
                return ["C02", "C04"]
            if sub == 18:
                return ["C01", "C02", "C03", "C08"]
            if sub is None:
                return ["C02", "C04", "C06", "C08"]
            return ["C08"]
        if k in ("qat", "qseries", "qtimes"):
            return ["C06", "C08"]
        return None

    def monitors(self):
        import monitors_m

        def wrap(fn):
            return lambda c, r: fn(monitors_m.Trace(c, r))
        return {k: wrap(v) for k, v in monitors_m.MONITORS.items()}

    def shrink(self, case, still_fails):
        ops = list(case["ops"])

        def without(ops, i):
            op = ops[i]
            if op[0] == "add":
                a = sum(1 for o in ops[:i] if o[0] == "add")
                out = []
                for j, o in enumerate(ops):
                    if j == i:
                        continue
                    if o[0] in ("cancel", "resubmit"):
                        if o[1] == a:
                            continue
                        if o[1] > a:
                            o = (o[0], o[1] - 1)
                    out.append(o)
                return out
            return ops[:i] + ops[i + 1:]
        cur = dict(case, ops=ops)
        if not still_fails(cur):
            return case
        changed = True
        rounds = 0
        while changed and rounds < 4:
            changed = False
            rounds += 1
            i = len(cur["ops"]) - 1
            while i >= 1:
                cand = dict(cur, ops=without(cur["ops"], i))
                try:
                    if cand["ops"] and still_fails(cand):
                        cur = cand
                        changed = True
                except Exception:  # noqa
                    pass
                i -= 1
        return cur

    def variants(self, case, rng):
        """directed extensions of a disagreeing history: if a heap lost its invariant, drain the book in priority
        order (cancels) and sweep it (market orders + round) right after the damage; then plain prefixes"""
        ops = list(case["ops"])
        res = run_history(case)
        bad = None
        for i, (op, ob) in enumerate(zip(res["ops"], res["obs"])):
            if op[0] == "qstate" and isinstance(ob, list) and len(ob) > 18 and ob[18] is False:
                bad = i
                break
        if bad is not None:
            import monitors_m
            tr = monitors_m.Trace(case, res)
            st = res["obs"][bad]
            pre = ops[:bad + 1]
            add_index = {}
            n = 0
            for op, ob in zip(res["ops"], res["obs"]):
                if op[0] == "add":
                    if isinstance(ob, list):
                        add_index[ob[1]] = n
                    n += 1
            for side in (6, 7):
                ids = [x[0] for x in st[side] if x[0] in tr.orders]
                ranked = sorted(ids, key=tr.rank)
                ext = []
                for oid in ranked:
                    ext += [("cancel", add_index[oid]), ("qstate",)]
                yield dict(case, ops=pre + ext)
                tot = sum(x[1] for x in st[side])
                for vol in sorted({1, 2, max(1, tot // 2), max(1, tot - 1), tot}):
                    yield dict(case, ops=pre + [("run", True), ("add", 0, case["market_id"], side == 7, None, vol, None),
                                                ("qstate",), ("exec",), ("qstate",)] * 1)
                    yield dict(case, ops=pre + [("run", True)] + [x for _ in range(4) for x in
                                                                  [("add", 0, case["market_id"], side == 7, None, max(1, vol // 3), None),
                                                                   ("qstate",), ("exec",), ("qstate",)]])
                levels = sorted({tr.orders[x[0]]["price"] for x in st[side] if x[0] in tr.orders and tr.orders[x[0]]["price"] is not None})
                # ... and prices between two resting levels (a limit that reaches some levels but not all)
                tk = case["tick"]
                between = sorted({(a + b) / 2.0 - ((a + b) / 2.0) % tk for a, b in zip(levels, levels[1:]) if b - a > tk})
                for lv in between:
                    for vol in sorted({2, 3, 4, max(1, tot // 2), tot}):
                        yield dict(case, ops=pre + [("run", True), ("add", 0, case["market_id"], side == 7, float(lv), vol, None),
                                                    ("qstate",), ("exec",), ("qstate",)])
                levels = sorted(set(levels) | set(between))
                for lv in levels:
                    for vol in (1, 2, 3):
                        yield dict(case, ops=pre + [("run", True), ("add", 0, case["market_id"], side == 7, float(lv), vol, None),
                                                    ("qstate",), ("exec",), ("qstate",)])
                    yield dict(case, ops=pre + [("run", True)] + [x for _ in range(3) for x in
                                                                  [("add", 0, case["market_id"], side == 7, float(lv), 1, None),
                                                                   ("qstate",), ("exec",), ("qstate",)]])
                    for n_pre in (1, 2, 3):
                        yield dict(case, ops=pre + [("run", True)] + [x for _ in range(n_pre) for x in
                                                                      [("add", 0, case["market_id"], side == 7, None, 1, None), ("exec",)]] +
                                   [("add", 0, case["market_id"], side == 7, float(lv), 2, None), ("qstate",), ("exec",), ("qstate",)])
                # continuous trading against the damaged side: short random sequences of small aggressive limit orders at the
                # resting levels, a round after each (damage done by one round often shows only two or three rounds later)
                if levels:
                    for _ in range(120):
                        ext = [("run", True)]
                        for _k in range(rng.choice([2, 3, 3, 4])):
                            ext += [("add", 0, case["market_id"], side == 7, float(rng.choice(levels)), rng.choice([1, 1, 2, 3]), None),
                                    ("qstate",), ("exec",), ("qstate",)]
                        yield dict(case, ops=pre + ext)
        for cut in range(len(ops), 1, -max(1, len(ops) // 15)):
            yield dict(case, ops=ops[:cut] + [("qstate",)])

    def nontrivial_key(self, case, res):
        nf = sum(len(ob) for op, ob in zip(res["ops"], res["obs"]) if op[0] == "exec" and isinstance(ob, list))
        nx = sum(len(ob) for op, ob in zip(res["ops"], res["obs"]) if op[0] == "tick" and isinstance(ob, list))
        if nf + nx == 0:
            return None
        return hash(repr(res["ops"]))

    def describe(self, case, res):
        return {"mode": case.get("mode"), "tick": case["tick"], "mp0": case["mp0"], "ops": [list(o) for o in res["ops"][:25]],
                "first_observations": res["obs"][:6]}

    def stats(self, cases, results):
        ops = collections.Counter()
        errs = collections.Counter()
        depth_at_removal = collections.Counter()
        fills_per_round = collections.Counter()
        chunk_cross = 0
        modes = collections.Counter()
        for c, r in zip(cases, results):
            modes[c.get("mode")] += 1
            t = -1
            for op, ob in zip(r["ops"], r["obs"]):
                ops[op[0]] += 1
                if isinstance(ob, E):
                    errs[ob.code] += 1
                if op[0] == "exec" and isinstance(ob, list):
                    fills_per_round[min(len(ob), 6)] += 1
                if op[0] == "tick":
                    t += 1
                    if t in (100, 200):
                        chunk_cross += 1
                    if isinstance(ob, list) and ob:
                        depth_at_removal["expiry"] += len(ob)
        return {"key_rule": "distinct op lists with at least one fill or expiry",
                "op_histogram": dict(ops), "error_kinds": {str(k): v for k, v in errs.items()},
                "fills_per_round(capped at 6)": {str(k): v for k, v in sorted(fills_per_round.items())},
                "expiries": depth_at_removal.get("expiry", 0), "storage_chunk_crossings": chunk_cross,
                "modes": dict(modes)}
