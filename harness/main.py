"""./check <property> <quick|thorough> [--replay file]"""
import os
import sys
import warnings
warnings.filterwarnings("ignore")
sys.path.insert(0, os.path.dirname(os.path.abspath(__file__)))
import common  # noqa  (puts /repo first on sys.path)
import engine


import claims


def suites_for(prop):
    import suite_m
    table = {"M": suite_m.SuiteM}
    import suite_s
    import suite_c
    import suite_f
    import suite_a
    table["F"] = suite_f.SuiteF
    table["A"] = suite_a.SuiteA
    table["S"] = suite_s.SuiteS
    table["C"] = suite_c.SuiteC
    c = claims.CLAIMS.get(prop)
    if not c:
        return []
    return [table[n]() for n in c["suites"] if n in table]


def main():
    args = sys.argv[1:]
    if len(args) >= 3 and args[1] == "--replay":
        return engine.replay(args[0], args[2], suites_for(args[0]))
    prop = args[0]
    tier = args[1] if len(args) > 1 else None
    c = claims.CLAIMS.get(prop, {"level": "proof", "text": ""})
    return engine.run_check(prop, tier, suites_for(prop), c["level"], c["text"], extra_trusted=c.get("trusted", ()),
                            extra_checks=c.get("extra_checks"), ties=c.get("ties", ()))


if __name__ == "__main__":
    sys.exit(main())
