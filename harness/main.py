"""./check <property> <quick|thorough> [--replay file]"""
import os
import sys
import warnings
warnings.filterwarnings("ignore")
sys.path.insert(0, os.path.dirname(os.path.abspath(__file__)))
import common  # noqa  (puts /repo first on sys.path)
import engine


def suites_for(prop):
    import suite_m
    M = suite_m.SuiteM()
    table = {
        "C01": [M], "C02": [M], "C03": [M], "C04": [M], "C06": [M], "C08": [M], "C19": [M],
    }
    return table.get(prop, [])


LEVEL = {
    "C19": ("proof", "Tick rounding is proved in Coq over exact rationals for every tick > 0 and every price (both sides): "
            "on-grid unchanged, result on the grid, moved by less than a tick in the passive direction. The model's rounding "
            "is the one used by the Level-M market model, which is compared with the real Market on every run "
            "(dyadic ticks/prices, exact equality)."),
}

EXTRA_TRUSTED = {}


def main():
    args = sys.argv[1:]
    if len(args) >= 3 and args[1] == "--replay":
        return engine.replay(args[0], args[2], suites_for(args[0]))
    prop = args[0]
    tier = args[1] if len(args) > 1 else None
    level, text = LEVEL.get(prop, ("proof", ""))
    return engine.run_check(prop, tier, suites_for(prop), level, text, extra_trusted=EXTRA_TRUSTED.get(prop, ()))


if __name__ == "__main__":
    sys.exit(main())
