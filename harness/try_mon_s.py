import random, sys, time, collections, warnings
warnings.filterwarnings("ignore")
sys.path.insert(0,'/verif/harness')
from common import *
import suite_s, monitors_s
rng=random.Random(int(sys.argv[1]) if len(sys.argv)>1 else 0)
N=int(sys.argv[2]) if len(sys.argv)>2 else 200
cnt=collections.Counter()
t=time.time()
for ci in range(N):
    c=suite_s.gen_case(rng)
    r=suite_s.run_case(c)
    for p,mon in monitors_s.MONITORS.items():
        for v in mon(c,r):
            cnt[(p,v['rule'])]+=1
            if cnt[(p,v['rule'])]<=2:
                print(ci,p,v['rule'],v['at'],str(ov_json(v['detail']))[:400], "| ev:", str(ov_json(r['events'][v['at']]))[:200] if v['at']<len(r['events']) else None)
print(cnt, round(time.time()-t,1))
