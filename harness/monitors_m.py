"""Property predicates over a Level-M implementation trace (case + observations recorded by
suite_m.Driver).  Each monitor returns a list of violations {rule, at, detail}.  They are written
from the property texts, not from the model, so that they give a second, independent reading."""
from fractions import Fraction

from common import E, A


def _is_dyadic(x):
    d = Fraction(x).denominator
    return d & (d - 1) == 0


class Trace:
    """re-reads a history: accepted orders, per-op book snapshots, fills, cancels, expiries"""

    def __init__(self, case, res):
        if res.get("aborted") is not None:
            case = dict(case, ops=res["ops"])
        self.case, self.res = case, res
        self.aborted = res.get("aborted")
        self.tick = Fraction(case["tick"])
        self.orders = {}       # accepted id -> dict
        self.events = []       # (op index, kind, payload)
        self.adds = []         # per "add" op: accepted id or None
        t = -1
        running = False
        self.op_time = []
        self.op_running = []
        for i, (op, ob) in enumerate(zip(case["ops"], res["obs"])):
            k = op[0]
            if k == "tick" and not isinstance(ob, E):
                t += 1
            if k == "run":
                running = op[1]
            self.op_time.append(t)
            self.op_running.append(running)
            if k == "add":
                if isinstance(ob, list):
                    _, oid, mk, placed, ag, buy, price, vol, ttl = ob
                    self.orders[oid] = dict(id=oid, agent=ag, buy=buy, price=price, vol0=vol, ttl=ttl, placed=placed,
                                            submitted=op[4], op=i)
                    self.adds.append(oid)
                    self.events.append((i, "order", ob))
                else:
                    self.adds.append(None)
            elif k in ("cancel",) and isinstance(ob, list):
                self.events.append((i, "cancel", ob))
            elif k == "exec" and isinstance(ob, list):
                for f in ob:
                    self.events.append((i, "fill", f))
            elif k == "tick" and isinstance(ob, list):
                for x in ob:
                    self.events.append((i, "expire", x))

    def rank(self, oid):
        """the property's priority ranking: market first, better price, earlier time, lower id"""
        o = self.orders[oid]
        if o["price"] is None:
            return (0, 0, o["placed"], oid)
        p = Fraction(o["price"])
        return (1, -p if o["buy"] else p, o["placed"], oid)

    def prev_state(self, i):
        for j in range(i - 1, -1, -1):
            if self.case["ops"][j][0] == "qstate":
                return self.res["obs"][j] if isinstance(self.res["obs"][j], list) else None
            if self.case["ops"][j][0] not in ("qat", "qseries", "qtimes"):
                return None
        return None

    def next_state(self, i):
        for j in range(i + 1, len(self.case["ops"])):
            if self.case["ops"][j][0] == "qstate":
                return self.res["obs"][j] if isinstance(self.res["obs"][j], list) else None
            if self.case["ops"][j][0] not in ("qat", "qseries", "qtimes"):
                return None
        return None


def V(rule, at, **detail):
    return {"rule": rule, "at": at, "detail": detail}


# ------------------------------------------------------------------------------------ C01
def mon_C01(tr):
    out = []
    for i, (op, ob) in enumerate(zip(tr.case["ops"], tr.res["obs"])):
        if op[0] != "exec" or not isinstance(ob, list) or not ob:
            continue
        prices = {f[7] for f in ob}
        if len(prices) != 1:
            out.append(V("one-price-per-round", i, prices=sorted(map(float, prices))))
        for f in ob:
            _, mk, t, ba, sa, bi, si, p, v = f
            b, s = tr.orders.get(bi), tr.orders.get(si)
            if b is None or s is None or not b["buy"] or s["buy"] or mk != tr.case["market_id"] or v <= 0:
                out.append(V("fill-pairs-buy-and-sell-of-this-market", i, fill=f))
                continue
            if b["agent"] != ba or s["agent"] != sa:
                out.append(V("fill-names-the-owners", i, fill=f))
            if b["price"] is not None and p > b["price"]:
                out.append(V("price-above-buy-limit", i, fill=f, limit=b["price"]))
            if s["price"] is not None and p < s["price"]:
                out.append(V("price-below-sell-limit", i, fill=f, limit=s["price"]))
        # price rule: the earlier-accepted order of the last matched pair (limit side if other is market)
        _, mk, t, ba, sa, bi, si, p, v = ob[-1]
        b, s = tr.orders.get(bi), tr.orders.get(si)
        if b and s:
            if b["price"] is None and s["price"] is None:
                out.append(V("last-pair-has-no-limit", i, fill=ob[-1]))
            else:
                if b["price"] is None:
                    want = s["price"]
                elif s["price"] is None:
                    want = b["price"]
                else:
                    earlier = b if (b["placed"], b["id"]) < (s["placed"], s["id"]) else s
                    want = earlier["price"]
                if p != want:
                    out.append(V("price-is-earlier-order-of-last-pair", i, fill=ob[-1], want=want))
    return out


# ------------------------------------------------------------------------------------ C02
def mon_C02(tr):
    out = []
    ops, obs = tr.case["ops"], tr.res["obs"]
    for i, (op, ob) in enumerate(zip(ops, obs)):
        if op[0] == "qstate" and isinstance(ob, list):
            # best order = the unique minimum of the ranking among resting orders; listing is sorted
            for side, (best, book) in enumerate([(ob[2], ob[6]), (ob[3], ob[7])]):
                ids = [x[0] for x in book]
                if any(j not in tr.orders for j in ids):
                    continue
                want = sorted(ids, key=tr.rank)
                if ids != want:
                    out.append(V("comparison-agrees-with-ranking", i, side=side, listed=ids, ranked=want))
                if (best is None) != (not ids) or (ids and best != want[0]):
                    out.append(V("best-order-is-highest-priority", i, side=side, best=best, ranked=want[:3]))
        if op[0] == "exec" and isinstance(ob, list) and ob:
            before, after = tr.prev_state(i), tr.next_state(i)
            if before is None or after is None:
                continue
            for side, fi in ((6, 5), (7, 6)):
                filled = {}
                for f in ob:
                    filled[f[fi]] = filled.get(f[fi], 0) + f[8]
                left = dict((x[0], x[1]) for x in after[side])
                pre = [x[0] for x in before[side]]
                if any(j not in tr.orders for j in pre):
                    continue
                pre_ranked = sorted(pre, key=tr.rank)
                for pos, y in enumerate(pre_ranked):
                    if filled.get(y, 0) > 0:
                        for x in pre_ranked[:pos]:
                            if left.get(x, 0) > 0:
                                out.append(V("no-fill-past-unfilled-higher-priority", i, side=side, filled=y, skipped=x))
    return out


# ------------------------------------------------------------------------------------ C03
def mon_C03(tr):
    out = []
    ops, obs = tr.case["ops"], tr.res["obs"]
    for i, (op, ob) in enumerate(zip(ops, obs)):
        if op[0] != "exec":
            continue
        if isinstance(ob, E):
            if ob.code == 4 and not tr.op_running[i]:
                continue      # refusal to fill on a stopped market (C16), not a failure of the round
            out.append(V("round-raised", i, error=ob.code, text=ob.text))
            continue
        st = tr.next_state(i)
        if st is None:
            continue
        # the best orders are computed here from the resting set and the property's ranking, not taken
        # from the engine's own notion of "best" (a corrupted heap misreports it)
        ids_b, ids_s = [x[0] for x in st[6]], [x[0] for x in st[7]]
        if not ids_b or not ids_s or any(j not in tr.orders for j in ids_b + ids_s):
            continue
        bb, bs = min(ids_b, key=tr.rank), min(ids_s, key=tr.rank)
        pb, ps = tr.orders[bb]["price"], tr.orders[bs]["price"]
        if pb is None and ps is None:
            continue
        if pb is None or ps is None or not (pb < ps):
            out.append(V("executable-pair-left-after-round", i, best_bid=pb, best_ask=ps, bid_id=bb, ask_id=bs))
    return out


# ------------------------------------------------------------------------------------ C04
def mon_C04(tr):
    out = []
    ops, obs = tr.case["ops"], tr.res["obs"]
    filled = {}
    terminal = {}    # id -> (kind, volume, time)
    cancelled_at = {}
    last_book = None
    for i, kind, x in tr.events:
        if kind == "fill":
            _, mk, t, ba, sa, bi, si, p, v = x
            for oid in (bi, si):
                o = tr.orders.get(oid)
                if o is None:
                    continue
                filled[oid] = filled.get(oid, 0) + v
                if oid in cancelled_at:
                    out.append(V("fill-after-cancel", i, order=oid))
                if o["ttl"] is not None and t > o["placed"] + o["ttl"]:
                    out.append(V("fill-after-expiry-time", i, order=oid, time=t, placed=o["placed"], ttl=o["ttl"]))
                if oid in terminal and terminal[oid][0] == "expire":
                    out.append(V("fill-after-expiry", i, order=oid))
        elif kind == "cancel":
            _, ct, oid, mk, ot, ag, buy, price, vol, ttl = x
            cancelled_at.setdefault(oid, ct)
            if oid not in terminal:
                terminal[oid] = ("cancel", vol, ct)
        elif kind == "expire":
            _, t, oid, mk, ot, ag, buy, price, vol, ttl = x
            o = tr.orders.get(oid)
            if o is not None:
                if o["ttl"] is None or t != o["placed"] + o["ttl"] + 1:
                    out.append(V("expiry-exactly-when-clock-passes", i, order=oid, time=t, placed=o["placed"], ttl=o["ttl"]))
                if oid in terminal and terminal[oid][0] == "expire":
                    out.append(V("expired-twice", i, order=oid))
            if oid not in terminal:
                terminal[oid] = ("expire", vol, t)
    # resting orders: positive volume, nothing rests past its expiry, everything due has gone
    for i, (op, ob) in enumerate(zip(ops, obs)):
        if op[0] == "qstate" and isinstance(ob, list):
            t = ob[0]
            for side in (6, 7):
                for oid, v in ob[side]:
                    if v <= 0:
                        out.append(V("resting-volume-positive", i, order=oid, volume=v))
                    o = tr.orders.get(oid)
                    if o and o["ttl"] is not None and t > o["placed"] + o["ttl"]:
                        out.append(V("rests-past-expiry", i, order=oid, time=t))
                    if oid in cancelled_at and tr.events and any(e[0] < i and e[1] == "cancel" and e[2][2] == oid for e in tr.events):
                        out.append(V("rests-after-cancel", i, order=oid))
            last_book = ob
    # accounting at the end
    resting = {}
    if last_book is not None:
        for side in (6, 7):
            for oid, v in last_book[side]:
                resting[oid] = v
    final_state_is_last = ops and all(o[0] in ("qstate", "qat", "qseries") for o in ops[max(i for i, o in enumerate(ops) if o[0] == "qstate"):]) if any(o[0] == "qstate" for o in ops) else False
    if final_state_is_last:
        for oid, o in tr.orders.items():
            f = filled.get(oid, 0)
            if oid in terminal:
                rest = terminal[oid][1]
                if oid in resting:
                    out.append(V("rests-after-terminal-event", len(ops) - 1, order=oid))
            else:
                rest = resting.get(oid, 0)
            if o["vol0"] != f + rest:
                out.append(V("volume-accounting", len(ops) - 1, order=oid, accepted=o["vol0"], filled=f, rest=rest,
                             terminal=terminal.get(oid)))
    # accepted at most once, only by the named market
    seen = set()
    for i, (op, ob) in enumerate(zip(ops, obs)):
        if op[0] == "add":
            if op[2] != tr.case["market_id"] and not isinstance(ob, E):
                out.append(V("accepted-by-foreign-market", i))
            if isinstance(ob, list):
                if ob[1] in seen:
                    out.append(V("order-id-reused", i, order=ob[1]))
                seen.add(ob[1])
        if op[0] == "resubmit" and not isinstance(ob, E):
            if tr.adds[op[1]] is not None:
                out.append(V("object-accepted-twice", i))
    return out


# ------------------------------------------------------------------------------------ C06 (history part)
def mon_C06(tr):
    out = []
    ops, obs = tr.case["ops"], tr.res["obs"]
    frozen = {}     # (series index, t) -> value, for t < time at first sight
    cur = {}        # (series index, current step) -> value read since the last operation that can still change the step's records
    for i, (op, ob) in enumerate(zip(ops, obs)):
        t_now = tr.op_time[i]
        if op[0] in ("add", "cancel", "resubmit", "cancel_foreign", "cancel_unsubmitted", "exec"):
            cur.clear()
        if op[0] == "tick":
            # what was read for the step that ends here, with nothing happening in between, IS that step's record from now on
            for k_, v_ in cur.items():
                frozen.setdefault(k_, v_)
            cur.clear()
        if op[0] == "qat" and isinstance(ob, list) and ob and not isinstance(ob[0], E) and op[1] == t_now and len(ob) >= 8:
            for s in range(8):
                cur[(s, t_now)] = ob[s]
        if op[0] == "qseries" and isinstance(ob, list) and ob and all(len(s_) == t_now + 1 for s_ in ob):
            for s in range(8):
                cur[(s, t_now)] = ob[s][t_now]
        if op[0] == "qat":
            if isinstance(ob, list) and ob and isinstance(ob[0], E):
                out.append(V("getters-disagree-on-refusal", i, asked=op[1], now=t_now, got=ob))
                continue
            if op[1] > t_now and not (isinstance(ob, E) and ob.code == 9):
                out.append(V("future-query-not-refused", i, asked=op[1], now=t_now, got=ob))
            if 0 <= op[1] <= t_now and isinstance(ob, E):
                out.append(V("past-query-refused", i, asked=op[1], now=t_now, got=ob))
            if 0 <= op[1] < t_now and isinstance(ob, list):
                for s in range(8):
                    key = (s, op[1])
                    if key in frozen and frozen[key] != ob[s]:
                        out.append(V("recorded-history-changed", i, series=s, t=op[1], was=frozen[key], now=ob[s]))
                    frozen.setdefault(key, ob[s])
        if op[0] == "qtimes":
            fut = any(x > t_now for x in op[1])
            if isinstance(ob, list) and ob and isinstance(ob[0], E):
                out.append(V("getters-disagree-on-refusal", i, asked=list(op[1]), now=t_now))
            elif fut and not (isinstance(ob, E) and ob.code == 9):
                out.append(V("future-query-not-refused", i, asked=list(op[1]), now=t_now, got=ob))
            elif not fut and isinstance(ob, E):
                out.append(V("past-query-refused", i, asked=list(op[1]), now=t_now, got=ob))
            elif not fut and isinstance(ob, list):
                # series order in qtimes: mid, last, volume, turnover, nbuy, nsell = series 1, 2, 4, 5, 6, 7 of qat/qseries
                for s_, row in zip((1, 2, 4, 5, 6, 7), ob):
                    for tt, v in zip(op[1], row):
                        if tt < t_now:
                            key = (s_, tt)
                            if key in frozen and frozen[key] != v:
                                out.append(V("recorded-history-changed", i, series=s_, t=tt, was=frozen[key], now=v))
                            frozen.setdefault(key, v)
        if op[0] == "qseries" and isinstance(ob, list) and ob:
            if any(len(s) != t_now + 1 for s in ob):
                out.append(V("series-length", i, lens=[len(s) for s in ob], now=t_now))
            for s in range(8):
                for t in range(min(t_now, len(ob[s]))):
                    key = (s, t)
                    if key in frozen and frozen[key] != ob[s][t]:
                        out.append(V("recorded-history-changed", i, series=s, t=t, was=frozen[key], now=ob[s][t]))
                    frozen.setdefault(key, ob[s][t])
        if op[0] == "qstate" and isinstance(ob, list):
            # the clock advances by exactly one per tick
            if ob[0] != t_now:
                out.append(V("clock-advances-by-one", i, time=ob[0], expected=t_now))
    return out


# ------------------------------------------------------------------------------------ C08
def mon_C08(tr):
    out = []
    ops, obs = tr.case["ops"], tr.res["obs"]
    last_trade = None
    prev = None          # previous qstate
    prev_i = None        # ... and the index of the operation that read it
    fills_at, turn_at, nb_at, ns_at = {}, {}, {}, {}
    for i, (op, ob) in enumerate(zip(ops, obs)):
        t = tr.op_time[i]
        if op[0] == "exec" and isinstance(ob, list):
            for f in ob:
                last_trade = f[7]
                fills_at[f[2]] = fills_at.get(f[2], 0) + f[8]
                turn_at[f[2]] = turn_at.get(f[2], 0) + f[8] * f[7]
        if op[0] == "add" and isinstance(ob, list):
            d = nb_at if ob[5] else ns_at
            d[ob[3]] = d.get(ob[3], 0) + 1
        if op[0] == "qstate" and isinstance(ob, E):
            out.append(V("state-query-raised", i, error=ob.code, text=ob.text))
        if op[0] != "qstate" or not isinstance(ob, list):
            continue
        (tt, running, bb, bs, pbb, pbs, buys, sells, dbuy, dsell, mp, mid, last, fund, vol, turn, nb, ns) = ob[:18]
        # quotes describe the book
        known = all(x[0] in tr.orders for x in buys + sells)
        if known:
            for side, (book, best_p, dep, is_buy) in enumerate([(buys, pbb, dbuy, True), (sells, pbs, dsell, False)]):
                ids = sorted([x[0] for x in book], key=tr.rank)
                want_best = tr.orders[ids[0]]["price"] if ids else None
                if best_p != want_best:
                    out.append(V("best-quote-describes-book", i, side=side, got=best_p, want=want_best))
                agg = {}
                for oid, v in book:
                    agg[tr.orders[oid]["price"]] = agg.get(tr.orders[oid]["price"], 0) + v
                want = sorted(agg.items(), key=lambda kv: (kv[0] is not None, (-kv[0] if is_buy else kv[0]) if kv[0] is not None else 0))
                if [[k, v] for k, v in want] != [list(x) for x in dep]:
                    out.append(V("depth-describes-book", i, side=side, got=dep, want=want))
        # which op produced this state?
        j = i - 1
        while j >= 0 and ops[j][0] in ("qat", "qseries", "qtimes"):
            j -= 1
        cause = ops[j][0] if j >= 0 else None
        cause_ok = j >= 0 and not isinstance(obs[j], E)
        book_event = cause in ("add", "cancel") and cause_ok or (cause == "exec" and cause_ok and obs[j])
        if last != last_trade:
            out.append(V("last-trade-price-is-most-recent-fill", i, got=last, want=last_trade))
        if book_event:
            want_mid = (pbb + pbs) / 2 if (pbb is not None and pbs is not None) else None
            if mid != want_mid:
                out.append(V("mid-refreshed-from-quotes", i, got=mid, want=want_mid))
            if running:
                # "else unchanged" can only be judged against a reading taken right before this operation: if a clock step or another
                # book event lies between the previous reading and it, the price it started from was not observed
                fresh = prev_i is not None and all(ops[q][0] in ("qat", "qseries", "qtimes", "qstate", "run") for q in range(prev_i + 1, j))
                want_mp = last_trade if last_trade is not None else (want_mid if want_mid is not None else (prev[10] if (prev and fresh) else None))
                if prev is not None and want_mp is not None and mp != want_mp:
                    out.append(V("market-price-rule", i, got=mp, want=want_mp))
        if prev is not None and cause in ("add", "cancel", "exec") and not tr.op_running[j] and prev[0] == tt:
            if mp != prev[10]:
                out.append(V("market-price-frozen-while-not-running", i, got=mp, was=prev[10]))
        if cause == "tick" and prev is not None and prev[0] + 1 == tt:
            if mid != prev[11]:
                out.append(V("mid-carried-over-at-clock-step", i, got=mid, was=prev[11]))
            if last != prev[12]:
                out.append(V("last-carried-over-at-clock-step", i, got=last, was=prev[12]))
            if not running and mp != prev[10]:
                out.append(V("market-price-frozen-while-not-running", i, got=mp, was=prev[10]))
            if running:
                want_mp = prev[12] if prev[12] is not None else (prev[11] if prev[11] is not None else prev[10])
                if mp != want_mp:
                    out.append(V("market-price-rule-at-clock-step", i, got=mp, want=want_mp))
        # step statistics so far at this step
        if vol != fills_at.get(tt, 0) or turn != turn_at.get(tt, 0) or nb != nb_at.get(tt, 0) or ns != ns_at.get(tt, 0):
            out.append(V("step-statistics", i, got=[vol, turn, nb, ns],
                         want=[fills_at.get(tt, 0), turn_at.get(tt, 0), nb_at.get(tt, 0), ns_at.get(tt, 0)]))
        prev = ob
        prev_i = i
    # whole series at the end + vwap
    for i, (op, ob) in enumerate(zip(ops, obs)):
        if tr.aborted is not None:
            break
        if op[0] == "qseries" and isinstance(ob, list) and ob and i >= len(ops) - 4:
            for t in range(len(ob[4])):
                if ob[4][t] != fills_at.get(t, 0) or ob[5][t] != turn_at.get(t, 0) or ob[6][t] != nb_at.get(t, 0) or ob[7][t] != ns_at.get(t, 0):
                    out.append(V("step-statistics-series", i, t=t))
                    break
        if op[0] == "qat" and isinstance(ob, list) and i >= len(ops) - 3 and len(ob) == 9 and not isinstance(ob[0], E):
            t = op[1]
            tv = sum(v for k, v in fills_at.items() if k <= t)
            tp = sum(v for k, v in turn_at.items() if k <= t)
            got = ob[8]
            if tv == 0:
                if got is not None:
                    out.append(V("vwap", i, got=got, want=None))
            else:
                w = Fraction(tp) / tv
                if got is None or abs(got.x - w) > abs(w) * Fraction(1, 10**9):
                    out.append(V("vwap", i, got=got, want=float(w)))
    return out


# ------------------------------------------------------------------------------------ C19
def mon_C19(tr):
    out = []
    tick = tr.tick
    for oid, o in tr.orders.items():
        p, a = o["submitted"], o["price"]
        if p is None:
            if a is not None:
                out.append(V("market-order-got-a-price", o["op"], order=oid))
            continue
        p = Fraction(p)
        exact = _is_dyadic(tick) and _is_dyadic(p) and abs(p) < 2**40
        on_grid = (p / tick).denominator == 1
        tol = 0 if exact else Fraction(1, 10**9) * max(abs(p), tick)
        if a is None:
            out.append(V("limit-order-lost-its-price", o["op"], order=oid))
            continue
        if exact and on_grid and a != p:
            out.append(V("on-grid-price-changed", o["op"], submitted=p, accepted=a))
        if exact and (a / tick).denominator != 1:
            out.append(V("accepted-price-off-grid", o["op"], submitted=p, accepted=a))
        if o["buy"]:
            if a > p + tol:
                out.append(V("buy-rounded-up", o["op"], submitted=p, accepted=a))
            if not (p - tick - tol < a):
                out.append(V("moved-by-a-tick-or-more", o["op"], submitted=p, accepted=a))
        else:
            if a < p - tol:
                out.append(V("sell-rounded-down", o["op"], submitted=p, accepted=a))
            if not (a < p + tick + tol):
                out.append(V("moved-by-a-tick-or-more", o["op"], submitted=p, accepted=a))
    return out


# ------------------------------------------------------------------------------------ C10 (market part)
def mon_C10(tr):
    """the logger receives exactly one record per accepted order, accepted cancel, fill and expiry, in order: the stream it saw
    equals the records the operations returned, and every order that leaves the book at a clock step has its expiry record"""
    out = []
    ops, obs = tr.case["ops"], tr.res["obs"]
    want = []
    for op, ob in zip(ops, obs):
        if op[0] in ("add", "cancel", "resubmit", "cancel_foreign", "cancel_unsubmitted") and isinstance(ob, list):
            want.append(ob)
        elif op[0] in ("exec", "tick") and isinstance(ob, list):
            want += ob
    got = tr.res["logger"]
    if tr.aborted is None and [repr(x) for x in got] != [repr(x) for x in want]:
        n = min(len(got), len(want))
        pos = next((i for i in range(n) if repr(got[i]) != repr(want[i])), n)
        out.append(V("logger-stream-equals-events", 0, first_difference=pos, delivered=len(got), events=len(want)))
    # the order record describes the order AS ACCEPTED: id, accept time and (rounded) price are those the order object carries
    views = tr.res.get("views") or []
    k = -1
    for i, (op, ob) in enumerate(zip(ops, obs)):
        if op[0] != "add":
            continue
        k += 1
        if isinstance(ob, list) and ob and ob[0] == 1 and k < len(views):
            v = views[k]
            if (ob[1], ob[3], ob[6]) != (v[0], v[3], v[4]) and len(out) < 5:
                out.append(V("order-record-equals-the-order-as-accepted", i, record=dict(id=ob[1], time=ob[3], price=ob[6]),
                             order=dict(id=v[0], placed_at=v[3], price=v[4])))
    # every record carries the time of the clock at which its event happened (a cancel is recorded at the step it is accepted, whatever
    # the Cancel object carried before; a fill and an expiry at the step of the round / of the clock move)
    clock = -1
    for i, (op, ob) in enumerate(zip(ops, obs)):
        if not isinstance(ob, list):
            continue
        if op[0] == "tick":
            clock += 1
        recs = [ob] if op[0] in ("cancel",) else (ob if op[0] in ("exec", "tick") else [])
        for r in recs:
            if not isinstance(r, list) or not r:
                continue
            when = {2: 1, 3: 2, 4: 1}.get(r[0])
            if when is not None and r[when] != clock and len(out) < 5:
                out.append(V("record-carries-the-time-of-its-event", i, kind={2: "cancel", 3: "fill", 4: "expiry"}[r[0]], recorded_time=r[when], clock=clock))
    # independent of what the clock step returned: who left the book at the step?
    for i, (op, ob) in enumerate(zip(ops, obs)):
        if op[0] != "tick" or not isinstance(ob, list):
            continue
        before, after = tr.prev_state(i), tr.next_state(i)
        if before is None or after is None:
            continue
        gone = ({x[0] for x in before[6]} | {x[0] for x in before[7]}) - ({x[0] for x in after[6]} | {x[0] for x in after[7]})
        logged = {x[2] for x in ob if x[0] == 4}
        if gone != logged:
            out.append(V("every-expiry-has-exactly-one-record", i, left_the_book=sorted(gone), expiry_records=sorted(logged)))
        if len(logged) != len([x for x in ob if x[0] == 4]):
            out.append(V("every-expiry-has-exactly-one-record", i, duplicated=True))
    return out


ABORT_OWNER = {"exec": ["C03"], "tick": ["C04", "C06"], "add": ["C04", "C19"], "cancel": ["C04"], "resubmit": ["C04"],
               "cancel_foreign": ["C04"], "cancel_unsubmitted": ["C04"], "qstate": ["C08"], "qat": ["C06", "C08"],
               "qseries": ["C06", "C08"], "qtimes": ["C06", "C08"], "run": []}


def guarded(mon, prop=None):
    def run(tr):
        try:
            out = mon(tr)
            if tr.aborted is not None:
                op = tr.case["ops"][tr.aborted]
                ob = tr.res["obs"][tr.aborted]
                if prop in ABORT_OWNER.get(op[0], []) and not any(v["at"] == tr.aborted for v in out):
                    out.append(V("operation-raised", tr.aborted, op=list(op), error=ob.code, text=ob.text))
            return out
        except Exception as e:  # noqa  -- a trace the monitor cannot read is itself reported
            import traceback
            return [V("trace-uninterpretable", 0, error=repr(e), where=traceback.format_exc()[-400:])]
    return run


MONITORS = {"C01": mon_C01, "C02": mon_C02, "C03": mon_C03, "C04": mon_C04, "C06": mon_C06, "C08": mon_C08,
            "C10": mon_C10, "C19": mon_C19}
MONITORS = {k: guarded(v, k) for k, v in MONITORS.items()}
