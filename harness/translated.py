"""Tie (a): units of /repo translated to Gallina on every run, with theorems re-checked against the generated text.
Currently one unit: the comparison operators and is_expired of pams.order.Order (py2coq_order.py)."""
import itertools
import os
import re
import shutil
import subprocess
import tempfile
import time

from common import COQ, REPO, VERIF

TR = os.path.join(COQ, "translated")


def _run_tie(name, sources, translate, gen_file, proofs_file, prefix, pre_proofs=()):
    """translate, compile the generated definitions and the theorems about them.
    -> dict(name, ok, stage, log, theorems=[{name, checked, assumptions}], seconds)"""
    t0 = time.time()
    res = {"name": name, "ok": False, "stage": "translate", "log": "", "theorems": [], "source": sources}
    proofs_src = open(os.path.join(TR, proofs_file)).read()
    names = re.findall(r"^(?:Theorem|Example)\s+(\w+)", proofs_src, re.M)
    res["theorems"] = [{"name": prefix + n, "checked": False, "assumptions": None} for n in names]
    try:
        text = translate()
    except Exception as e:  # noqa  (Unsupported = fails closed; syntax error in the source, file missing, ...)
        kind = "translator fails closed: " if type(e).__name__ == "Unsupported" else "translator error: "
        res["log"] = kind + (str(e) if type(e).__name__ == "Unsupported" else repr(e))[-400:]
        res["seconds"] = round(time.time() - t0, 2)
        return res
    os.makedirs(os.path.join(COQ, "gen"), exist_ok=True)
    wd = tempfile.mkdtemp(prefix="tie_", dir=os.path.join(COQ, "gen"))
    try:
        # several generated files (gen_file a list, translate() a list of texts) and proof files they need first (pre_proofs)
        gens = list(zip(gen_file, text)) if isinstance(gen_file, (list, tuple)) else [(gen_file, text)]
        for gf, gt in gens:
            open(os.path.join(wd, gf), "w").write(gt)
        for pf in tuple(pre_proofs) + (proofs_file,):
            shutil.copy(os.path.join(TR, pf), wd)
        text = "".join(gt for _gf, gt in gens)
        flags = ["-Q", os.path.join(COQ, "theories"), "Pams", "-Q", wd, "PamsGen"]
        stages = [("compile-generated", gf) for gf, _gt in gens] + [("supporting-proofs", pf) for pf in pre_proofs] + [("proofs", proofs_file)]
        for stage, f in stages:
            res["stage"] = stage
            p = subprocess.run(["timeout", "300", "coqc"] + flags + [os.path.join(wd, f)], cwd=wd, text=True,
                               stdout=subprocess.PIPE, stderr=subprocess.STDOUT)
            if p.returncode != 0:
                res["log"] = p.stdout[-1500:]
                m = re.search(r"line (\d+)", p.stdout)
                if m and stage == "proofs":
                    upto = "\n".join(proofs_src.splitlines()[:int(m.group(1))])
                    prev = re.findall(r"^(?:Theorem|Example)\s+(\w+)", upto, re.M)
                    res["broken_theorem"] = (prefix + prev[-1]) if prev else None
                res["seconds"] = round(time.time() - t0, 2)
                return res
            out = p.stdout
        blocks = re.split(r"(?m)^(?=Closed under the global context|Axioms:)", out)
        blocks = [b.strip() for b in blocks if b.startswith("Closed under") or b.startswith("Axioms:")]
        printed = re.findall(r"^Print Assumptions\s+(\w+)", proofs_src, re.M)
        assum = {}
        for n, b in zip(printed, blocks):
            assum[n] = [] if b.startswith("Closed") else [a for a in re.findall(r"^([\w.]+)\s*:", b, re.M) if a != "Axioms"]
        res["theorems"] = [{"name": prefix + n, "checked": True, "assumptions": assum.get(n)} for n in names]
        res["ok"] = True
        res["stage"] = "done"
        res["generated_lines"] = text.count("\n")
    finally:
        shutil.rmtree(wd, ignore_errors=True)
    res["seconds"] = round(time.time() - t0, 2)
    return res


def order_tie():
    """the comparison operators and is_expired of pams.order.Order (C02, C04)"""
    import py2coq_order
    src = os.path.join(REPO, "pams", "order.py")
    return _run_tie("translator:pams/order.py", src, lambda: py2coq_order.translate(src), "OrderGen.v", "OrderGenProofs.v", "OrderGen.")


def arith_tie(group):
    """group C15: PriceLimitRule.get_limited_price; C19: Market.convert_to_tick_level* / convert_to_price;
    C03: Market.remain_executable_orders; C16: the two decisions of TradingHaltRule; C14: the hooks of the two shocks"""
    import py2coq_arith
    files = {"C15": ["pams/events/price_limit_rule.py"], "C19": ["pams/market.py"], "C03": ["pams/market.py"],
             "C16": ["pams/events/trading_halt_rule.py"],
             "C14": ["pams/events/fundamental_price_shock.py", "pams/events/order_mistake_shock.py"]}[group]
    return _run_tie(f"translator:{'+'.join(files)}({group} kernel)", [os.path.join(REPO, f) for f in files],
                    lambda: py2coq_arith.translate_all(REPO, groups=(group,)), "ArithGen.v", f"Arith{group}Proofs.v", "ArithGen.")


def state_tie():
    """Simulator._update_agents_for_execution (C05): the loop that books a round's fills into the agents' holdings"""
    import py2coq_state
    src = os.path.join(REPO, "pams", "simulator.py")
    return _run_tie("translator:pams/simulator.py(C05 kernel)", src, lambda: py2coq_state.translate_all(REPO), "StateGen.v",
                    "StateC05Proofs.v", "StateGen.")


def index_tie():
    """IndexMarket.compute_market_index / compute_fundamental_index (C17): the accumulation over the components"""
    import py2coq_state
    src = os.path.join(REPO, "pams", "index_market.py")
    return _run_tie("translator:pams/index_market.py(C17 kernel)", src, lambda: py2coq_state.translate_index_all(REPO), "IndexGen.v",
                    "IndexC17Proofs.v", "IndexGen.")


def orders_tie():
    """ArbitrageAgent._submit_orders and MarketMakerAgent.submit_orders (C20): the order lists they build"""
    import py2coq_orders
    srcs = [os.path.join(REPO, "pams", "agents", f) for f in ("arbitrage_agent.py", "market_maker_agent.py")]
    return _run_tie("translator:pams/agents/arbitrage_agent.py+market_maker_agent.py(C20 kernel)", srcs,
                    lambda: py2coq_orders.translate_all(REPO), "OrdersGen.v", "OrdersC20Proofs.v", "OrdersGen.")


def dict_tie():
    """pams/utils/json_extends.py (C18): the inheritance loop over insertion-ordered dicts"""
    import py2coq_dict
    src = os.path.join(REPO, "pams", "utils", "json_extends.py")
    return _run_tie("translator:pams/utils/json_extends.py(C18 kernel)", src, lambda: py2coq_dict.translate(REPO), "DictGen.v",
                    "DictC18Proofs.v", "DictGen.")


def corr_tie():
    """Fundamentals.set_correlation / remove_correlation (C12): the correlation table as a map on unordered pairs"""
    import py2coq_corr
    src = os.path.join(REPO, "pams", "fundamentals.py")
    return _run_tie("translator:pams/fundamentals.py(C12 correlation table)", src, lambda: py2coq_corr.translate(REPO), "CorrGen.v",
                    "CorrC12Proofs.v", "CorrGen.")


def corr_sweep_c12(seed=0, tier="quick", cov=None):
    """directed search used with the C12 tie: random scripts of set_correlation / remove_correlation on the real Fundamentals, naming
    pairs both ways round, against a reference map on unordered pairs: what was set last is what both orders read, a removed pair is
    gone for both, no pair is stored twice, nothing else changes; wrong arguments are refused"""
    import random
    from pams.fundamentals import Fundamentals
    out, n = [], 0
    rnd = random.Random(7000 + seed)
    for trial in range(60 if tier == "quick" else 600):
        f = Fundamentals(prng=random.Random(trial))
        ref = {}
        script = []
        for _ in range(rnd.randint(1, 8)):
            a, b = rnd.sample(range(4), 2)
            if ref and rnd.random() < 0.3:
                a, b = rnd.choice([tuple(k) for k in ref])
                if rnd.random() < 0.5:
                    a, b = b, a
                op = ("remove", a, b)
            else:
                op = ("set", a, b, rnd.choice([-0.5, -0.25, 0.25, 0.5, 0.75]))
            script.append(op)
            n += 1
            try:
                if op[0] == "set":
                    f.set_correlation(a, b, op[3])
                    ref[frozenset((a, b))] = op[3]
                else:
                    f.remove_correlation(a, b)
                    ref.pop(frozenset((a, b)))
                got = {}
                dup = False
                for (x, y), v in f.correlation.items():
                    dup = dup or frozenset((x, y)) in got
                    got[frozenset((x, y))] = v
                bad = dup or got != ref
            except Exception as e:  # noqa
                got, bad = {"raised": repr(e)[:100]}, True
            if bad and len(out) < 3:
                out.append({"rule": "log-returns-have-configured-volatility-and-correlation", "at": n,
                            "detail": {"script": script, "table": [[list(k), v] for k, v in f.correlation.items()],
                                       "expected": [[sorted(k), v] for k, v in ref.items()],
                                       "source": "direct calls of Fundamentals.set_correlation / remove_correlation"}})
                break
        for args in ((1, 1, 0.5), (0, 1, 1.0), (0, 1, -1.0)):
            try:
                f.set_correlation(*args)
                if len(out) < 3:
                    out.append({"rule": "log-returns-have-configured-volatility-and-correlation", "at": n,
                                "detail": {"set_correlation": list(args), "expected": "ValueError", "got": "accepted"}})
            except ValueError:
                pass
    # the configured correlations: simulation.fundamentalCorrelations.pairwise of the runner's settings must arrive in the table under
    # the ids of the named markets, whichever way round the pair is named, and a pair naming a market without volatility is refused
    from pams.runners import SequentialRunner
    names = ["A", "B", "C", "D"]
    for trial in range(12 if tier == "quick" else 60):
        pairs, ref = [], {}
        for _ in range(rnd.randint(1, 4)):
            a, b = rnd.sample(names, 2)
            c = rnd.choice([-0.5, -0.25, 0.25, 0.5, 0.75])
            pairs.append([a, b, c])
            ref[frozenset((a, b))] = c
        cfg = {"simulation": {"markets": names, "agents": [], "sessions": [{"sessionName": 0, "iterationSteps": 1, "withOrderPlacement": False,
                                                                              "withOrderExecution": False, "withPrint": False}],
                              "fundamentalCorrelations": {"pairwise": pairs}}}
        for k, nm in enumerate(names):
            cfg[nm] = {"class": "Market", "tickSize": 1.0, "marketPrice": 100.0 + k, "fundamentalVolatility": 0.01}
        n += 1
        try:
            r = SequentialRunner(settings=cfg, prng=random.Random(trial))
            r._setup()
            id2name = {m.market_id: m.name for m in r.simulator.markets}
            got = {}
            for (x, y), v in r.simulator.fundamentals.correlation.items():
                got[frozenset((id2name[x], id2name[y]))] = v
            bad = got != ref or len(got) != len(r.simulator.fundamentals.correlation)
        except Exception as e:  # noqa
            got, bad = {"raised": repr(e)[:120]}, True
        if bad and len(out) < 3:
            out.append({"rule": "log-returns-have-configured-volatility-and-correlation", "at": n,
                        "detail": {"pairwise": pairs, "table": [[sorted(k), v] for k, v in got.items()] if isinstance(got, dict) and "raised" not in got else got,
                                   "expected": [[sorted(k), v] for k, v in ref.items()], "source": "SequentialRunner._setup with fundamentalCorrelations"}})
    cfg = {"simulation": {"markets": ["A", "B"], "agents": [], "sessions": [{"sessionName": 0, "iterationSteps": 1, "withOrderPlacement": False,
                                                                               "withOrderExecution": False, "withPrint": False}],
                          "fundamentalCorrelations": {"pairwise": [["A", "B", 0.5]]}},
           "A": {"class": "Market", "tickSize": 1.0, "marketPrice": 100.0, "fundamentalVolatility": 0.01},
           "B": {"class": "Market", "tickSize": 1.0, "marketPrice": 100.0}}
    try:
        SequentialRunner(settings=cfg, prng=random.Random(0))._setup()
        if len(out) < 3:
            out.append({"rule": "log-returns-have-configured-volatility-and-correlation", "at": n,
                        "detail": {"case": "correlation configured for a market without volatility", "expected": "ValueError", "got": "accepted"}})
    except ValueError:
        pass
    if cov is not None:
        cov["correlation_table_ops"] = n
    return out


def cells_tie():
    """Market._update_market_price (C08): the mid price and the market price stored for the current time"""
    import py2coq_cells
    src = os.path.join(REPO, "pams", "market.py")
    return _run_tie("translator:pams/market.py(C08 kernel)", src, lambda: py2coq_cells.translate(REPO), "CellsGen.v", "CellsC08Proofs.v",
                    "CellsGen.")


def hooks_tie():
    """Simulator._add_event (registration) and the nine _trigger_event_* methods (dispatch) (C13)"""
    import py2coq_hooks
    src = os.path.join(REPO, "pams", "simulator.py")
    return _run_tie("translator:pams/simulator.py(C13 hook table)", src, lambda: py2coq_hooks.translate(REPO), "HooksGen.v",
                    "HooksC13Proofs.v", "HooksGen.")


def logger_tie():
    """pams.logs.base.Logger and Log.read_and_write* (C10): the pending queue and the dispatch by class"""
    import py2coq_logger
    src = os.path.join(REPO, "pams", "logs", "base.py")
    return _run_tie("translator:pams/logs/base.py(C10 logger)", src, lambda: py2coq_logger.translate(REPO), "LoggerGen.v",
                    "LoggerC10Proofs.v", "LoggerGen.")


def series_tie():
    """Market._fill_until (C06): chunked growth of the eight recorded series"""
    import py2coq_series
    src = os.path.join(REPO, "pams", "market.py")
    return _run_tie("translator:pams/market.py(C06 storage)", src, lambda: py2coq_series.translate(REPO), "SeriesGen.v", "SeriesC06Proofs.v",
                    "SeriesGen.")


def tick_tie():
    """Market._update_time (C06, C08): the clock step - expiry of both sides, room in the series, carry-over of the prices"""
    import py2coq_tick
    src = os.path.join(REPO, "pams", "market.py")
    return _run_tie("translator:pams/market.py(_update_time)", src, lambda: py2coq_tick.translate(REPO), "TickGen.v", "TickC06Proofs.v",
                    "TickGen.")


def fill_tie():
    """Market._execute_orders (C04, C08): what one fill does to the book, the step statistics and the record"""
    import py2coq_fill
    src = os.path.join(REPO, "pams", "market.py")
    return _run_tie("translator:pams/market.py(_execute_orders)", src, lambda: py2coq_fill.translate(REPO), "FillGen.v", "FillC08Proofs.v",
                    "FillGen.")


def add_tie():
    """Market._add_order (C04, C19, C08): the acceptance of one order"""
    import py2coq_add
    src = os.path.join(REPO, "pams", "market.py")
    return _run_tie("translator:pams/market.py(_add_order)", src, lambda: py2coq_add.translate(REPO), "AddGen.v", "AddC04Proofs.v", "AddGen.")


def cancel_tie():
    """Market._cancel_order (C04, C08, C10): the acceptance of one cancel"""
    import py2coq_cancel
    src = os.path.join(REPO, "pams", "market.py")
    return _run_tie("translator:pams/market.py(_cancel_order)", src, lambda: py2coq_cancel.translate(REPO), "CancelGen.v", "CancelC04Proofs.v",
                    "CancelGen.")


def expire_tie():
    """OrderBook._check_expired_orders / _set_time (C04): which orders leave the book when its clock is set"""
    import py2coq_expire
    src = os.path.join(REPO, "pams", "order_book.py")
    return _run_tie("translator:pams/order_book.py(_check_expired_orders)", src, lambda: py2coq_expire.translate(REPO), "ExpireGen.v",
                    "ExpireC04Proofs.v", "ExpireGen.")


def expiry_sweep_c04(seed=0, tier="quick", cov=None):
    """directed search used with the C04 expiry tie: a real Market with a logger; orders with every time to live are accepted over a few
    single steps, some partially filled, then the clock is set forward by one or by SEVERAL steps (Market._set_time, the entry point the
    repository's own tests use for it, and _update_time); after every clock move the property is read off directly: an order leaves the
    book exactly when the clock has passed accept time + ttl - not resting afterwards, resting before - with exactly one expiry record
    carrying its remaining volume, and accepted volume = fills + that volume"""
    import random
    import warnings
    from pams.logs.base import ExpirationLog, Logger
    from pams.market import Market
    from pams.order import LIMIT_ORDER, Order
    from pams.simulator import Simulator
    warnings.filterwarnings("ignore")
    out, n = [], 0
    rnd = random.Random(4000 + seed)

    class Rec(Logger):
        def __init__(self):
            super().__init__()
            self.seen = []

        def write(self, log):
            self.seen.append(log)

        def write_and_direct_process(self, log):
            self.seen.append(log)

    for trial in range(40 if tier == "quick" else 400):
        lg = Rec()
        sim = Simulator(prng=random.Random(trial))
        m = Market(market_id=0, prng=random.Random(trial), simulator=sim, name="m", logger=lg)
        m._update_time(next_fundamental_price=100.0)
        m._is_running = True
        orders, script = [], []
        filled = {}
        t = 0
        for step in range(rnd.randint(2, 6)):
            for _ in range(rnd.randint(0, 3)):
                ttl = rnd.choice([None, 1, 1, 2, 3, 5])
                buy = rnd.random() < 0.5
                o = Order(agent_id=1, market_id=0, is_buy=buy, kind=LIMIT_ORDER, volume=rnd.randint(1, 4),
                          price=float(rnd.choice([95, 96, 97]) if buy else rnd.choice([103, 104, 105])), ttl=ttl)
                vol0 = o.volume
                m._add_order(o)
                orders.append((o, vol0))
                script.append(["add", t, buy, o.price, vol0, ttl])
            if orders and rnd.random() < 0.3:
                o, _v = rnd.choice(orders)
                if o in (m.buy_order_book if o.is_buy else m.sell_order_book).priority_queue and o.volume > 1:
                    x = Order(agent_id=2, market_id=0, is_buy=not o.is_buy, kind=LIMIT_ORDER, volume=1, price=o.price)
                    m._add_order(x)
                    for lg_ in m._execution():
                        for oo, _ in orders:
                            if oo.order_id in (lg_.buy_order_id, lg_.sell_order_id):
                                filled[oo.order_id] = filled.get(oo.order_id, 0) + lg_.volume
                    script.append(["hit", t, o.order_id])
            jump = rnd.choice([1, 1, 2, 3, 4, 6])
            t += jump
            if jump == 1 and rnd.random() < 0.5:
                m._update_time(next_fundamental_price=100.0)
                script.append(["tick", t])
            else:
                m._set_time(time=t, next_fundamental_price=100.0)
                script.append(["set_time", t])
            n += 1
            for o, vol0 in orders:
                resting = o in (m.buy_order_book if o.is_buy else m.sell_order_book).priority_queue
                due = o.ttl is not None and o.placed_at + o.ttl < t
                recs = [x for x in lg.seen if isinstance(x, ExpirationLog) and x.order_id == o.order_id]
                gone_by_fill = filled.get(o.order_id, 0) == vol0
                bad = None
                if due and resting:
                    bad = "still resting after the clock passed accept time + ttl"
                elif due and not gone_by_fill and len(recs) != 1:
                    bad = f"{len(recs)} expiry records where exactly one is due"
                elif not due and not resting and not gone_by_fill:
                    bad = "left the book before the clock passed accept time + ttl"
                elif not due and recs:
                    bad = "expiry reported before the clock passed accept time + ttl"
                elif due and len(recs) == 1 and recs[0].volume + filled.get(o.order_id, 0) != vol0:
                    bad = "accepted volume differs from fills + volume reported at expiry"
                if bad and len(out) < 3:
                    out.append({"rule": "order-leaves-book-exactly-when-clock-passes-ttl", "at": n,
                                "detail": {"what": bad, "order": {"id": o.order_id, "accepted_at": o.placed_at, "ttl": o.ttl, "accepted_volume": vol0,
                                                                  "filled": filled.get(o.order_id, 0)},
                                           "clock": t, "script": script, "source": "clock-jump sweep on the real Market"}})
        if len(out) >= 3:
            break
    if cov is not None:
        cov["clock_moves_checked"] = n
    return out


def market_step_tie():
    """capstone over the generated Market._update_time / _add_order / _cancel_order / _execute_orders / walk of _execution: the step function assembled from
    the source's own statements is the model's step_rec, for every operation and every sequence of operations"""
    import py2coq_add
    import py2coq_cancel
    import py2coq_fill
    import py2coq_tick
    import py2coq_walk
    src = os.path.join(REPO, "pams", "market.py")
    return _run_tie("translator:pams/market.py(step function from the generated methods)", src,
                    lambda: [py2coq_tick.translate(REPO), py2coq_fill.translate(REPO), py2coq_add.translate(REPO), py2coq_cancel.translate(REPO),
                             py2coq_walk.translate(REPO)],
                    ["TickGen.v", "FillGen.v", "AddGen.v", "CancelGen.v", "WalkGen.v"], "MarketStepProofs.v", "MarketStep.",
                    pre_proofs=("TickC06Proofs.v", "FillC08Proofs.v", "AddC04Proofs.v", "CancelC04Proofs.v", "WalkC01Proofs.v"))


def book_tie():
    """the queue discipline of OrderBook.add / _remove / cancel / change_order_volume and of the put-back in Market._execution
    (C01, C02, C03): whenever they return, the queue is a heap again"""
    import py2coq_book
    src = os.path.join(REPO, "pams", "order_book.py")
    return _run_tie("translator:pams/order_book.py(queue discipline)+pams/market.py(put-back)", src, lambda: py2coq_book.translate(REPO),
                    "BookGen.v", "BookC02Proofs.v", "BookGen.")


def walk_tie():
    """the walk of a matching round (C01, C03): the statements before the loop of Market._execution and the loop body, iterated, are
    the model's Match.walk"""
    import py2coq_walk
    src = os.path.join(REPO, "pams", "market.py")
    return _run_tie("translator:pams/market.py(_execution walk)", src, lambda: py2coq_walk.translate(REPO), "WalkGen.v", "WalkC01Proofs.v",
                    "WalkGen.")


def hook_sweep_c13(seed=0, tier="quick", cov=None):
    """directed search used with the C13 tie: registrations and occurrences INTERLEAVED on a real Simulator - a hook registered after an
    occurrence at some time must be called at every later occurrence it matches, that same time included; each matching hook exactly
    once per occurrence, untimed ones first, then the timed ones, each group in registration order"""
    import random
    import types
    import warnings
    from pams.events.base import EventABC, EventHook
    from pams.simulator import Simulator
    warnings.filterwarnings("ignore")
    out, n = [], 0
    rnd = random.Random(1300 + seed)
    kinds = {  # (hook type, before) -> (trigger method, keyword, object carrying the time)
        ("execution", False): ("_trigger_event_after_execution", "execution_log", lambda t: types.SimpleNamespace(time=t)),
        ("order", False): ("_trigger_event_after_order", "order_log", lambda t: types.SimpleNamespace(time=t)),
        ("cancel", False): ("_trigger_event_after_cancel", "cancel_log", lambda t: types.SimpleNamespace(cancel_time=t, order_time=0)),
        ("session", True): ("_trigger_event_before_session", "session", lambda t: types.SimpleNamespace(session_start_time=t, iteration_steps=1)),
    }
    for trial in range(60 if tier == "quick" else 600):
        sim = Simulator(prng=random.Random(trial))
        calls = []

        class Ev(EventABC):
            def hook_registration(self):
                return []

            def hooked_after_execution(self, simulator, execution_log):
                calls.append(self.event_id)

            def hooked_after_order(self, simulator, order_log):
                calls.append(self.event_id)

            def hooked_after_cancel(self, simulator, cancel_log):
                calls.append(self.event_id)

            def hooked_before_session(self, simulator, session):
                calls.append(self.event_id)
        kind = rnd.choice(list(kinds))
        meth, kw, mk = kinds[kind]
        registered = []          # (event id, times or None) in registration order
        script = []
        for step in range(rnd.randint(3, 9)):
            if not registered or rnd.random() < 0.45:
                times = None if rnd.random() < 0.5 else sorted(set(rnd.randint(0, 3) for _ in range(rnd.randint(0, 3))))
                ev = Ev(event_id=len(registered), prng=random.Random(0), session=None, simulator=sim, name=f"e{len(registered)}")
                sim._add_event(EventHook(event=ev, hook_type=kind[0], is_before=kind[1], time=times))
                registered.append((ev.event_id, times))
                script.append(["register", ev.event_id, times])
            else:
                t = rnd.randint(0, 3)
                calls.clear()
                getattr(sim, meth)(**{kw: mk(t)})
                n += 1
                want = [i for i, ts in registered if ts is None] + [i for i, ts in registered if ts is not None and t in ts]
                script.append(["occurrence", t])
                if list(calls) != want and len(out) < 3:
                    out.append({"rule": "every-matching-hook-called-exactly-once-per-occurrence", "at": n,
                                "detail": {"hook": list(kind), "script": script, "time": t, "called": list(calls), "expected": want,
                                           "source": "interleaved registration / occurrence sweep on the real Simulator"}})
        if len(out) >= 3:
            break
    if cov is not None:
        cov["interleaved_occurrences_checked"] = n
    return out


def runner_tie():
    """the per-order block of SequentialRunner._handle_orders, both copies (C09, C11)"""
    import py2coq_runner
    src = os.path.join(REPO, "pams", "runners", "sequential.py")
    return _run_tie("translator:pams/runners/sequential.py(_handle_orders per-order block)", src, lambda: py2coq_runner.translate(REPO),
                    "RunnerGen.v", "RunnerC09Proofs.v", "RunnerGen.")


def exec_tie():
    """the three decision kernels of Market._execution (C01): stop test, fill volume, price decision"""
    import py2coq_exec
    src = os.path.join(REPO, "pams", "market.py")
    return _run_tie("translator:pams/market.py(_execution kernels)", src, lambda: py2coq_exec.translate(REPO), "ExecGen.v", "ExecC01Proofs.v",
                    "ExecGen.")


def shock_sweep_c14(seed=0, tier="quick", cov=None):
    """directed search used with the C14 tie: Market.change_fundamental_price on the real objects at every distance from the point up to
    which the fundamentals have already been generated (in particular on the last generated step), with zero drift and volatility, where
    the property says what must happen: the target's value at the shock time is scaled, every later value continues from the new level,
    every earlier value and the other market are untouched"""
    import random
    import warnings
    from fractions import Fraction
    from pams.market import Market
    from pams.simulator import Simulator
    warnings.filterwarnings("ignore")
    out, n = [], 0
    for t0 in (0, 3):                              # time of a parameter change that moves the regeneration point first
        for dist in (1, 2, 3, 50, 99, 100, 101, 102, 199, 200):
            sim = Simulator(prng=random.Random(seed))
            f = sim.fundamentals
            mk = {}
            for mid, p0 in ((0, 300.0), (1, 500.0)):
                x = Market(market_id=mid, prng=random.Random(1), simulator=sim, name=f"m{mid}")
                x.setup({"tickSize": 1.0, "marketPrice": p0})
                sim._add_market(x)
                f.add_market(market_id=mid, initial=p0, drift=0.0, volatility=0.0)
                mk[mid] = x
            sim._update_times_on_markets(sim.markets)
            t = 0
            while t < t0:
                sim._update_times_on_markets(sim.markets)
                t += 1
            if t0:
                f.change_drift(0, 0.0, time=t)
            while t < t0 + dist - 1:
                sim._update_times_on_markets(sim.markets)
                t += 1
            until = f._generated_until
            n += 1
            try:
                mk[0].change_fundamental_price(scale=1.5)
                level = 450.0
                got = []
                for k in range(1, 4):
                    sim._update_times_on_markets(sim.markets)
                    got.append((mk[0].get_fundamental_price(), mk[1].get_fundamental_price()))
                past = [f.get_fundamental_price(0, u) for u in range(0, t)]
                bad = any(Fraction(a) != Fraction(level) or Fraction(b) != 500 for a, b in got) or any(Fraction(v) != 300 for v in past)
            except Exception as e:  # noqa
                got, bad = repr(e)[:120], True
            if bad and len(out) < 3:
                out.append({"rule": "fundamental-shock-exactly-in-window-on-target", "at": n,
                            "detail": {"shock_time": t, "generated_until_before": until, "scale": 1.5, "expected_level_after": 450.0,
                                       "next_three_steps_(target, other)": got,
                                       "source": "direct calls of Market.change_fundamental_price, zero drift and volatility"}})
    if cov is not None:
        cov["change_fundamental_price_direct_calls"] = n
    return out


def holdings_sweep_c05(seed=0, tier="quick", cov=None):
    """directed search used with the C05 tie: the real Simulator._update_agents_for_execution on small populations and fill lists
    (self-trades, repeated parties, several markets), against the property text: the buyer pays price x volume and receives volume
    shares, the seller the opposite, nobody else changes; totals are conserved"""
    import random
    from pams.agents import Agent
    from pams.logs.base import ExecutionLog, Logger
    from pams.simulator import Simulator
    out, n = [], 0
    rnd = random.Random(1000 + seed)

    class A(Agent):
        def submit_orders(self, markets):
            return []
    for trial in range(40 if tier == "quick" else 400):
        sim = Simulator(prng=random.Random(trial))
        na, nm = rnd.randint(1, 4), rnd.randint(1, 3)
        for i in range(na):
            a = A(agent_id=i, prng=random.Random(i), simulator=sim, name=f"a{i}", logger=Logger())
            a.cash_amount = float(rnd.randint(0, 4000)) / 4
            a.asset_volumes = {m: rnd.randint(-5, 50) for m in range(nm)}
            sim._add_agent(a)
        logs = [ExecutionLog(market_id=rnd.randrange(nm), time=rnd.randint(0, 9), buy_agent_id=rnd.randrange(na),
                             sell_agent_id=rnd.randrange(na), buy_order_id=2 * k, sell_order_id=2 * k + 1,
                             price=float(rnd.randint(1, 800)) / 4, volume=rnd.randint(1, 9)) for k in range(rnd.randint(0, 5))]
        exp_cash = {i: sim.id2agent[i].cash_amount for i in range(na)}
        exp_vol = {i: dict(sim.id2agent[i].asset_volumes) for i in range(na)}
        for lg in logs:
            exp_cash[lg.buy_agent_id] -= lg.price * lg.volume
            exp_cash[lg.sell_agent_id] += lg.price * lg.volume
            exp_vol[lg.buy_agent_id][lg.market_id] += lg.volume
            exp_vol[lg.sell_agent_id][lg.market_id] -= lg.volume
        n += 1
        try:
            sim._update_agents_for_execution(logs)
            got_cash = {i: sim.id2agent[i].cash_amount for i in range(na)}
            got_vol = {i: dict(sim.id2agent[i].asset_volumes) for i in range(na)}
        except Exception as e:  # noqa
            got_cash, got_vol = {"raised": repr(e)[:120]}, None
        if (got_cash, got_vol) != (exp_cash, exp_vol) and len(out) < 3:
            out.append({"rule": "holdings-equal-endowment-plus-fills", "at": n,
                        "detail": {"fills": [[lg.market_id, lg.buy_agent_id, lg.sell_agent_id, lg.price, lg.volume] for lg in logs],
                                   "expected": [exp_cash, exp_vol], "got": [got_cash, got_vol],
                                   "source": "direct calls of Simulator._update_agents_for_execution"}})
    if cov is not None:
        cov["update_agents_direct_calls"] = n
    return out


# ---------------------------------------------------------------------------------------------------------------
# directed search for a concrete failing input: the real operators on every pair / triple of a small domain,
# against the ranking as the property states it (market orders first, better price, earlier time, lower id)
def _ref_lt(a, b):
    """a has priority over b (property text of C02)"""
    am, bm = a.price is None, b.price is None
    if am != bm:
        return am
    if not am and a.price != b.price:
        return a.price > b.price if a.is_buy else a.price < b.price
    if a.placed_at != b.placed_at:
        return a.placed_at < b.placed_at
    return a.order_id < b.order_id


def _mk(side, price, placed, oid, ttl=None):
    from pams.order import Order, LIMIT_ORDER, MARKET_ORDER
    return Order(agent_id=oid % 3, market_id=0, is_buy=side, kind=MARKET_ORDER if price is None else LIMIT_ORDER,
                 volume=1 + oid % 2, placed_at=placed, price=price, order_id=oid, ttl=ttl)


def _desc(o):
    return {"is_buy": o.is_buy, "price": o.price, "placed_at": o.placed_at, "order_id": o.order_id, "ttl": o.ttl}


def order_sweep_c02(seed=0, tier="quick", cov=None):
    out = []
    # prices of several magnitudes, including neighbours that differ only far behind the decimal point
    prices = (None, 99.5, 100.0, 100.5, 5e9, 5e9 + 1.0, 30000.0, 30000.00001, 1e-7, 1.0000001e-7)
    dom = [(p, t, i) for p in prices for t in (0, 1, 2) for i in (0, 1, 2, 3)]
    n = 0
    for side in (True, False):
        orders = [_mk(side, p, t, i) for p, t, i in dom]
        for a, b in itertools.product(orders, orders):
            if a.order_id == b.order_id and (a.price, a.placed_at) != (b.price, b.placed_at):
                continue          # two different orders never share an id
            n += 1
            same = a.order_id == b.order_id
            exp = {"lt": (not same) and _ref_lt(a, b), "gt": (not same) and _ref_lt(b, a), "eq": same}
            exp.update(le=exp["lt"] or same, ge=exp["gt"] or same, ne=not same)
            try:
                got = {"lt": a < b, "gt": a > b, "eq": a == b, "le": a <= b, "ge": a >= b, "ne": a != b}
            except Exception as e:  # noqa
                got = {"raised": repr(e)[:120]}
            if got != exp and len(out) < 3:
                out.append({"rule": "comparison-agrees-with-ranking", "at": n,
                            "detail": {"a": _desc(a), "b": _desc(b), "expected": exp, "got": got, "source": "small-domain sweep"}})
    # mixed sides must be refused
    a, b = _mk(True, 100.0, 1, 1), _mk(False, 100.0, 1, 2)
    for name, f in (("lt", lambda: a < b), ("gt", lambda: a > b), ("eq", lambda: a == b)):
        try:
            v = f()
            out.append({"rule": "comparison-agrees-with-ranking", "at": n,
                        "detail": {"a": _desc(a), "b": _desc(b), "operator": name, "expected": "ValueError", "got": v}})
        except ValueError:
            pass
        except Exception as e:  # noqa
            out.append({"rule": "comparison-agrees-with-ranking", "at": n,
                        "detail": {"a": _desc(a), "b": _desc(b), "operator": name, "expected": "ValueError", "got": repr(e)[:120]}})
    if cov is not None:
        cov["order_sweep_pairs"] = n
    return out[:3]


def order_sweep_c04(seed=0, tier="quick", cov=None):
    out = []
    n = 0
    for placed in (0, 1, 5):
        for ttl in (None, 1, 2, 7):
            o = _mk(True, 100.0, placed, 1, ttl)
            for t in range(0, 16):
                n += 1
                exp = ttl is not None and placed + ttl < t
                try:
                    got = o.is_expired(t)
                except Exception as e:  # noqa
                    got = repr(e)[:120]
                if got != exp and len(out) < 3:
                    out.append({"rule": "expired-exactly-after-accept-time-plus-ttl", "at": n,
                                "detail": {"order": _desc(o), "time": t, "expected": exp, "got": got}})
    if cov is not None:
        cov["is_expired_sweep_points"] = n
    return out
