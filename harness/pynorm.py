"""Meaning-preserving normalisation of a method body before translation (used by py2coq_tick / _fill / _add / _cancel), so that the usual
harmless rewrites do not make a translator fail closed.  Each step is a textbook equivalence of Python statements, applied only where its
side condition can be checked syntactically; anything else is left alone (and the translator then decides - still fail-closed).

  1. a call statement `self.h(a1, .., k=ak)` to a plain method h of the same class whose body contains no `return <value>`, no `yield`
     and whose only `return`s end the body or a guard clause, is replaced by h's body with the parameters substituted - the arguments must
     be side-effect-free expressions (names, attribute chains, constants, `self.time`-arithmetic; a list display of such expressions only
     for a parameter that h reads exactly once, as the iterable of a `for` - step 2 then unrolls that loop);
  1b. a call `self.h(..)` inside an expression, h's body being a single `return <constructor call>` or a chain of guard returns of
      side-effect-free values (`if c: return A` .. `return B`, read as `A if c else B`), is replaced by that expression;
  1c. `for x in self.h(..):` / `y = self.h(..)` / `return self.h(..)` (an argument may be a one-parameter lambda, applied by
      substitution where h calls it), h straight-line code ending in its only `return <expr>` whose locals do not occur in the
      caller: h's statements are spliced in front and the call replaced by the returned expression;
  2. `for v in (e1, .., en):` over a tuple / list literal of side-effect-free expressions is unrolled;
  3. a guard clause `if c: A; return` followed by R (in a method that returns nothing) becomes `if c: A  else: R`;
  3b. `if not c: pass else: B` is `if c: B`; at the head of a loop body `if not c: continue` followed by R is `if c: R`;
  4. a local bound ONCE to a side-effect-free expression whose ingredients are not re-bound afterwards (`order = cancel.order`,
     `previous_time = self.time - 1`, `book = (self.buy_order_book if order.is_buy else self.sell_order_book)`) is substituted away;
  4b. a local bound to a comparison or a subscript and read only by the statement that immediately follows is moved into it;
  4c. a local bound once to `d[k]` (side-effect-free d, k; neither d[k], d nor their ingredients stored to afterwards) is replaced by `d[k]`;
  5b. `if c: x = A  else: x = B` becomes `x = A if c else B`;
  5c. `d[A if c else B] = v` / `f(A if c else B)` as statements, all ingredients side-effect-free, become an `if`;
  5. `(A if c else B)[i] op= e`  becomes  `if c: A[i] op= e  else: B[i] op= e`  (c side-effect-free);
  6. `if not c: A  else: B` (B non-empty) becomes `if c: B  else: A` (`else: pass` dropped); `a not in b` counts as `not (a in b)`;
  7. `T = T + k` / `T = T - k`, T a side-effect-free target read and written as the same text, k a numeric constant, becomes `T += k` /
     `T -= k` (with a numeric constant on the right the two spellings agree for every type of T, error included)."""
import ast
import copy


def _nodoc(body):
    return [s for s in body if not (isinstance(s, ast.Expr) and isinstance(s.value, ast.Constant) and isinstance(s.value.value, str))]


def pure(e):
    if isinstance(e, (ast.Name, ast.Constant)):
        return True
    if isinstance(e, ast.Attribute):
        return pure(e.value)
    if isinstance(e, ast.BinOp) and isinstance(e.op, (ast.Add, ast.Sub)):
        return pure(e.left) and pure(e.right)
    if isinstance(e, ast.IfExp):
        return testpure(e.test) and pure(e.body) and pure(e.orelse)
    if isinstance(e, ast.Tuple):
        return all(pure(x) for x in e.elts)
    return False


def testpure(e):
    """a condition without side effects: side-effect-free operands under comparisons (membership in a dict or list included), not / and / or"""
    if pure(e):
        return True
    if isinstance(e, ast.Compare):
        return all(pure(x) for x in [e.left] + list(e.comparators))
    if isinstance(e, ast.UnaryOp) and isinstance(e.op, ast.Not):
        return testpure(e.operand)
    if isinstance(e, ast.BoolOp):
        return all(testpure(v) for v in e.values)
    return False


class _Subst(ast.NodeTransformer):
    def __init__(self, m):
        self.m = m

    def visit_Name(self, node):
        if node.id in self.m and isinstance(node.ctx, ast.Load):
            return copy.deepcopy(self.m[node.id])
        return node


def subst(stmts, m):
    return [ast.fix_missing_locations(_Subst(m).visit(copy.deepcopy(s))) for s in stmts]


def _returns_ok(body, top=True):
    """only bare returns, each the last statement of the body or of a guard clause directly in the body"""
    for i, s in enumerate(body):
        for n in ast.walk(s):
            if isinstance(n, (ast.Yield, ast.YieldFrom)):
                return False
            if isinstance(n, ast.Return) and n.value is not None:
                return False
        if isinstance(s, ast.Return):
            if i != len(body) - 1:
                return False
        elif isinstance(s, ast.If):
            if not _returns_ok(s.body, False) or not _returns_ok(s.orelse, False):
                return False
        elif any(isinstance(n, ast.Return) for n in ast.walk(s)):
            return False
    return True


def inline_helpers(body, cls, depth=0):
    out = []
    for s in body:
        done = False
        if (depth < 3 and isinstance(s, ast.Expr) and isinstance(s.value, ast.Call) and isinstance(s.value.func, ast.Attribute)
                and isinstance(s.value.func.value, ast.Name) and s.value.func.value.id == "self"):
            hs = [n for n in cls.body if isinstance(n, ast.FunctionDef) and n.name == s.value.func.attr and not n.decorator_list]
            c = s.value
            def _disp(e):
                return isinstance(e, ast.List) and all(pure(x) for x in e.elts)
            if len(hs) == 1 and all(pure(a) or _disp(a) for a in c.args) and all(k.arg and (pure(k.value) or _disp(k.value)) for k in c.keywords):
                h = hs[0]
                a = h.args
                params = [x.arg for x in a.args][1:]
                hb = _nodoc(h.body)
                # a list display as an argument: only for a parameter the helper reads exactly once, as the iterable of a `for`
                bound = dict(zip(params, c.args))
                bound.update({k.arg: k.value for k in c.keywords})
                iters = [n.iter.id for q in hb for n in ast.walk(q) if isinstance(n, ast.For) and isinstance(n.iter, ast.Name)]
                reads = [n.id for q in hb for n in ast.walk(q) if isinstance(n, ast.Name)]
                if any(_disp(v) and not (reads.count(pn) == 1 and iters.count(pn) == 1) for pn, v in bound.items()):
                    hs = []
            if len(hs) == 1 and all(pure(a) or _disp(a) for a in c.args) and all(k.arg and (pure(k.value) or _disp(k.value)) for k in c.keywords):
                assigned = {n.id for q in hb for n in ast.walk(q) if isinstance(n, ast.Name) and isinstance(n.ctx, ast.Store)}
                if (not (a.vararg or a.kwarg or a.kwonlyargs or a.defaults) and len(c.args) <= len(params) and _returns_ok(hb)
                        and not (assigned & set(params))):
                    m = dict(zip(params, c.args))
                    for k in c.keywords:
                        m[k.arg] = k.value
                    if sorted(m) == sorted(params) and h.name not in ("_update_market_price", "_fill_until"):
                        out += inline_helpers(subst(hb, m), cls, depth + 1)
                        done = True
        if not done:
            if isinstance(s, (ast.If, ast.For)):
                s = copy.deepcopy(s)
                s.body = inline_helpers(s.body, cls, depth)
                s.orelse = inline_helpers(s.orelse, cls, depth)
            out.append(s)
    return out


class _InlineExpr(ast.NodeTransformer):
    """step 1b: a call `self.h(..)` in expression position, h a plain method whose body is a single `return <expr>`, with
    side-effect-free arguments, is replaced by that expression with the parameters substituted"""
    def __init__(self, cls):
        self.cls = cls

    def visit_Call(self, node):
        self.generic_visit(node)
        f = node.func
        if isinstance(f, ast.Attribute) and isinstance(f.value, ast.Name) and f.value.id == "self":
            hs = [n for n in self.cls.body if isinstance(n, ast.FunctionDef) and n.name == f.attr and not n.decorator_list]
            if len(hs) == 1:
                h = hs[0]
                hb = _nodoc(h.body)
                a = h.args
                params = [x.arg for x in a.args][1:]
                # leading locals bound once to side-effect-free expressions (`reversed_key = (b, a)`) are substituted away, provided
                # nothing else is stored to in the helper
                lead = []
                while (hb and isinstance(hb[0], (ast.Assign, ast.AnnAssign)) and hb[0].value is not None and pure(hb[0].value)
                       and isinstance(hb[0].targets[0] if isinstance(hb[0], ast.Assign) and len(hb[0].targets) == 1 else getattr(hb[0], "target", None), ast.Name)):
                    t0 = hb[0].targets[0] if isinstance(hb[0], ast.Assign) else hb[0].target
                    lead.append(t0.id)
                    hb = subst(hb[1:], {t0.id: hb[0].value})
                stores = [n.id for q in hb for n in ast.walk(q) if isinstance(n, ast.Name) and isinstance(n.ctx, ast.Store)]
                if lead and (stores or len(set(lead)) != len(lead) or set(lead) & set(params)):
                    return node
                ok_sig = (not (a.vararg or a.kwarg or a.kwonlyargs or a.defaults) and len(node.args) <= len(params)
                          and all(pure(x) for x in node.args) and all(k.arg and pure(k.value) for k in node.keywords))
                m = dict(zip(params, node.args))
                for k in node.keywords:
                    m[k.arg] = k.value
                if (len(hb) == 1 and isinstance(hb[0], ast.Return) and hb[0].value is not None and isinstance(hb[0].value, ast.Call)
                        and ok_sig and sorted(m) == sorted(params)):
                    return _Subst(m).visit(copy.deepcopy(hb[0].value))
                # a chain of guard returns of side-effect-free values: `if c1: return A1 ... return B` is `A1 if c1 else ... B`
                chain = hb[:-1]
                if (ok_sig and sorted(m) == sorted(params) and len(hb) >= 2 and isinstance(hb[-1], ast.Return) and hb[-1].value is not None
                        and pure(hb[-1].value)
                        and all(isinstance(q, ast.If) and not q.orelse and len(q.body) == 1 and isinstance(q.body[0], ast.Return)
                                and q.body[0].value is not None and pure(q.body[0].value) and testpure(q.test) for q in chain)):
                    e = copy.deepcopy(hb[-1].value)
                    for q in reversed(chain):
                        e = ast.IfExp(test=copy.deepcopy(q.test), body=copy.deepcopy(q.body[0].value), orelse=e)
                    return _Subst(m).visit(e)
        return node


def inline_exprs(body, cls):
    return [ast.fix_missing_locations(_InlineExpr(cls).visit(copy.deepcopy(s))) for s in body]


def _lam(e):
    """a lambda of one parameter whose body reads only that parameter and side-effect-free outer values through calls of the form
    `x.method(k=v)` - a getter handed to a helper"""
    return (isinstance(e, ast.Lambda) and len(e.args.args) == 1 and not (e.args.vararg or e.args.kwarg or e.args.kwonlyargs or e.args.defaults))


class _Beta(ast.NodeTransformer):
    def visit_Call(self, node):
        self.generic_visit(node)
        f = node.func
        if isinstance(f, ast.Lambda) and len(f.args.args) == 1 and len(node.args) == 1 and not node.keywords and pure(node.args[0]):
            return _Subst({f.args.args[0].arg: node.args[0]}).visit(copy.deepcopy(f.body))
        return node


def _beta(stmt):
    return ast.fix_missing_locations(_Beta().visit(stmt))


def inline_value_helpers(body, cls, caller_names=None):
    """step 1c: `for x in self.h(..):` / `y = self.h(..)` where h is a plain method whose body is straight-line code ending in its only
    `return <expr>`, with side-effect-free arguments and locals that do not occur in the caller: h's statements are spliced in front and
    the call is replaced by the returned expression"""
    if caller_names is None:
        lam_params = {a.arg for q in body for n in ast.walk(q) if isinstance(n, ast.Lambda) for a in n.args.args}
        caller_names = {n.id for q in body for n in ast.walk(q) if isinstance(n, ast.Name)} - lam_params
    out = []
    for s in body:
        call = None
        if isinstance(s, ast.For) and isinstance(s.iter, ast.Call):
            call = s.iter
        elif isinstance(s, (ast.Assign, ast.AnnAssign, ast.Return)) and isinstance(getattr(s, "value", None), ast.Call):
            call = s.value
        done = False
        if call is not None and isinstance(call.func, ast.Attribute) and isinstance(call.func.value, ast.Name) and call.func.value.id == "self":
            hs = [n for n in cls.body if isinstance(n, ast.FunctionDef) and n.name == call.func.attr and not n.decorator_list]
            if len(hs) == 1 and all(pure(a) or _lam(a) for a in call.args) and all(k.arg and (pure(k.value) or _lam(k.value)) for k in call.keywords):
                h = hs[0]
                a = h.args
                params = [x.arg for x in a.args][1:]
                hb = _nodoc(h.body)
                rets = [n for q in hb for n in ast.walk(q) if isinstance(n, ast.Return)]
                locs = {n.id for q in hb for n in ast.walk(q) if isinstance(n, ast.Name) and isinstance(n.ctx, ast.Store)}
                if (len(hb) >= 2 and len(rets) == 1 and rets[0] is hb[-1] and hb[-1].value is not None
                        and not any(isinstance(n, (ast.Yield, ast.YieldFrom)) for q in hb for n in ast.walk(q))
                        and not (a.vararg or a.kwarg or a.kwonlyargs or a.defaults) and len(call.args) <= len(params)
                        and not (locs & (caller_names | set(params)))):
                    m = dict(zip(params, call.args))
                    for k in call.keywords:
                        m[k.arg] = k.value
                    if sorted(m) == sorted(params):
                        out += [_beta(q) for q in subst(hb[:-1], m)]
                        ret = _beta(subst([ast.Expr(value=hb[-1].value)], m)[0]).value
                        q = copy.deepcopy(s)
                        if isinstance(q, ast.For):
                            q.iter = ret
                            q.body = inline_value_helpers(q.body, cls, caller_names)
                        else:
                            q.value = ret
                        out.append(ast.fix_missing_locations(q))
                        done = True
        if not done:
            if isinstance(s, (ast.If, ast.For)):
                s = copy.deepcopy(s)
                s.body = inline_value_helpers(s.body, cls, caller_names)
                s.orelse = inline_value_helpers(s.orelse, cls, caller_names)
            out.append(s)
    return out


def unroll(body):
    out = []
    for s in body:
        if (isinstance(s, ast.For) and isinstance(s.target, ast.Name) and isinstance(s.iter, (ast.Tuple, ast.List)) and not s.orelse
                and all(pure(e) for e in s.iter.elts) and not any(isinstance(n, (ast.Break, ast.Continue)) for n in ast.walk(s))):
            for e in s.iter.elts:
                out += unroll(subst(s.body, {s.target.id: e}))
            continue
        if isinstance(s, (ast.If, ast.For)):
            s = copy.deepcopy(s)
            s.body = unroll(s.body)
            s.orelse = unroll(s.orelse)
        out.append(s)
    return out


def guards(body):
    """step 3, for a body whose value is not used (the method returns None)"""
    out = []
    for i, s in enumerate(body):
        if isinstance(s, ast.If):
            s = copy.deepcopy(s)
            rest = body[i + 1:]
            if s.body and isinstance(s.body[-1], ast.Return) and s.body[-1].value is None and not s.orelse and rest:
                s.body = guards(s.body[:-1]) or [ast.Pass()]
                s.orelse = guards(rest)
                out.append(s)
                return out
            s.body = guards(s.body)
            s.orelse = guards(s.orelse)
        elif isinstance(s, ast.Return) and s.value is None and i == len(body) - 1:
            continue
        out.append(s)
    return out


def _neg(e):
    """the condition whose negation is e, when e is written `not <c>`"""
    return e.operand if isinstance(e, ast.UnaryOp) and isinstance(e.op, ast.Not) else None


def flips(body, in_loop=False):
    """step 3b: `if not c: pass  else: B` is `if c: B`; at the head of a loop body, `if not c: continue` followed by R is `if c: R`
    (`if c2: continue` with c2 not a negation becomes `if c2: pass else: R` only when R is non-empty - left alone here)"""
    out = []
    for i, s in enumerate(body):
        if isinstance(s, ast.If):
            s = copy.deepcopy(s)
            rest = body[i + 1:]
            if (in_loop and _neg(s.test) is not None and not s.orelse and len(s.body) == 1 and isinstance(s.body[0], ast.Continue) and rest):
                s.test = _neg(s.test)
                s.body = flips(rest, in_loop)
                out.append(s)
                return out
            s.body = flips(s.body, in_loop)
            s.orelse = flips(s.orelse, in_loop)
            if _neg(s.test) is not None and s.orelse and all(isinstance(q, ast.Pass) for q in s.body):
                s.test = _neg(s.test)
                s.body, s.orelse = s.orelse, []
        elif isinstance(s, ast.For):
            s = copy.deepcopy(s)
            s.body = flips(s.body, True)
        out.append(s)
    return out


def _targets(s):
    if isinstance(s, ast.Assign):
        return s.targets
    if isinstance(s, (ast.AugAssign, ast.AnnAssign)):
        return [s.target]
    return []


def _ordered(stmts):
    for s in stmts:
        yield s
        if isinstance(s, (ast.If, ast.For, ast.While)):
            yield from _ordered(s.body)
            yield from _ordered(s.orelse)


def aliases(body, keep=()):
    """step 4 (recursing into if-branches with the same map); statements are taken in source order"""
    order = list(_ordered(body))
    count = {}
    for n in order:
        for t in _targets(n):
            if isinstance(t, ast.Name):
                count[t.id] = count.get(t.id, 0) + 1
    loopvars = {n.target.id for n in order if isinstance(n, ast.For) and isinstance(n.target, ast.Name)}
    in_loop = {id(q) for n in order if isinstance(n, (ast.For, ast.While)) for q in _ordered(n.body)}
    pos = {id(n): k for k, n in enumerate(order)}

    def stored_after(k):
        return {ast.unparse(t) for n in order[k + 1:] for t in _targets(n)}

    def go(stmts, m):
        out = []
        for s0 in stmts:
            s = subst([s0], m)[0] if m else s0
            if (isinstance(s, (ast.Assign, ast.AnnAssign)) and getattr(s, "value", None) is not None and len(_targets(s)) == 1
                    and isinstance(_targets(s)[0], ast.Name)):
                x = _targets(s)[0].id
                if x not in keep and x not in loopvars and count.get(x) == 1 and pure(s.value) and not isinstance(s.value, ast.Constant):
                    parts = {ast.unparse(n) for n in ast.walk(s.value) if isinstance(n, (ast.Name, ast.Attribute))}
                    later = stored_after(-1) if id(s0) in in_loop else stored_after(pos[id(s0)])
                    if not (parts & later):
                        m = dict(m)
                        m[x] = s.value
                        continue
            if isinstance(s0, ast.If):
                s = copy.deepcopy(s)
                s.body = go(s0.body, m)
                s.orelse = go(s0.orelse, m)
            elif isinstance(s0, ast.For):
                s = copy.deepcopy(s)
                s.body = go(s0.body, m)
            out.append(s)
        return out
    return go(body, {})


def _uses(node, name):
    return sum(1 for n in ast.walk(node) if isinstance(n, ast.Name) and n.id == name and isinstance(n.ctx, ast.Load))


def _simple(e):
    """a comparison or a subscript of side-effect-free parts: its value may depend on mutable state, so it is only moved into the
    statement that immediately follows"""
    if isinstance(e, ast.Compare):
        return all(pure(x) or _simple(x) for x in [e.left] + list(e.comparators))
    if isinstance(e, ast.Subscript):
        return (pure(e.value) or (isinstance(e.value, ast.Subscript) and _simple(e.value))) and (pure(e.slice) or isinstance(e.slice, ast.Constant))
    return False


def next_use(body):
    """step 4b: `x = <comparison or subscript>` immediately followed by the only statement that reads x (in its own expression or, for
    an `if`, in its test) and never re-bound: substituted there"""
    out, i = [], 0
    while i < len(body):
        s = body[i]
        if (isinstance(s, (ast.Assign, ast.AnnAssign)) and getattr(s, "value", None) is not None and len(_targets(s)) == 1
                and isinstance(_targets(s)[0], ast.Name) and _simple(s.value) and i + 1 < len(body)):
            x = _targets(s)[0].id
            nxt = body[i + 1]
            head = nxt.test if isinstance(nxt, ast.If) else nxt
            everywhere = sum(_uses(q, x) for q in body[i + 1:])
            stores = sum(1 for q in body for n in ast.walk(q) if isinstance(n, ast.Name) and n.id == x and isinstance(n.ctx, ast.Store))
            if not isinstance(nxt, (ast.For, ast.While)) and _uses(head, x) == 1 and everywhere == 1 and stores == 1:
                if isinstance(nxt, ast.If):
                    q = copy.deepcopy(nxt)
                    q.test = _Subst({x: s.value}).visit(q.test)
                    q.body = next_use(q.body)
                    q.orelse = next_use(q.orelse)
                else:
                    q = _Subst({x: s.value}).visit(copy.deepcopy(nxt))
                out.append(ast.fix_missing_locations(q))
                i += 2
                continue
        if isinstance(s, (ast.If, ast.For)):
            s = copy.deepcopy(s)
            s.body = next_use(s.body)
            s.orelse = next_use(s.orelse)
        out.append(s)
        i += 1
    return out


def merge_branches(body):
    """step 5b: `if c: x = A  else: x = B` (x a plain name, both branches exactly that one assignment) becomes `x = A if c else B`;
    a preceding bare declaration `x: T` is dropped"""
    out = []
    for s in body:
        if (isinstance(s, ast.If) and len(s.body) == 1 and len(s.orelse) == 1 and pure(s.test) or
                (isinstance(s, ast.If) and len(s.body) == 1 and len(s.orelse) == 1 and isinstance(s.test, ast.Compare) and _simple(s.test))):
            a, b = s.body[0], s.orelse[0]
            if (isinstance(a, ast.Assign) and isinstance(b, ast.Assign) and len(a.targets) == 1 and len(b.targets) == 1
                    and isinstance(a.targets[0], ast.Name) and isinstance(b.targets[0], ast.Name) and a.targets[0].id == b.targets[0].id):
                x = a.targets[0].id
                if out and isinstance(out[-1], ast.AnnAssign) and out[-1].value is None and isinstance(out[-1].target, ast.Name) and out[-1].target.id == x:
                    out.pop()
                out.append(ast.fix_missing_locations(ast.Assign(targets=[ast.Name(id=x, ctx=ast.Store())],
                                                                value=ast.IfExp(test=copy.deepcopy(s.test), body=copy.deepcopy(a.value),
                                                                                orelse=copy.deepcopy(b.value)), lineno=s.lineno)))
                continue
        if isinstance(s, (ast.If, ast.For)):
            s = copy.deepcopy(s)
            s.body = merge_branches(s.body)
            s.orelse = merge_branches(s.orelse)
        out.append(s)
    return out


def ref_aliases(body):
    """step 4c: `x = d[k]` (d, k side-effect-free; x bound once; afterwards - in source order, and anywhere if inside a loop - no
    statement stores to `d[k]`, to `d`, or to an ingredient of d or k): the later uses of x are replaced by `d[k]` - the same object,
    so stores THROUGH x (`x[j] = v`, `x.append(v)`) act on it all the same"""
    order = list(_ordered(body))
    count = {}
    for n in order:
        for t in _targets(n):
            if isinstance(t, ast.Name):
                count[t.id] = count.get(t.id, 0) + 1
        if isinstance(n, ast.For) and isinstance(n.target, ast.Name):
            count[n.target.id] = count.get(n.target.id, 0) + 1
    pos = {id(n): k for k, n in enumerate(order)}
    in_loop = {id(q): n for n in order if isinstance(n, (ast.For, ast.While)) for q in _ordered(n.body)}

    def go(stmts, m):
        out = []
        for s0 in stmts:
            s = subst([s0], m)[0] if m else s0
            if (isinstance(s, (ast.Assign, ast.AnnAssign)) and getattr(s, "value", None) is not None and len(_targets(s)) == 1
                    and isinstance(_targets(s)[0], ast.Name) and isinstance(s.value, ast.Subscript) and _simple(s.value)):
                x = _targets(s)[0].id
                e = ast.unparse(s.value)
                parts = {ast.unparse(n) for n in ast.walk(s.value) if isinstance(n, (ast.Name, ast.Attribute, ast.Subscript))}
                if id(s0) in in_loop:
                    loop = in_loop[id(s0)]
                    scope = [q for q in _ordered(loop.body) if pos[id(q)] > pos[id(s0)]]
                    # a later iteration re-evaluates the alias itself, so only stores AFTER it within the body matter, plus the loop variable
                    later = {ast.unparse(t) for q in scope for t in _targets(q)}
                else:
                    later = {ast.unparse(t) for q in order[pos[id(s0)] + 1:] for t in _targets(q)}
                later = {t.replace(x, e) if t.startswith(x + "[") or t == x else t for t in later}
                if count.get(x) == 1 and not (parts & later):
                    m = dict(m)
                    m[x] = s.value
                    continue
            if isinstance(s0, ast.If):
                s = copy.deepcopy(s)
                s.body = go(s0.body, m)
                s.orelse = go(s0.orelse, m)
            elif isinstance(s0, ast.For):
                s = copy.deepcopy(s)
                s.body = go(s0.body, m)
            out.append(s)
        return out
    return go(body, {})


def split_ifexp(body):
    """step 5c: `d[A if c else B] = v` and `f(A if c else B)` as a statement, with c a side-effect-free condition and every other
    ingredient side-effect-free, become `if c: <stmt with A> else: <stmt with B>`"""
    out = []
    for s in body:
        site = None
        if isinstance(s, ast.Assign) and len(s.targets) == 1 and isinstance(s.targets[0], ast.Subscript) \
                and isinstance(s.targets[0].slice, ast.IfExp) and pure(s.targets[0].value) and pure(s.value):
            site = ("slice", s.targets[0].slice)
        elif isinstance(s, ast.Expr) and isinstance(s.value, ast.Call) and len(s.value.args) == 1 and not s.value.keywords \
                and isinstance(s.value.args[0], ast.IfExp) and pure(s.value.func):
            site = ("arg", s.value.args[0])
        if site and testpure(site[1].test) and pure(site[1].body) and pure(site[1].orelse):
            def arm(v):
                q = copy.deepcopy(s)
                if site[0] == "slice":
                    q.targets[0].slice = copy.deepcopy(v)
                else:
                    q.value.args[0] = copy.deepcopy(v)
                return q
            out.append(ast.fix_missing_locations(ast.If(test=copy.deepcopy(site[1].test), body=[arm(site[1].body)], orelse=[arm(site[1].orelse)])))
            continue
        if isinstance(s, (ast.If, ast.For)):
            s = copy.deepcopy(s)
            s.body = split_ifexp(s.body)
            s.orelse = split_ifexp(s.orelse)
        out.append(s)
    return out


def split_cells(body):
    out = []
    for s in body:
        t = s.target if isinstance(s, ast.AugAssign) else (s.targets[0] if isinstance(s, ast.Assign) and len(s.targets) == 1 else None)
        if isinstance(t, ast.Subscript) and isinstance(t.value, ast.IfExp) and pure(t.value.test):
            def arm(v):
                q = copy.deepcopy(s)
                tt = q.target if isinstance(q, ast.AugAssign) else q.targets[0]
                tt.value = copy.deepcopy(v)
                return q
            out.append(ast.fix_missing_locations(ast.If(test=copy.deepcopy(t.value.test), body=[arm(t.value.body)], orelse=[arm(t.value.orelse)])))
            continue
        if isinstance(s, (ast.If, ast.For)):
            s = copy.deepcopy(s)
            s.body = split_cells(s.body)
            s.orelse = split_cells(s.orelse)
        out.append(s)
    return out


def _neg2(e):
    """the condition whose negation is e: `not <c>`, or `a not in b` (by definition the negation of `a in b`)"""
    if isinstance(e, ast.Compare) and len(e.ops) == 1 and isinstance(e.ops[0], ast.NotIn):
        return ast.Compare(left=copy.deepcopy(e.left), ops=[ast.In()], comparators=copy.deepcopy(e.comparators))
    return _neg(e)


def unnegate(body):
    """step 6"""
    out = []
    for s in body:
        if isinstance(s, (ast.If, ast.For)):
            s = copy.deepcopy(s)
            s.body = unnegate(s.body)
            s.orelse = unnegate(s.orelse)
            if isinstance(s, ast.If) and _neg2(s.test) is not None and s.body and [q for q in s.orelse if not isinstance(q, ast.Pass)]:
                s.test = _neg2(s.test)
                s.body, s.orelse = s.orelse, ([] if all(isinstance(q, ast.Pass) for q in s.body) else s.body)
        out.append(s)
    return out


def augment(body):
    """step 7"""
    out = []
    for s in body:
        if isinstance(s, (ast.If, ast.For)):
            s = copy.deepcopy(s)
            s.body = augment(s.body)
            s.orelse = augment(s.orelse)
        elif (isinstance(s, ast.Assign) and len(s.targets) == 1 and isinstance(s.targets[0], (ast.Name, ast.Attribute, ast.Subscript))
              and isinstance(s.value, ast.BinOp) and isinstance(s.value.op, (ast.Add, ast.Sub))
              and isinstance(s.value.right, ast.Constant) and type(s.value.right.value) in (int, float)
              and ast.unparse(s.value.left) == ast.unparse(s.targets[0]) and pure(s.value.left)):
            s = ast.AugAssign(target=copy.deepcopy(s.targets[0]), op=copy.deepcopy(s.value.op), value=copy.deepcopy(s.value.right))
        out.append(s)
    return out


def normalise(fn, cls, returns_none, keep=(), only_inlining=False):
    body = _nodoc(fn.body)
    body = inline_helpers(body, cls)
    body = inline_exprs(body, cls)
    body = inline_value_helpers(body, cls)
    if only_inlining:
        return [ast.fix_missing_locations(s) for s in body]
    body = unroll(body)
    if returns_none:
        body = guards(body)
    body = aliases(body, keep)
    body = next_use(body)
    body = split_cells(body)
    body = augment(unnegate(body))
    return [ast.fix_missing_locations(s) for s in body]
