"""Tie (a), seventeenth translator: OrderBook._check_expired_orders and OrderBook._set_time -> Gallina over the book's expiry index (an
insertion-ordered dict `expiry time -> list of orders`, coq/theories/ExpirePy.v) and its queue.  Fail-closed.

Accepted shape of _check_expired_orders (annotations ignored; D, K, L, o, k are the source's own names):
    D = sum([value for key, value in self.expire_time_list.items() if <key cond>], [])        which buckets are due
    K = [key for key, value in self.expire_time_list.items() if <key cond>]                   ... and their keys
    L = []
    if len(D) == 0: return L
    for o in D:
        x = ExpirationLog(order_id=o.order_id, market_id=o.market_id, time=self.time, order_time=o.placed_at, agent_id=o.agent_id,
                          is_buy=o.is_buy, kind=o.kind, volume=o.volume, price=o.price, ttl=o.ttl)
        L.append(x)
        self.priority_queue.remove(o)
    heapq.heapify(self.priority_queue)
    for k in K: self.expire_time_list.pop(k)
    return L
<key cond>: a comparison between `key` and an integer expression over self.time (+ - constants), operators < <= > >= == !=.
_set_time:  self.time = time;  L = self._check_expired_orders();  return L"""
import ast
import os
import sys

from py2coq_arith import Unsupported

LOGSRC = {"order_id": "order_id", "market_id": "market_id", "order_time": "placed_at", "agent_id": "agent_id", "is_buy": "is_buy",
          "kind": "kind", "volume": "volume", "price": "price", "ttl": "ttl"}


def _nodoc(body):
    return [s for s in body if not (isinstance(s, ast.Expr) and isinstance(s.value, ast.Constant) and isinstance(s.value.value, str))]


def _val(s):
    if isinstance(s, ast.AnnAssign) and s.value is not None and isinstance(s.target, ast.Name):
        return s.target.id, s.value
    if isinstance(s, ast.Assign) and len(s.targets) == 1 and isinstance(s.targets[0], ast.Name):
        return s.targets[0].id, s.value
    raise Unsupported("assignment " + ast.unparse(s)[:80])


def zexpr(e):
    t = ast.unparse(e)
    if t == "self.time":
        return "time"
    if t == "key":
        return "key"
    if isinstance(e, ast.Constant) and isinstance(e.value, int) and not isinstance(e.value, bool):
        return f"({e.value})"
    if isinstance(e, ast.BinOp) and isinstance(e.op, (ast.Add, ast.Sub)):
        return f"({zexpr(e.left)} {'+' if isinstance(e.op, ast.Add) else '-'} {zexpr(e.right)})"
    raise Unsupported("integer expression " + t[:60])


def keycond(e):
    if not (isinstance(e, ast.Compare) and len(e.ops) == 1):
        raise Unsupported("key condition " + ast.unparse(e)[:80])
    a, b = zexpr(e.left), zexpr(e.comparators[0])
    op = type(e.ops[0])
    tab = {ast.Lt: f"({a} <? {b})", ast.LtE: f"({a} <=? {b})", ast.Gt: f"({b} <? {a})", ast.GtE: f"({b} <=? {a})",
           ast.Eq: f"({a} =? {b})", ast.NotEq: f"(negb ({a} =? {b}))"}
    if op not in tab:
        raise Unsupported("key condition " + ast.unparse(e)[:80])
    return tab[op]


def _items_comp(e, elt):
    """[<elt> for key, value in self.expire_time_list.items() if c] -> c"""
    if not (isinstance(e, ast.ListComp) and ast.unparse(e.elt) == elt and len(e.generators) == 1):
        raise Unsupported("comprehension " + ast.unparse(e)[:100])
    g = e.generators[0]
    if ast.unparse(g.target) != "(key, value)" or ast.unparse(g.iter) != "self.expire_time_list.items()" or len(g.ifs) != 1:
        raise Unsupported("comprehension " + ast.unparse(e)[:100])
    return keycond(g.ifs[0])


def translate(repo):
    mod = ast.parse(open(os.path.join(repo, "pams/order_book.py")).read())
    cs = [n for n in mod.body if isinstance(n, ast.ClassDef) and n.name == "OrderBook"]
    if len(cs) != 1:
        raise Unsupported("class OrderBook not found exactly once")

    def fn(name, params):
        fs = [n for n in cs[0].body if isinstance(n, ast.FunctionDef) and n.name == name]
        if len(fs) != 1 or fs[0].decorator_list:
            raise Unsupported(f"method {name} not found exactly once (undecorated)")
        a = fs[0].args
        if [x.arg for x in a.args] != ["self"] + params or a.vararg or a.kwarg or a.kwonlyargs or a.defaults:
            raise Unsupported("signature of " + name)
        return _nodoc(fs[0].body)
    b = fn("_check_expired_orders", [])
    if len(b) != 8:
        raise Unsupported(f"_check_expired_orders: {len(b)} statements where 8 are expected")
    D, dv = _val(b[0])
    if not (isinstance(dv, ast.Call) and ast.unparse(dv.func) == "sum" and len(dv.args) == 2 and ast.unparse(dv.args[1]) == "[]"):
        raise Unsupported("due orders: " + ast.unparse(dv)[:100])
    c_orders = _items_comp(dv.args[0], "value")
    K, kv = _val(b[1])
    c_keys = _items_comp(kv, "key")
    L, lv = _val(b[2])
    if ast.unparse(lv) != "[]":
        raise Unsupported("logs start as " + ast.unparse(lv))
    if ast.unparse(b[3]) != f"if len({D}) == 0:\n    return {L}":
        raise Unsupported("early return: " + ast.unparse(b[3])[:100])
    f = b[4]
    if not (isinstance(f, ast.For) and isinstance(f.target, ast.Name) and ast.unparse(f.iter) == D and not f.orelse and len(f.body) == 3):
        raise Unsupported("the loop over the due orders")
    o = f.target.id
    x, call = _val(f.body[0])
    if not (isinstance(call, ast.Call) and ast.unparse(call.func) == "ExpirationLog" and not call.args):
        raise Unsupported("the expiration log")
    kw = {q.arg: ast.unparse(q.value) for q in call.keywords}
    if sorted(kw) != sorted(list(LOGSRC) + ["time"]) or kw["time"] != "self.time" or any(kw[n] != f"{o}.{s}" for n, s in LOGSRC.items()):
        raise Unsupported("the expiration log: " + ast.unparse(call)[:160])
    if ast.unparse(f.body[1]) != f"{L}.append({x})" or ast.unparse(f.body[2]) != f"self.priority_queue.remove({o})":
        raise Unsupported("loop body: " + "; ".join(ast.unparse(q) for q in f.body[1:])[:120])
    if ast.unparse(b[5]) != "heapq.heapify(self.priority_queue)":
        raise Unsupported("statement " + ast.unparse(b[5])[:80])
    g = b[6]
    if not (isinstance(g, ast.For) and isinstance(g.target, ast.Name) and ast.unparse(g.iter) == K and not g.orelse and len(g.body) == 1
            and ast.unparse(g.body[0]) == f"self.expire_time_list.pop({g.target.id})"):
        raise Unsupported("the loop dropping the due buckets")
    if ast.unparse(b[7]) != f"return {L}":
        raise Unsupported("statement " + ast.unparse(b[7])[:80])
    st = fn("_set_time", ["time"])
    if len(st) != 3 or ast.unparse(st[0]) != "self.time = time":
        raise Unsupported("_set_time: " + "; ".join(ast.unparse(q) for q in st)[:120])
    n1, v1 = _val(st[1])
    if ast.unparse(v1) != "self._check_expired_orders()" or ast.unparse(st[2]) != f"return {n1}":
        raise Unsupported("_set_time: " + "; ".join(ast.unparse(q) for q in st)[:120])
    return ("(* GENERATED by harness/py2coq_expire.py - do not edit *)\n"
            "Require Import Pams.Prelude Pams.Match Pams.Market Pams.OrderPy Pams.ExpirePy.\nOpen Scope Z_scope.\n\n"
            "(* pams/order_book.py: OrderBook._check_expired_orders - which buckets of the expiry index are due *)\n"
            f"Definition due_orders_gen (key time : Z) : bool := {c_orders}.\n"
            f"Definition due_keys_gen (key time : Z) : bool := {c_keys}.\n\n"
            "(* the whole method: (records reported, queue, expiry index) *)\n"
            "Definition check_expired_gen (tbl : xtable) (queue : list O) (time : Z) : list record * list O * xtable :=\n"
            "  let delete_orders := concat (map snd (filter (fun kv => due_orders_gen (fst kv) time) tbl)) in\n"
            "  let delete_keys := map fst (filter (fun kv => due_keys_gen (fst kv) time) tbl) in\n"
            "  if (Z.of_nat (length delete_orders) =? 0) then ([], queue, tbl) else\n"
            "  let logs := map (fun o => RExpire (mkO (oid o) (agent o) (mkt o) (isbuy o) (price o) (vol o) (placed o) (ttl o)) time) delete_orders in\n"
            "  let queue := fold_left (fun q o => remove_id (oid o) q) delete_orders queue in\n"
            "  let tbl := fold_left (fun t k => xpop k t) delete_keys tbl in\n"
            "  (logs, queue, tbl).\n\n"
            "(* OrderBook._set_time: the book's time becomes `time`, then the check *)\n"
            "Definition set_time_gen (tbl : xtable) (queue : list O) (time : Z) : list record * list O * xtable := check_expired_gen tbl queue time.\n")


if __name__ == "__main__":
    sys.stdout.write(translate(os.environ.get("PAMS_REPO", "/repo")))
