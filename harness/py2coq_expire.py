"""Tie (a), seventeenth translator: OrderBook._check_expired_orders and OrderBook._set_time -> Gallina over the book's expiry index (an
insertion-ordered dict `expiry time -> list of orders`, coq/theories/ExpirePy.v) and its queue.  Fail-closed.

Accepted shape of _check_expired_orders (annotations ignored; D, K, L, o, k are the source's own names):
    D = sum([value for key, value in self.expire_time_list.items() if <key cond>], [])        which buckets are due
    K = [key for key, value in self.expire_time_list.items() if <key cond>]                   ... and their keys
    L = []
    if len(D) == 0: return L
    for o in D:
        x = ExpirationLog(order_id=o.order_id, market_id=o.market_id, time=self.time, order_time=o.placed_at, agent_id=o.agent_id,
                          is_buy=o.is_buy, kind=o.kind, volume=o.volume, price=o.price, ttl=o.ttl)
        L.append(x)
        self.priority_queue.remove(o)
    heapq.heapify(self.priority_queue)
    for k in K: self.expire_time_list.pop(k)
    return L
<key cond>: a comparison between `key` and an integer expression over self.time (+ - constants), operators < <= > >= == !=.
_set_time:  self.time = time;  L = self._check_expired_orders();  return L"""
import ast
import os
import sys

import pynorm
from py2coq_arith import Unsupported

LOGSRC = {"order_id": "order_id", "market_id": "market_id", "order_time": "placed_at", "agent_id": "agent_id", "is_buy": "is_buy",
          "kind": "kind", "volume": "volume", "price": "price", "ttl": "ttl"}


def _nodoc(body):
    return [s for s in body if not (isinstance(s, ast.Expr) and isinstance(s.value, ast.Constant) and isinstance(s.value.value, str))]


def _val(s):
    if isinstance(s, ast.AnnAssign) and s.value is not None and isinstance(s.target, ast.Name):
        return s.target.id, s.value
    if isinstance(s, ast.Assign) and len(s.targets) == 1 and isinstance(s.targets[0], ast.Name):
        return s.targets[0].id, s.value
    raise Unsupported("assignment " + ast.unparse(s)[:80])


def zexpr(e):
    t = ast.unparse(e)
    if t == "self.time":
        return "time"
    if t == "key":
        return "key"
    if isinstance(e, ast.Constant) and isinstance(e.value, int) and not isinstance(e.value, bool):
        return f"({e.value})"
    if isinstance(e, ast.BinOp) and isinstance(e.op, (ast.Add, ast.Sub)):
        return f"({zexpr(e.left)} {'+' if isinstance(e.op, ast.Add) else '-'} {zexpr(e.right)})"
    raise Unsupported("integer expression " + t[:60])


def keycond(e):
    if not (isinstance(e, ast.Compare) and len(e.ops) == 1):
        raise Unsupported("key condition " + ast.unparse(e)[:80])
    a, b = zexpr(e.left), zexpr(e.comparators[0])
    op = type(e.ops[0])
    tab = {ast.Lt: f"({a} <? {b})", ast.LtE: f"({a} <=? {b})", ast.Gt: f"({b} <? {a})", ast.GtE: f"({b} <=? {a})",
           ast.Eq: f"({a} =? {b})", ast.NotEq: f"(negb ({a} =? {b}))"}
    if op not in tab:
        raise Unsupported("key condition " + ast.unparse(e)[:80])
    return tab[op]


ETL = "self.expire_time_list"


def _comp_cond(e, want):
    """a comprehension over the expiry index selecting keys (want='key') or buckets (want='value') -> its key condition"""
    if not (isinstance(e, ast.ListComp) and len(e.generators) == 1 and len(e.generators[0].ifs) == 1 and ast.unparse(e.elt) == want):
        raise Unsupported("comprehension " + ast.unparse(e)[:100])
    g = e.generators[0]
    tgt, it = ast.unparse(g.target), ast.unparse(g.iter)
    if (tgt, it) == ("(key, value)", ETL + ".items()") or (want == "key" and tgt == "key" and it in (ETL, ETL + ".keys()")):
        return keycond(g.ifs[0])
    raise Unsupported("comprehension " + ast.unparse(e)[:100])


def translate(repo):
    mod = ast.parse(open(os.path.join(repo, "pams/order_book.py")).read())
    cs = [n for n in mod.body if isinstance(n, ast.ClassDef) and n.name == "OrderBook"]
    if len(cs) != 1:
        raise Unsupported("class OrderBook not found exactly once")

    def fn(name, params):
        fs = [n for n in cs[0].body if isinstance(n, ast.FunctionDef) and n.name == name]
        if len(fs) != 1 or fs[0].decorator_list:
            raise Unsupported(f"method {name} not found exactly once (undecorated)")
        a = fs[0].args
        if [x.arg for x in a.args] != ["self"] + params or a.vararg or a.kwarg or a.kwonlyargs or a.defaults:
            raise Unsupported("signature of " + name)
        return pynorm.normalise(fs[0], cs[0], returns_none=False)
    b = fn("_check_expired_orders", [])
    # --- the definitions of the due orders D and the due keys K (in either order; D possibly collected bucket by bucket over K) ---
    defs, i = {}, 0
    while i < len(b):
        s = b[i]
        if isinstance(s, (ast.Assign, ast.AnnAssign)) and getattr(s, "value", None) is not None:
            name, v = _val(s)
            if ast.unparse(v) == "[]":
                defs[name] = ("EMPTY",)
            elif isinstance(v, ast.Call) and ast.unparse(v.func) == "sum" and len(v.args) == 2 and ast.unparse(v.args[1]) == "[]":
                defs[name] = ("ORDERS", _comp_cond(v.args[0], "value"))
            elif isinstance(v, ast.ListComp):
                defs[name] = ("KEYS", _comp_cond(v, "key"))
            else:
                raise Unsupported("statement " + ast.unparse(s)[:100])
        elif (isinstance(s, ast.For) and isinstance(s.target, ast.Name) and isinstance(s.iter, ast.Name) and defs.get(s.iter.id, ("",))[0] == "KEYS"
              and not s.orelse and len(s.body) == 1):
            k, q = s.target.id, ast.unparse(s.body[0])
            hit = [x for x, d in defs.items() if d == ("EMPTY",) and q in (f"{x} = {x} + {ETL}[{k}]", f"{x} += {ETL}[{k}]", f"{x}.extend({ETL}[{k}])")]
            if len(hit) != 1:
                break
            defs[hit[0]] = ("ORDERS_VIA", s.iter.id)
        else:
            break
        i += 1
    rest = b[i:]
    if len(rest) != 5:
        raise Unsupported(f"_check_expired_orders: {len(rest)} statements after the selection where 5 are expected")
    g0 = rest[0]
    if not (isinstance(g0, ast.If) and not g0.orelse and len(g0.body) == 1 and isinstance(g0.body[0], ast.Return)
            and isinstance(g0.test, ast.Compare) and ast.unparse(g0.test).startswith("len(") and ast.unparse(g0.test).endswith(") == 0")):
        raise Unsupported("early return: " + ast.unparse(g0)[:100])
    D = ast.unparse(g0.test.left.args[0])
    L = ast.unparse(g0.body[0].value) if g0.body[0].value is not None else None
    if defs.get(D, ("",))[0] not in ("ORDERS", "ORDERS_VIA") or defs.get(L) != ("EMPTY",):
        raise Unsupported("early return: " + ast.unparse(g0)[:100])
    f = rest[1]
    if not (isinstance(f, ast.For) and isinstance(f.target, ast.Name) and ast.unparse(f.iter) == D and not f.orelse):
        raise Unsupported("the loop over the due orders")
    o = f.target.id
    fb = list(f.body)
    if len(fb) == 3:
        x, call = _val(fb[0])
        if ast.unparse(fb[1]) != f"{L}.append({x})":
            raise Unsupported("loop body: " + ast.unparse(fb[1])[:100])
        fb = [None, fb[2]]
    elif len(fb) == 2 and isinstance(fb[0], ast.Expr) and isinstance(fb[0].value, ast.Call) and ast.unparse(fb[0].value.func) == f"{L}.append" \
            and len(fb[0].value.args) == 1 and not fb[0].value.keywords:
        call = fb[0].value.args[0]
    else:
        raise Unsupported("loop body: " + "; ".join(ast.unparse(q) for q in fb)[:120])
    if not (isinstance(call, ast.Call) and ast.unparse(call.func) == "ExpirationLog" and not call.args):
        raise Unsupported("the expiration log")
    kw = {q.arg: ast.unparse(q.value) for q in call.keywords}
    if sorted(kw) != sorted(list(LOGSRC) + ["time"]) or kw["time"] != "self.time" or any(kw[n] != f"{o}.{src}" for n, src in LOGSRC.items()):
        raise Unsupported("the expiration log: " + ast.unparse(call)[:160])
    if ast.unparse(fb[1]) != f"self.priority_queue.remove({o})":
        raise Unsupported("loop body: " + ast.unparse(fb[1])[:100])
    if ast.unparse(rest[2]) != "heapq.heapify(self.priority_queue)":
        raise Unsupported("statement " + ast.unparse(rest[2])[:80])
    g = rest[3]
    if not (isinstance(g, ast.For) and isinstance(g.target, ast.Name) and isinstance(g.iter, ast.Name) and defs.get(g.iter.id, ("",))[0] == "KEYS"
            and not g.orelse and len(g.body) == 1 and ast.unparse(g.body[0]) == f"{ETL}.pop({g.target.id})"):
        raise Unsupported("the loop dropping the due buckets")
    K = g.iter.id
    if ast.unparse(rest[4]) != f"return {L}":
        raise Unsupported("statement " + ast.unparse(rest[4])[:80])
    c_keys = defs[K][1]
    if defs[D][0] == "ORDERS":
        c_orders = defs[D][1]
        orders_term = "concat (map snd (filter (fun kv => due_orders_gen (fst kv) time) tbl))"
    else:
        c_orders = defs[defs[D][1]][1]
        orders_term = "concat (map (fun k => xget k tbl) (map fst (filter (fun kv => due_orders_gen (fst kv) time) tbl)))"
    st = fn("_set_time", ["time"])
    txt = [ast.unparse(q) for q in st]
    if not (txt == ["self.time = time", "return self._check_expired_orders()"] or
            (len(st) == 3 and txt[0] == "self.time = time" and ast.unparse(_val(st[1])[1]) == "self._check_expired_orders()"
             and txt[2] == f"return {_val(st[1])[0]}")):
        raise Unsupported("_set_time: " + "; ".join(txt)[:120])
    return ("(* GENERATED by harness/py2coq_expire.py - do not edit *)\n"
            "Require Import Pams.Prelude Pams.Match Pams.Market Pams.OrderPy Pams.ExpirePy.\nOpen Scope Z_scope.\n\n"
            "(* pams/order_book.py: OrderBook._check_expired_orders - which buckets of the expiry index are due *)\n"
            f"Definition due_orders_gen (key time : Z) : bool := {c_orders}.\n"
            f"Definition due_keys_gen (key time : Z) : bool := {c_keys}.\n\n"
            "(* the whole method: (records reported, queue, expiry index) *)\n"
            "Definition check_expired_gen (tbl : xtable) (queue : list O) (time : Z) : list record * list O * xtable :=\n"
            f"  let delete_orders := {orders_term} in\n"
            "  let delete_keys := map fst (filter (fun kv => due_keys_gen (fst kv) time) tbl) in\n"
            "  if (Z.of_nat (length delete_orders) =? 0) then ([], queue, tbl) else\n"
            "  let logs := map (fun o => RExpire (mkO (oid o) (agent o) (mkt o) (isbuy o) (price o) (vol o) (placed o) (ttl o)) time) delete_orders in\n"
            "  let queue := fold_left (fun q o => remove_id (oid o) q) delete_orders queue in\n"
            "  let tbl := fold_left (fun t k => xpop k t) delete_keys tbl in\n"
            "  (logs, queue, tbl).\n\n"
            "(* OrderBook._set_time: the book's time becomes `time`, then the check *)\n"
            "Definition set_time_gen (tbl : xtable) (queue : list O) (time : Z) : list record * list O * xtable := check_expired_gen tbl queue time.\n")


if __name__ == "__main__":
    sys.stdout.write(translate(os.environ.get("PAMS_REPO", "/repo")))
