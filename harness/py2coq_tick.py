"""Tie (a), thirteenth translator: Market._update_time -> Gallina over the model's market record (coq/theories/Market.v), statement by
statement IN SOURCE ORDER.  Fail-closed.  What the clock does at a step: advance the time, expire both sides of the book (reporting the
expirations), make room in the recorded series, record the fundamental price, and carry the last-trade, mid and market prices of the
previous step over to the new one (the market price becoming the previous last-trade or, failing that, mid price while the market runs).

Statements accepted:
    self.time += 1                                                           m <| m_time := m_time m + 1 |>
    L = self.<side>_order_book._set_time(self.time)                          expire_side <side> (static prelude TickPy.v: the hand model
                                                                             of OrderBook._set_time - drop what is past its time to live)
    if self.logger is not None: for x in L: x.read_and_write(logger=self.logger)      the expirations just taken are reported, in order
    self._fill_until(time=self.time)                                         fill_until m (m_time m)  (itself tied by py2coq_series)
    <cell> = <expr>
    if <cond>: ... [elif ...] [else: ...]
Cells: self._<series>[self.time] for the four price series.  Expressions: a cell, the same series one step back `self._<series>[self.time - 1]`
(accepted only under `if self.time > 0:`, where the index cannot wrap around), `next_fundamental_price`.  Conditions: `self.time > 0`,
`self.is_running`, `<expr> is None`, `<expr> is not None`."""
import ast
import os
import sys

import pynorm
from py2coq_arith import Unsupported

SERIES = {"_market_prices": "m_mp", "_mid_prices": "m_mid", "_last_executed_prices": "m_last", "_fundamental_prices": "m_fund"}


class T:
    def __init__(self):
        self.positive = False        # inside `if self.time > 0:`
        self.pending = None          # name of the variable holding expirations not yet reported

    def cell(self, e):
        """-> (field, 'now' | 'prev') or None"""
        if (isinstance(e, ast.Subscript) and isinstance(e.value, ast.Attribute) and ast.unparse(e.value.value) == "self"
                and e.value.attr in SERIES):
            ix = ast.unparse(e.slice)
            if ix == "self.time":
                return SERIES[e.value.attr], "now"
            if ix == "self.time - 1":
                if not self.positive:
                    raise Unsupported("`[self.time - 1]` outside `if self.time > 0:` (the index could wrap around)")
                return SERIES[e.value.attr], "prev"
        return None

    def expr(self, e):
        c = self.cell(e)
        if c:
            return f"(geto ({c[0]} m) (m_time m{' - 1' if c[1] == 'prev' else ''}))"
        if isinstance(e, ast.Name) and e.id == "next_fundamental_price":
            return "(Some next_fundamental_price)"
        raise Unsupported("expression " + ast.unparse(e)[:80])

    def cond(self, e):
        t = ast.unparse(e)
        if t == "self.time > 0":
            return "(m_time m >? 0)"
        if t == "self.time <= 0":
            return "(negb (m_time m >? 0))"
        if t == "self.is_running":
            return "(m_running m)"
        if isinstance(e, ast.UnaryOp) and isinstance(e.op, ast.Not):
            return f"(negb {self.cond(e.operand)})"
        if (isinstance(e, ast.Compare) and len(e.ops) == 1 and isinstance(e.ops[0], (ast.Is, ast.IsNot))
                and isinstance(e.comparators[0], ast.Constant) and e.comparators[0].value is None):
            x = f"(is_none {self.expr(e.left)})"
            return x if isinstance(e.ops[0], ast.Is) else f"(negb {x})"
        raise Unsupported("condition " + t[:80])

    def stmts(self, body, ind="  "):
        """-> lines rebinding `st` = (m, recs); the state is the pair of the market and the records reported so far"""
        out = []
        i = 0
        while i < len(body):
            s = body[i]
            t = ast.unparse(s.value) if isinstance(s, ast.AnnAssign) and s.value is not None else None
            if isinstance(s, ast.AugAssign) and ast.unparse(s) == "self.time += 1":
                out.append(f"{ind}let m := m <| m_time := m_time m + 1 |> in")
            elif isinstance(s, (ast.Assign, ast.AnnAssign)) and isinstance(getattr(s, "target", None) or s.targets[0], ast.Name):
                v = ast.unparse(s.value)
                name = (getattr(s, "target", None) or s.targets[0]).id
                side = {"self.buy_order_book._set_time(self.time)": "true", "self.sell_order_book._set_time(self.time)": "false"}.get(v)
                if side is None:
                    raise Unsupported("statement " + ast.unparse(s)[:100])
                if self.pending is not None:
                    raise Unsupported(f"the expirations in `{self.pending}` are never reported")
                out.append(f"{ind}let '(m, {name}) := expire_side {side} m in")
                self.pending = name
            elif (isinstance(s, ast.If) and ast.unparse(s.test) == "self.logger is not None" and not s.orelse and len(s.body) == 1
                  and isinstance(s.body[0], ast.For) and not s.body[0].orelse and len(s.body[0].body) == 1):
                f = s.body[0]
                v = ast.unparse(f.target)
                if ast.unparse(f.iter) != self.pending or ast.unparse(f.body[0]) != f"{v}.read_and_write(logger=self.logger)":
                    raise Unsupported("reporting loop " + ast.unparse(f)[:100])
                out.append(f"{ind}let recs := recs ++ report_expirations {self.pending} (m_time m) in")
                self.pending = None
            elif ast.unparse(s) == "self._fill_until(time=self.time)":
                out.append(f"{ind}let m := fill_until m (m_time m) in")
            elif isinstance(s, ast.Assign) and len(s.targets) == 1 and self.cell(s.targets[0]):
                fld, when = self.cell(s.targets[0])
                if when != "now":
                    raise Unsupported("a past entry is written: " + ast.unparse(s)[:80])
                out.append(f"{ind}let m := m <| {fld} := upd ({fld} m) (zi (m_time m)) {self.expr(s.value)} |> in")
            elif isinstance(s, ast.If):
                if self.pending is not None:
                    raise Unsupported(f"the expirations in `{self.pending}` are never reported")
                c = self.cond(s.test)
                was = self.positive
                if ast.unparse(s.test) == "self.time > 0":
                    self.positive = True
                a = self.stmts(s.body, ind + "    ")
                self.positive = was
                if ast.unparse(s.test) == "self.time <= 0":
                    self.positive = True
                b = self.stmts(s.orelse, ind + "    ")
                self.positive = was
                out.append(f"{ind}let '(m, recs) :=\n{ind}  if {c} then\n" + "\n".join(a) + f"\n{ind}    (m, recs)\n{ind}  else\n"
                           + "\n".join(b) + ("\n" if b else "") + f"{ind}    (m, recs) in")
            elif isinstance(s, ast.Pass) or (isinstance(s, ast.Expr) and isinstance(s.value, ast.Constant) and isinstance(s.value.value, str)):
                pass
            else:
                raise Unsupported("statement " + ast.unparse(s)[:100])
            i += 1
        return out


def translate(repo):
    mod = ast.parse(open(os.path.join(repo, "pams/market.py")).read())
    cs = [n for n in mod.body if isinstance(n, ast.ClassDef) and n.name == "Market"]
    if len(cs) != 1:
        raise Unsupported("class Market not found exactly once")
    fs = [n for n in cs[0].body if isinstance(n, ast.FunctionDef) and n.name == "_update_time"]
    if len(fs) != 1 or fs[0].decorator_list:
        raise Unsupported("method _update_time not found exactly once (undecorated)")
    a = fs[0].args
    if [x.arg for x in a.args] != ["self", "next_fundamental_price"] or a.vararg or a.kwarg or a.kwonlyargs or a.defaults:
        raise Unsupported("signature of _update_time")
    t = T()
    lines = t.stmts(pynorm.normalise(fs[0], cs[0], returns_none=True))
    if t.pending is not None:
        raise Unsupported(f"the expirations in `{t.pending}` are never reported")
    return ("(* GENERATED by harness/py2coq_tick.py - do not edit *)\n"
            "Require Import Pams.Prelude Pams.Match Pams.Market Pams.OrderPy Pams.TickPy.\nFrom RecordUpdate Require Import RecordSet.\n"
            "Import RecordSetNotations.\nOpen Scope Z_scope.\n\n(* pams/market.py: Market._update_time *)\n"
            "Definition update_time_gen (m : market) (next_fundamental_price : Q) : market * list record :=\n"
            "  let recs : list record := [] in\n" + "\n".join(lines) + "\n  (m, recs).\n")


if __name__ == "__main__":
    sys.stdout.write(translate(os.environ.get("PAMS_REPO", "/repo")))
