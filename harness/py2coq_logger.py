"""Tie (a), ninth translator: pams.logs.base.Logger (and Log.read_and_write*) -> Gallina.  The pending queue and the dispatch by class.
Fail-closed; each method must have exactly the accepted shape.

  Log.read_and_write(self, logger):                       logger.write(log=self)
  Log.read_and_write_with_direct_process(self, logger):   logger.write_and_direct_process(log=self)
  Logger.write(self, log):                                self.pending_logs.append(log)
  Logger.bulk_write(self, logs):                          self.pending_logs.extend(logs)
  Logger.write_and_direct_process(self, log):             self.process(logs=[log])
  Logger.bulk_write_and_direct_process(self, logs):       self.process(logs=logs)
  Logger._process(self):                                  self.process(logs=self.pending_logs); self.pending_logs = []
  Logger.process(self, logs):                             for log in logs: if isinstance(log, K1): self.H1(log=log) elif ... else: raise NotImplementedError
The classes tested in `process` must be direct subclasses of Log (so the order of the tests cannot matter); the generated dispatch maps
each class, in source order, to the handler called for it."""
import ast
import os
import sys

from py2coq_arith import Unsupported

KINDS = ["OrderLog", "CancelLog", "ExpirationLog", "ExecutionLog", "SimulationBeginLog", "SimulationEndLog", "SessionBeginLog",
         "SessionEndLog", "MarketStepBeginLog", "MarketStepEndLog"]


def _nodoc(body):
    return [s for s in body if not (isinstance(s, ast.Expr) and isinstance(s.value, ast.Constant) and isinstance(s.value.value, str))]


def _method(cls, name, params):
    fs = [n for n in cls.body if isinstance(n, ast.FunctionDef) and n.name == name]
    if len(fs) != 1 or fs[0].decorator_list:
        raise Unsupported(f"{cls.name}.{name} not found exactly once (undecorated)")
    a = fs[0].args
    if [x.arg for x in a.args] != ["self"] + params or a.vararg or a.kwarg or a.kwonlyargs or a.defaults:
        raise Unsupported(f"signature of {cls.name}.{name}")
    return _nodoc(fs[0].body)


def _one(body, text, what):
    if len(body) != 1 or ast.unparse(body[0]) != text:
        raise Unsupported(f"{what}: {'; '.join(ast.unparse(s) for s in body)[:120]}")


def translate(repo):
    mod = ast.parse(open(os.path.join(repo, "pams/logs/base.py")).read())
    classes = {n.name: n for n in mod.body if isinstance(n, ast.ClassDef)}
    for k in ["Log", "Logger"] + KINDS:
        if k not in classes:
            raise Unsupported(f"class {k} is missing")
    for k in KINDS:
        if [ast.unparse(b) for b in classes[k].bases] != ["Log"]:
            raise Unsupported(f"{k} is not a direct subclass of Log")
    _one(_method(classes["Log"], "read_and_write", ["logger"]), "logger.write(log=self)", "Log.read_and_write")
    _one(_method(classes["Log"], "read_and_write_with_direct_process", ["logger"]), "logger.write_and_direct_process(log=self)",
         "Log.read_and_write_with_direct_process")
    lg = classes["Logger"]
    _one(_method(lg, "write", ["log"]), "self.pending_logs.append(log)", "Logger.write")
    _one(_method(lg, "bulk_write", ["logs"]), "self.pending_logs.extend(logs)", "Logger.bulk_write")
    _one(_method(lg, "write_and_direct_process", ["log"]), "self.process(logs=[log])", "Logger.write_and_direct_process")
    _one(_method(lg, "bulk_write_and_direct_process", ["logs"]), "self.process(logs=logs)", "Logger.bulk_write_and_direct_process")
    pb = _method(lg, "_process", [])
    if [ast.unparse(s) for s in pb] != ["self.process(logs=self.pending_logs)", "self.pending_logs = []"]:
        raise Unsupported("Logger._process: " + "; ".join(ast.unparse(s) for s in pb)[:120])
    body = _method(lg, "process", ["logs"])
    if len(body) != 1 or not (isinstance(body[0], ast.For) and ast.unparse(body[0].target) == "log" and ast.unparse(body[0].iter) == "logs"
                              and not body[0].orelse and len(body[0].body) == 1 and isinstance(body[0].body[0], ast.If)):
        raise Unsupported("Logger.process: not one loop over `logs` with one if-chain")
    node, arms = body[0].body[0], []
    while True:
        t = node.test
        if not (isinstance(t, ast.Call) and ast.unparse(t.func) == "isinstance" and len(t.args) == 2 and ast.unparse(t.args[0]) == "log"
                and isinstance(t.args[1], ast.Name) and t.args[1].id in KINDS):
            raise Unsupported("Logger.process: test " + ast.unparse(t)[:60])
        if len(node.body) != 1 or not (isinstance(node.body[0], ast.Expr) and isinstance(node.body[0].value, ast.Call)):
            raise Unsupported("Logger.process: arm of " + t.args[1].id)
        c = node.body[0].value
        if not (isinstance(c.func, ast.Attribute) and ast.unparse(c.func.value) == "self" and not c.args and len(c.keywords) == 1
                and c.keywords[0].arg == "log" and ast.unparse(c.keywords[0].value) == "log"):
            raise Unsupported("Logger.process: call " + ast.unparse(c)[:60])
        arms.append((t.args[1].id, c.func.attr))
        if len(node.orelse) == 1 and isinstance(node.orelse[0], ast.If):
            node = node.orelse[0]
            continue
        if [ast.unparse(s) for s in node.orelse] != ["raise NotImplementedError"]:
            raise Unsupported("Logger.process: the last else is " + "; ".join(ast.unparse(s) for s in node.orelse)[:80])
        break
    if len({k for k, _ in arms}) != len(arms):
        raise Unsupported("Logger.process: a class is tested twice")
    lines = "\n".join(f"  | K{k} => POk (H_{h}, snd log)" for k, h in arms)
    missing = [k for k in KINDS if k not in {a for a, _ in arms}]
    if missing:
        lines += "\n  | _ => PErr PyNotImplementedError"
    handlers = sorted({h for _, h in arms})
    return ("(* GENERATED by harness/py2coq_logger.py - do not edit *)\n"
            "Require Import Pams.Prelude Pams.Match Pams.Market Pams.OrderPy Pams.LoggerPy.\nOpen Scope Z_scope.\n\n"
            "Inductive handler := " + " | ".join("H_" + h for h in handlers) + ".\n\n"
            "(* Logger.process, one log: the handler called for its class *)\n"
            "Definition dispatch_gen (log : logkind * Z) : pres (handler * Z) :=\n  match fst log with\n" + lines + "\n  end.\n"
            "Fixpoint process_gen (logs : list (logkind * Z)) : pres (list (handler * Z)) :=\n"
            "  match logs with\n  | [] => POk []\n  | l :: r => match dispatch_gen l with\n"
            "              | PErr e => PErr e\n              | POk c => match process_gen r with PErr e => PErr e | POk cs => POk (c :: cs) end\n              end\n  end.\n"
            "(* the queue: write / bulk_write / _process *)\n"
            "Definition write_gen (pending : list (logkind * Z)) (log : logkind * Z) := pending ++ [log].\n"
            "Definition bulk_write_gen (pending : list (logkind * Z)) (logs : list (logkind * Z)) := pending ++ logs.\n"
            "Definition flush_gen (pending : list (logkind * Z)) : pres (list (handler * Z)) * list (logkind * Z) := (process_gen pending, []).\n"
            "Definition direct_gen (log : logkind * Z) : pres (list (handler * Z)) := process_gen [log].\n")


if __name__ == "__main__":
    sys.stdout.write(translate(os.environ.get("PAMS_REPO", "/repo")))
