import random, sys, time
sys.path.insert(0,'/verif/harness')
from common import *
import suite_m
rng=random.Random(int(sys.argv[1]) if len(sys.argv)>1 else 0)
N=int(sys.argv[2]) if len(sys.argv)>2 else 50
cases=[suite_m.gen_history(rng, rng.choice([10,25,40])) for _ in range(N)]
t=time.time()
res=[suite_m.run_history(c) for c in cases]
print("impl", time.time()-t)
terms=[suite_m.case_term(c,r)[0] for c,r in zip(cases,res)]
print("bytes", sum(map(len,terms)))
t=time.time()
n,mism,logs=run_coq_cases("m","Require Import Pams.Prelude Pams.Match Pams.Market.","run_case",terms,shard=12)
print("coq", time.time()-t, n, mism, logs[:1])
for i in mism[:3]:
    c,r=cases[i],res[i]
    term,ops,exp=suite_m.case_term(c,r)
    inp=term[1:term.index(", (VL")]
    out=eval_coq_term("Require Import Pams.Prelude Pams.Match Pams.Market.", f"run_case {inp}")
    model=parse_ov(out)
    d=first_diff(exp,model)
    print(i,c['mode'],"diff at",d)
    k=d[0]
    print(" op",ops[k]); print(" exp",ov_json(exp[k])); print(" mod",ov_json(model[k]))
    for j in range(max(0,k-6),k): print("   prev",ops[j])
