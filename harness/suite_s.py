"""Suite S: whole simulations of the real pams (SequentialRunner) with scripted agents, probe events, a recording
logger and a recording runner generator, next to the Level-S Coq model (coq/theories/Sim.v).

A case is {"cfg": <json settings>, "seed": runner seed, "aseed": agent-policy seed, "pmkt": share of market orders,
"malformed": None|kind}.  The observation is one chronological event list (see TAGS) plus the inputs the model needs
(runner decisions tape, agent batches, delivered fundamentals, initial holdings).

Event tags (first element of each event):
 1 consult      [1, agent, n_requests]
 2 probe hook   [2, event_id, kind, before, clock, market|-1, extra]      kind: 1 order 2 cancel 3 execution 4 session 5 market
 3 delivery     [3, logkind, ...]   logkind 1 order 2 cancel 3 exec 4 expire (fields as Level M records) 5 sim begin 6 sim end
                                    7 session begin [sid, clock] 8 session end [sid, clock]
                                    9 step begin [sid, market, t, running, switch, mp, fund, index|None]
                                    10 step end  [sid, market, t, running, switch, mp, fund, index|None, holdings]
 5 callback     [5, agent, cb(1 submitted 2 canceled 3 executed), record..., cash, [assets], session switch, market running]
 4 / 6          round started / ground-truth events taken at the market's own methods (see _instrument)
 9 error        [9, code]   the run ended with an exception of that kind
"""
import collections
import copy
import json
import os
import random
import traceback
from fractions import Fraction

import engine
from common import resolved_entry, E, A, ov_lit, qlit, oqlit, ozlit, zlit, blit
from suite_m import exc_to_E, fr

KIND = {"order": 1, "cancel": 2, "execution": 3, "session": 4, "market": 5}


class RecordingRandom(random.Random):
    """runner generator: delegates to an inner plain Random(seed) (bit-identical stream) and logs the decisions
    taken while `active`"""

    def __init__(self, seed):
        super().__init__(seed)
        self.inner = random.Random(seed)
        self.tape = []
        self.active = False

    def random(self):
        x = self.inner.random()
        if self.active:
            self.tape.append(("draw", x))
        return x

    def randint(self, a, b):
        x = self.inner.randint(a, b)
        if self.active:
            self.tape.append(("int", x))
        return x

    def sample(self, population, k):
        idx = self.inner.sample(range(len(population)), k)
        if self.active:
            self.tape.append(("perm", list(idx)))
        return [population[i] for i in idx]


class Ctx:
    pass


CTX = None


def _pams():
    import pams  # noqa
    from pams.runners import SequentialRunner
    from pams.logs import Logger
    from pams.agents import Agent, HighFrequencyAgent
    from pams.order import Order, Cancel, LIMIT_ORDER, MARKET_ORDER
    from pams.events import EventABC, EventHook
    from pams.index_market import IndexMarket
    return SequentialRunner, Logger, Agent, HighFrequencyAgent, Order, Cancel, LIMIT_ORDER, MARKET_ORDER, EventABC, EventHook, IndexMarket


_CLASSES = {}


def classes():
    """scripted agent / probe event / logger classes (built once; they talk to the global CTX)"""
    if _CLASSES:
        return _CLASSES
    (SequentialRunner, Logger, Agent, HighFrequencyAgent, Order, Cancel, LIMIT, MARKETK, EventABC, EventHook,
     IndexMarket) = _pams()

    def holdings(a):
        return [fr(a.cash_amount), [a.asset_volumes[k] for k in sorted(a.asset_volumes)]]

    def order_fields(l, t):
        return [l.order_id, l.market_id, t, l.agent_id, bool(l.is_buy), fr(l.price), l.volume, l.ttl]

    class Rec(Logger):
        def process_order_log(s, log):
            CTX.ev.append([3, 1] + order_fields(log, log.time))

        def process_cancel_log(s, log):
            CTX.ev.append([3, 2, log.cancel_time] + order_fields(log, log.order_time))

        def process_execution_log(s, log):
            CTX.ev.append([3, 3, log.market_id, log.time, log.buy_agent_id, log.sell_agent_id, log.buy_order_id,
                           log.sell_order_id, fr(log.price), log.volume])

        def process_expiration_log(s, log):
            CTX.ev.append([3, 4, log.time] + order_fields(log, log.order_time))

        def process_simulation_begin_log(s, log):
            CTX.ev.append([3, 5])

        def process_simulation_end_log(s, log):
            CTX.ev.append([3, 6])

        def process_session_begin_log(s, log):
            CTX.ev.append([3, 7, log.session.session_id, CTX.sim.markets[0].get_time()])

        def process_session_end_log(s, log):
            CTX.ev.append([3, 8, log.session.session_id, CTX.sim.markets[0].get_time()])

        def _step(s, log, kind):
            m = log.market
            idx = None
            if isinstance(m, IndexMarket):
                # (asked BEFORE the implicit-time query below, which would recompute and refresh anything remembered)
                # side channel for the C17 monitor: the index asked for with an EXPLICIT time (now, the step before, time 0),
                # beside the components' own market prices at that time and their shares
                tnow = m.get_time()
                for tq in sorted({tnow, max(tnow - 1, 0), 0}):
                    try:
                        got = m.get_index(time=tq)
                        comps = [(c.market_id, c.get_market_price(time=tq), c.outstanding_shares) for c in m.get_components()]
                        CTX.index_probe.append([len(CTX.ev), kind, m.market_id, tq, got, comps])
                    except Exception as e:  # noqa
                        CTX.index_probe.append([len(CTX.ev), kind, m.market_id, tq, repr(e)[:80], []])
                idx = A(m.get_index())
            ses = log.session
            row = [3, kind, ses.session_id, m.market_id, m.get_time(), bool(m.is_running), bool(ses.with_order_execution),
                   fr(m.get_market_price()), (A(m.get_fundamental_price()) if isinstance(m, IndexMarket) else fr(m.get_fundamental_price())), idx]
            if kind == 10:
                row.append([holdings(a) for a in CTX.sim.agents])
            CTX.ev.append(row)

        def process_market_step_begin_log(s, log):
            s._step(log, 9)

        def process_market_step_end_log(s, log):
            s._step(log, 10)

    class SAgent(Agent):
        def submit_orders(self, markets):
            c = CTX
            k = c.nconsult.get(self.agent_id, 0)
            c.nconsult[self.agent_id] = k + 1
            rng = random.Random(f"{c.aseed}-{self.agent_id}-{k}")
            out, snap = [], []
            mids = [m.market_id for m in markets if self.is_market_accessible(m.market_id)]
            mine = c.my_orders.setdefault(self.agent_id, [])
            for _ in range(rng.choice(c.batch_sizes)):
                r = rng.random()
                if r < 0.18 and mine:
                    tag = rng.choice(mine)
                    out.append(Cancel(c.objs[tag]))
                    snap.append(("cancel", tag, c.objs[tag].agent_id, c.objs[tag].market_id))
                    continue
                mid = rng.choice(mids)
                m = c.sim.id2market[mid]
                is_mkt = rng.random() < c.pmkt
                px = None if is_mkt else float(max(m.tick_size, m.get_market_price() + rng.randint(-6, 6) * m.tick_size))
                if px is not None and rng.random() < 0.1:
                    px += m.tick_size / 2
                vol = rng.randint(1, 5)
                g = rng.random()
                if px is not None and g < 0.12 and c.bands.get(mid):
                    # around the edges of a configured price band: p0 (1 +- r) and p0 / (1 -+ r), a few ticks either side
                    p0 = m.get_market_price(0)
                    r_ = rng.choice(c.bands[mid])
                    edge = rng.choice([p0 * (1 + r_), p0 * (1 - r_), p0 / (1 - r_), p0 / (1 + r_)])
                    px = float(max(m.tick_size, round(edge / m.tick_size) * m.tick_size + rng.randint(-3, 3) * m.tick_size))
                elif px is not None and g < 0.2:
                    # an aggressive order that sweeps several levels
                    px = float(max(m.tick_size, m.get_market_price() + rng.choice([-1, 1]) * rng.randint(8, 24) * m.tick_size))
                    vol = rng.randint(6, 20)
                aid = self.agent_id
                o = Order(agent_id=aid, market_id=mid, is_buy=rng.random() < 0.5, kind=MARKETK if is_mkt else LIMIT,
                          volume=vol, price=px, ttl=rng.choice([None, None, 1, 2, 3, 5]))
                tag = len(c.objs)
                c.objs.append(o)
                mine.append(tag)
                out.append(o)
                snap.append(("new", tag, aid, mid, bool(o.is_buy), px, o.volume, o.ttl))
            # malformed stream (each aborts the run): spoofed owner, re-submission, cancel of a never-submitted order
            if c.malformed and not c.malformed_done and c.sim.markets[0].get_time() >= c.malformed_at and \
                    (c.malformed_who is None or c.malformed_who == isinstance(self, HighFrequencyAgent)):
                kind = c.malformed
                if kind == "spoof" and len(c.sim.agents) > 1:
                    other = [a.agent_id for a in c.sim.agents if a.agent_id != self.agent_id][0]
                    mid = mids[0]
                    m = c.sim.id2market[mid]
                    if c.spoof_mixed or rng.random() < 0.5 or not out:
                        o0 = Order(agent_id=self.agent_id, market_id=mid, is_buy=True, kind=LIMIT, volume=1,
                                   price=float(m.get_market_price()), ttl=None)
                        c.objs.append(o0)
                        out.append(o0)
                        snap.append(("new", len(c.objs) - 1, self.agent_id, mid, True, float(m.get_market_price()), 1, None))
                    o = Order(agent_id=other, market_id=mid, is_buy=True, kind=LIMIT, volume=1, price=float(m.get_market_price()), ttl=None)
                    c.objs.append(o)
                    out.append(o)
                    snap.append(("new", len(c.objs) - 1, other, mid, True, float(m.get_market_price()), 1, None))
                    c.malformed_done = True
                elif kind == "resubmit":
                    done = [t for t in mine if c.objs[t].placed_at is not None]
                    if done:
                        t = rng.choice(done)
                        o = c.objs[t]
                        out.append(o)
                        snap.append(("new", t, o.agent_id, o.market_id, bool(o.is_buy), None if o.price is None else float(o.price), o.volume, o.ttl))
                        # the object is a live order: hooks see its volume at the moment the request is handled (the run ends there)
                        c.resubmitted = (len(c.batches), len(snap) - 1, t)
                        c.malformed_done = True
                elif kind == "cancel_unsubmitted":
                    mid = mids[0]
                    o = Order(agent_id=self.agent_id, market_id=mid, is_buy=True, kind=MARKETK, volume=1)
                    c.objs.append(o)
                    out.append(Cancel(o))
                    snap.append(("cancel", len(c.objs) - 1, o.agent_id, o.market_id))
                    c.malformed_done = True
            c.ev.append([1, self.agent_id, len(out)])
            c.batches.append((self.agent_id, snap))
            return out

        def _cb(self, kind, fields, market_id):
            sim = CTX.sim
            ses = sim.current_session
            CTX.ev.append([5, self.agent_id, kind] + fields + holdings(self) +
                          [bool(ses.with_order_execution) if ses is not None else None, bool(sim.id2market[market_id].is_running)])

        def submitted_order(self, log):
            self._cb(1, order_fields(log, log.time), log.market_id)

        def canceled_order(self, log):
            self._cb(2, [log.cancel_time] + order_fields(log, log.order_time), log.market_id)

        def executed_order(self, log):
            self._cb(3, [log.market_id, log.time, log.buy_agent_id, log.sell_agent_id, log.buy_order_id, log.sell_order_id,
                         fr(log.price), log.volume], log.market_id)

    class HAgent(SAgent, HighFrequencyAgent):
        pass

    class Probe(EventABC):
        def setup(self, settings, *a, **k):
            self.spec = settings["spec"]

        def hook_registration(self):
            hs = []
            for (ht, before, times, inst, cls) in self.spec:
                kw = {}
                if inst is not None:
                    kw["specific_instance"] = self.simulator.id2market[inst]
                if cls == "index":
                    kw["specific_class"] = IndexMarket
                hs.append(EventHook(event=self, hook_type=ht, is_before=before, time=None if times is None else list(times), **kw))
            return hs

        def _r(self, kind, before, mid, extra=None):
            CTX.ev.append([2, self.event_id, kind, before, CTX.sim.markets[0].get_time(), -1 if mid is None else mid, extra])

        def hooked_before_order(self, simulator, order):
            self._r(1, True, order.market_id, [order.agent_id, bool(order.is_buy), fr(order.price), order.volume, order.ttl])

        def hooked_after_order(self, simulator, order_log):
            self._r(1, False, order_log.market_id, [order_log.order_id])

        def hooked_before_cancel(self, simulator, cancel):
            self._r(2, True, cancel.market_id, [cancel.order.order_id])

        def hooked_after_cancel(self, simulator, cancel_log):
            self._r(2, False, cancel_log.market_id, [cancel_log.order_id])

        def hooked_after_execution(self, simulator, execution_log):
            self._r(3, False, execution_log.market_id, [execution_log.buy_order_id, execution_log.sell_order_id])

        def hooked_before_session(self, simulator, session):
            self._r(4, True, None, [session.session_id, session.session_start_time])

        def hooked_after_session(self, simulator, session):
            self._r(4, False, None, [session.session_id, session.session_start_time + session.iteration_steps - 1])

        def hooked_before_step_for_market(self, simulator, market):
            self._r(5, True, market.market_id, [market.get_time()])

        def hooked_after_step_for_market(self, simulator, market):
            self._r(5, False, market.market_id, [market.get_time()])

    _CLASSES.update(Rec=Rec, SAgent=SAgent, HAgent=HAgent, Probe=Probe, Runner=SequentialRunner, IndexMarket=IndexMarket)
    return _CLASSES


# --------------------------------------------------------------------------------------
# ground-truth events, taken at the market's own methods (instance wrapping, no source hooks):
#  4 round started   [4, market, running, session id]
#  6 truth           [6, 1, order fields..., tag, mp_before, mp_at_0]   accepted order (tag = index of the submitted object)
#                    [6, 2, cancel_time, order fields...]               accepted cancel
#                    [6, 3, exec fields...]                             fill
#                    [6, 4, time, order fields...]                      expiry
# --------------------------------------------------------------------------------------
def _of(l, t):
    return [l.order_id, l.market_id, t, l.agent_id, bool(l.is_buy), fr(l.price), l.volume, l.ttl]


def _instrument(m, c):
    add0, cancel0, exec0 = m._add_order, m._cancel_order, m._execution

    def add(order):
        tag = -1
        for i, o in enumerate(c.objs):
            if o is order:
                tag = i
                break
        mp_before, mp0 = m.get_market_price(), m.get_market_price(0)
        log = add0(order=order)
        c.ev.append([6, 1] + _of(log, log.time) + [tag, fr(mp_before), fr(mp0)])
        return log

    def cancel(cancel):
        log = cancel0(cancel=cancel)
        c.ev.append([6, 2, log.cancel_time] + _of(log, log.order_time))
        return log

    def execution():
        c.ev.append([4, m.market_id, bool(m.is_running), c.sim.current_session.session_id if c.sim.current_session is not None else -1])
        logs = exec0()
        for l in logs:
            c.ev.append([6, 3, l.market_id, l.time, l.buy_agent_id, l.sell_agent_id, l.buy_order_id, l.sell_order_id, fr(l.price), l.volume])
        return logs
    m._add_order = lambda order: add(order)
    m._cancel_order = lambda cancel: cancel_(cancel)
    cancel_ = cancel
    m._execution = execution
    for book in (m.buy_order_book, m.sell_order_book):
        def mk(book):
            st0 = book._set_time

            def set_time(time):
                logs = st0(time)
                for l in logs:
                    c.ev.append([6, 4, l.time] + _of(l, l.order_time))
                return logs
            return set_time
        book._set_time = mk(book)


# --------------------------------------------------------------------------------------
# running one case on the real code
# --------------------------------------------------------------------------------------
def run_case(case):
    global CTX
    K = classes()
    cfg = copy.deepcopy(case["cfg"])
    c = Ctx()
    CTX = c
    c.ev, c.batches, c.objs, c.my_orders, c.nconsult = [], [], [], {}, {}
    c.resubmitted = None
    c.index_probe = []
    c.aseed, c.pmkt = case["aseed"], case.get("pmkt", 0.1)
    c.batch_sizes = case.get("batch_sizes", [0, 1, 1, 2, 3])
    c.malformed, c.malformed_done, c.malformed_at = case.get("malformed"), False, case.get("malformed_at", 0)
    c.malformed_who = case.get("malformed_who")
    c.spoof_mixed = case.get("spoof_mixed", False)
    c.bands = {}
    prng = RecordingRandom(case["seed"])
    lg = K["Rec"]()
    res = {"error": None, "setup_error": None}
    try:
        r = K["Runner"](settings=cfg, prng=prng, logger=lg)
        for k in ("SAgent", "HAgent", "Probe"):
            r.class_register(K[k])
        r._setup()
    except Exception as e:  # noqa
        res["setup_error"] = repr(e)[:300]
        res.update(events=[], tape=[], batches=[], funds={}, init=[], markets=[], sessions=[], evlist=[])
        return res
    sim = r.simulator
    c.sim = sim
    funds = {}
    orig = sim.fundamentals.get_fundamental_price

    def wrapped(market_id, time):
        v = orig(market_id=market_id, time=time)
        funds[(market_id, time)] = v
        return v
    sim.fundamentals.get_fundamental_price = lambda market_id, time: wrapped(market_id, time)
    for m in sim.markets:
        _instrument(m, c)
    for name, e in case["cfg"].items():
        if isinstance(e, dict) and e.get("class") == "PriceLimitRule":
            for tn in e["targetMarkets"]:
                if tn in sim.name2market:
                    c.bands.setdefault(sim.name2market[tn].market_id, []).append(e["triggerChangeRate"])
    res["init"] = [[a.agent_id, isinstance(a, K["HAgent"]), fr(a.cash_amount), [[k, a.asset_volumes[k]] for k in sorted(a.asset_volumes)]]
                   for a in sim.agents]
    res["markets"] = [[m.market_id, fr(m.tick_size), fr(m._market_prices[0]),
                       ([x.market_id for x in m.get_components()] if isinstance(m, K["IndexMarket"]) else None),
                       m.outstanding_shares] for m in sim.markets]
    res["sessions"] = [[s.session_id, s.iteration_steps, bool(s.with_order_placement), bool(s.with_order_execution),
                        s.max_normal_orders, s.max_high_frequency_orders, fr(s.high_frequency_submission_rate)] for s in sim.sessions]
    res["evlist"] = [[e.event_id, e.name, e.session.session_id] for e in sim.events]
    res["evids"] = {}
    for s in r.settings["simulation"]["sessions"]:
        pass
    # event ids in creation order (also for events that registered no hook)
    prng.active = True
    try:
        r._run()
    except Exception as e:  # noqa
        err = exc_to_E(e)
        res["error"] = err
        c.ev.append([9, err.code])
        res["error_text"] = (repr(e) + " @ " + "".join(traceback.format_tb(e.__traceback__)[-2:]))[-600:]
    if getattr(c, "resubmitted", None):
        bi, si, t = c.resubmitted
        if bi < len(c.batches):
            aid_, snap_ = c.batches[bi]
            x = list(snap_[si])
            o_ = c.objs[t]
            same = (bool(o_.is_buy), None if o_.price is None else float(o_.price), o_.ttl) == (x[4], x[5], x[7])
            if same:          # not rewritten by an order-mistake shock on the way: the volume read at handling time is the final one
                x[6] = o_.volume
            snap_[si] = tuple(x)
    res.update(events=c.ev, tape=prng.tape, batches=c.batches, funds=funds)
    res["index_probe"] = getattr(c, "index_probe", [])
    res["final"] = [[fr(a.cash_amount), [a.asset_volumes[k] for k in sorted(a.asset_volumes)]] for a in sim.agents]
    return res


# --------------------------------------------------------------------------------------
# generator
# --------------------------------------------------------------------------------------
def gen_halts(rng):
    """several short execution sessions in a row, trading halt rules with low lines and lengths that reach across session ends,
    plenty of sweeping orders: halts that are cut short by a session end, halts in the session after, repeated halts"""
    case = gen_case(rng, long_ok=False)
    cfg = case["cfg"]
    mk = [m for m in cfg["simulation"]["markets"] if cfg[m]["class"] == "Market"]
    sessions = []
    for s in range(rng.randint(2, 4)):
        sessions.append({"sessionName": s, "iterationSteps": rng.randint(2, 6), "withOrderPlacement": True,
                         "withOrderExecution": rng.random() < 0.85, "withPrint": False, "maxNormalOrders": rng.choice([2, 3, 5]),
                         "maxHighFrequencyOrders": rng.choice([0, 1]), "highFrequencySubmitRate": rng.choice([0.0, 1.0]), "events": []})
    for name in [k for k in list(cfg) if k.startswith("EV") or k.startswith("PL")]:
        del cfg[name]
    for k in range(rng.randint(1, 2)):
        name = "TH%d" % k
        cfg[name] = {"class": "TradingHaltRule", "targetMarkets": rng.sample(mk, rng.randint(1, len(mk))),
                     "triggerChangeRate": rng.choice([0.00390625, 0.0078125, 0.015625]), "haltingTimeLength": rng.randint(1, 9)}
        sessions[rng.randrange(len(sessions) - 1)]["events"].append(name)
    sessions[0]["events"].insert(0, "ALL")
    cfg["simulation"]["sessions"] = sessions
    cfg["N"]["numAgents"] = max(3, cfg["N"]["numAgents"])
    case.update(malformed=None, batch_sizes=[1, 2, 3], pmkt=rng.choice([0, 0.1]))
    return case


def gen_malformed(rng, kind, who):
    """a case built so that the malformed batch is certainly reached: placement everywhere, high-frequency agents present and
    consulted after every batch"""
    for _ in range(50):
        case = gen_case(rng, long_ok=False)
        cfg = case["cfg"]
        cfg["H"]["numAgents"] = max(1, cfg["H"]["numAgents"])
        cfg["N"]["numAgents"] = max(2, cfg["N"]["numAgents"])
        for ses in cfg["simulation"]["sessions"]:
            ses.update(withOrderPlacement=True, highFrequencySubmitRate=1.0, maxHighFrequencyOrders=max(1, ses["maxHighFrequencyOrders"]),
                       maxNormalOrders=max(1, ses["maxNormalOrders"]))
        case.update(malformed=kind, malformed_who=who, malformed_at=0, spoof_mixed=(kind == "spoof"), batch_sizes=[1, 1, 2])
        return case


def gen_case(rng, long_ok=True):
    nm = rng.randint(1, 3)
    tick = rng.choice([1.0, 0.5, 0.25])
    cfg = {"simulation": {"markets": [], "agents": ["N", "H"], "sessions": []}}
    for i in range(nm):
        cfg["M%d" % i] = {"class": "Market", "tickSize": tick, "marketPrice": float(rng.randint(90, 110)),
                          "outstandingShares": rng.choice([1, 2, 3, 5]) * 100}
        cfg["simulation"]["markets"].append("M%d" % i)
    if nm >= 2 and rng.random() < 0.4:
        comps = ["M0", "M1"] if nm == 2 or rng.random() < 0.5 else ["M0", "M1", "M2"]
        cfg["IDX"] = {"class": "IndexMarket", "tickSize": tick, "marketPrice": 100.0, "outstandingShares": 100, "markets": comps}
        cfg["simulation"]["markets"].append("IDX")
    mk = list(cfg["simulation"]["markets"])
    cfg["N"] = {"class": "SAgent", "numAgents": rng.randint(1, 5), "markets": mk, "assetVolume": 50, "cashAmount": 10000}
    cfg["H"] = {"class": "HAgent", "numAgents": rng.randint(0, 2), "markets": mk, "assetVolume": 50, "cashAmount": 10000}
    ns = rng.choice([1, 2, 2, 3, 3, 4])
    total = 0
    nev = 0
    for s in range(ns):
        steps = rng.choice([1, 2, 3, 5, 8, 12]) if (rng.random() < 0.95 or not long_ok) else rng.randint(98, 125)
        ses = {"sessionName": s, "iterationSteps": steps, "withOrderPlacement": rng.random() < 0.85,
               "withOrderExecution": rng.random() < 0.7, "withPrint": False,
               "maxNormalOrders": rng.choice([0, 1, 2, 3, 5]), "maxHighFrequencyOrders": rng.choice([0, 1, 2]),
               "highFrequencySubmitRate": rng.choice([0.0, 0.5, 1.0]), "events": []}
        for k in range(rng.choice([0, 1, 1, 2, 3])):
            name = "EV%d_%d" % (s, k)
            kind = rng.choice(["probe", "probe", "fps", "oms", "plr", "thr"])
            tgt = rng.choice(mk[:nm])
            if kind == "probe":
                spec = []
                for _ in range(rng.randint(1, 3)):
                    ht = rng.choice(["order", "cancel", "execution", "session", "market"])
                    before = False if ht == "execution" else rng.random() < 0.5
                    times = None if rng.random() < 0.4 else [rng.randint(0, total + steps + 2) for _ in range(rng.randint(0, 4))]
                    inst, cls = None, None
                    if ht == "market" and rng.random() < 0.5:
                        inst = rng.randrange(len(mk))
                    if ht == "market" and rng.random() < 0.2:
                        cls = "index"
                    spec.append([ht, before, times, inst, cls])
                cfg[name] = {"class": "Probe", "spec": spec}
            elif kind == "fps":
                cfg[name] = {"class": "FundamentalPriceShock", "target": tgt, "triggerTime": rng.randint(0, steps),
                             "priceChangeRate": rng.choice([-0.5, -0.25, 0.25, 0.5]), "shockTimeLength": rng.randint(1, 3),
                             "enabled": rng.random() < 0.9}
            elif kind == "oms":
                cfg[name] = {"class": "OrderMistakeShock", "target": tgt, "triggerTime": rng.randint(0, steps),
                             "priceChangeRate": rng.choice([-0.25, -0.125, 0.125, 0.25]), "orderVolume": rng.randint(1, 20),
                             "orderTimeLength": rng.randint(1, 4), "enabled": rng.random() < 0.9}
            elif kind == "plr":
                cfg[name] = {"class": "PriceLimitRule", "targetMarkets": rng.sample(mk[:nm], rng.randint(1, nm)),
                             "triggerChangeRate": rng.choice([0.03125, 0.0625, 0.125])}
            elif kind == "thr":
                cfg[name] = {"class": "TradingHaltRule", "targetMarkets": rng.sample(mk[:nm], rng.randint(1, nm)),
                             "triggerChangeRate": rng.choice([0.0078125, 0.015625, 0.03125, 0.0625]), "haltingTimeLength": rng.randint(1, 4)}
            r2 = random.Random(repr(("inherit", name, steps, total, tgt)))     # its own stream: the base cases stay what they were
            if kind in ("fps", "oms") and r2.random() < 0.3:
                # the shock is configured through inheritance: a complete, enabled base entry and a child that overrides some of its
                # settings - falsy values (false, 0) included, which must win over the base's
                base = dict(cfg[name], enabled=True, triggerTime=max(1, cfg[name]["triggerTime"]))
                over = r2.choice([{"enabled": False}, {"triggerTime": 0}, {"enabled": False, "triggerTime": 0},
                                   {"priceChangeRate": cfg[name]["priceChangeRate"]}, {"enabled": cfg[name]["enabled"]}])
                cfg[name + "B"] = base
                cfg[name] = dict({"extends": name + "B"}, **over)
            ses["events"].append(name)
            nev += 1
        if nm >= 2 and rng.random() < 0.12:
            # two price limit rules with different targets and rates
            ms = rng.sample(mk[:nm], 2)
            for j, (tn, rt) in enumerate(zip(ms, rng.sample([0.03125, 0.0625, 0.125, 0.25], 2))):
                name = "PL%d_%d" % (s, j)
                cfg[name] = {"class": "PriceLimitRule", "targetMarkets": [tn], "triggerChangeRate": rt}
                if j == 1 and rng.random() < 0.3:
                    cfg[name]["enabled"] = False
                ses["events"].append(name)
        total += steps
        cfg["simulation"]["sessions"].append(ses)
    # one probe that sees every occasion, registered first
    cfg["ALL"] = {"class": "Probe", "spec": [["order", True, None, None, None], ["order", False, None, None, None],
                                             ["cancel", True, None, None, None], ["cancel", False, None, None, None],
                                             ["execution", False, None, None, None], ["session", True, None, None, None],
                                             ["session", False, None, None, None], ["market", True, None, None, None],
                                             ["market", False, None, None, None]]}
    cfg["simulation"]["sessions"][0]["events"].insert(0, "ALL")
    case = {"cfg": cfg, "seed": rng.randint(0, 2 ** 30), "aseed": rng.randint(0, 2 ** 30), "pmkt": rng.choice([0, 0.1, 0.3]),
            "batch_sizes": rng.choice([[0, 1, 1, 2, 3], [1, 1, 2], [0, 0, 1], [1, 2, 3, 4]]), "malformed": None}
    if rng.random() < 0.12:
        case["malformed"] = rng.choice(["spoof", "spoof", "resubmit", "cancel_unsubmitted"])
        case["malformed_at"] = rng.randint(0, max(0, total - 1))
        case["malformed_who"] = rng.choice([None, True, False])     # anybody / a high-frequency agent / a normal agent
    return case


# --------------------------------------------------------------------------------------
# case -> Coq term
# --------------------------------------------------------------------------------------
HK = {"order": "HOrder", "cancel": "HCancel", "execution": "HExec", "session": "HSession", "market": "HMarket"}


def zl(l):
    return "[" + "; ".join(zlit(x) for x in l) + "]"


def config_term(case, res):
    cfg = case["cfg"]
    name2id = {}
    for row, name in zip(res["markets"], cfg["simulation"]["markets"]):
        name2id[name] = row[0]
    ms = "[" + "; ".join(f"mkMC {zlit(i)} {qlit(tk)} {qlit(mp)} {'None' if comps is None else '(Some ' + zl(comps) + ')'} {zlit(sh or 0)}"
                         for i, tk, mp, comps, sh in res["markets"]) + "]"
    ags = "[" + "; ".join(f"mkAC {zlit(i)} {blit(h)} {qlit(c)} [" + "; ".join(f"({zlit(k)}, {zlit(v)})" for k, v in av) + "]"
                          for i, h, c, av in res["init"]) + "]"
    ss = "[" + "; ".join(f"mkSC {zlit(i)} {zlit(st)} {blit(pl)} {blit(ex)} {zlit(mn)} {zlit(mh)} {qlit(rt)}"
                         for i, st, pl, ex, mn, mh, rt in res["sessions"]) + "]"
    evs = []
    eid = 0
    for sid, ses in enumerate(cfg["simulation"]["sessions"]):
        for name in ses.get("events", []):
            e = resolved_entry(cfg, name)
            cls = e["class"]
            en = bool(e.get("enabled", True))
            if cls == "Probe":
                hs = []
                for ht, before, times, inst, kls in e["spec"]:
                    hs.append(f"mkHS {HK[ht]} {blit(before)} {'None' if times is None else '(Some ' + zl(times) + ')'} "
                              f"{ozlit(inst)} {blit(kls == 'index')}")
                kind = "KProbe [" + "; ".join(hs) + "]"
                en = True
            elif cls == "FundamentalPriceShock":
                kind = f"KFundShock {zlit(name2id[e['target']])} {zlit(e['triggerTime'])} {zlit(e.get('shockTimeLength', 1))} {qlit(e['priceChangeRate'])}"
            elif cls == "OrderMistakeShock":
                kind = (f"KMistake {zlit(name2id[e['target']])} {zlit(e['triggerTime'])} {qlit(e['priceChangeRate'])} "
                        f"{zlit(e['orderVolume'])} {zlit(e['orderTimeLength'])}")
            elif cls == "PriceLimitRule":
                kind = f"KPriceLimit {zl([name2id[x] for x in e['targetMarkets']])} {qlit(e['triggerChangeRate'])}"
            elif cls == "TradingHaltRule":
                kind = f"KHalt {zl([name2id[x] for x in e['targetMarkets']])} {qlit(e['triggerChangeRate'])} {zlit(e['haltingTimeLength'])}"
            else:
                raise ValueError(cls)
            evs.append(f"mkEC {eid} {sid} {blit(en)} ({kind})")
            eid += 1
    return f"(mkCfg {ms} {ags} {ss} [" + "; ".join(evs) + "])"


def tape_term(res):
    out = []
    for k, v in res["tape"]:
        if k == "perm":
            out.append("TPerm [" + "; ".join(f"{i}%nat" for i in v) + "]")
        elif k == "draw":
            out.append(f"TDraw {qlit(v)}")
        else:
            raise ValueError("unexpected runner decision " + k)
    return "[" + "; ".join(out) + "]"


def batches_term(res):
    rows = []
    for aid, snap in res["batches"]:
        rs = []
        for x in snap:
            if x[0] == "new":
                _, tag, ag, mk, buy, px, vol, ttl = x
                rs.append(f"RNew {zlit(tag)} {zlit(ag)} {zlit(mk)} {blit(buy)} {oqlit(px)} {zlit(vol)} {ozlit(ttl)}")
            else:
                _, tag, ag, mk = x
                rs.append(f"RCancel {zlit(tag)} {zlit(ag)} {zlit(mk)}")
        rows.append(f"({zlit(aid)}, [" + "; ".join(rs) + "])")
    return "[" + "; ".join(rows) + "]"


def funds_term(res):
    return "[" + "; ".join(f"({zlit(k[0])}, {zlit(k[1])}, {qlit(v)})" for k, v in sorted(res["funds"].items())) + "]"


def case_term(case, res):
    inp = f"({config_term(case, res)}, {tape_term(res)}, {batches_term(res)}, {funds_term(res)})"
    return f"({inp}, {ov_lit(res['events'])})", inp, res["events"]


# --------------------------------------------------------------------------------------
# Suite interface
# --------------------------------------------------------------------------------------
TAG_OWNERS = {1: ["C09"], 2: ["C13"], 5: ["C11", "C05"], 9: None}


class SuiteS(engine.Suite):
    name = "S"
    imports = "Require Import Pams.Prelude Pams.Match Pams.Market Pams.Sim."
    runner = "run_case_s"
    shard = 2

    SIZES = {"quick": 70, "thorough": 1500, "search": 30}

    def generate(self, seed, tier):
        n = self.SIZES.get(tier, 70)
        rng = random.Random(("S", seed, tier).__repr__())
        cases = []
        if tier != "search":
            cdir = os.path.join(os.path.dirname(os.path.dirname(os.path.abspath(__file__))), "corpus", "S")
            if os.path.isdir(cdir):
                for f in sorted(os.listdir(cdir)):
                    if f.endswith(".json"):
                        cases.append(json.load(open(os.path.join(cdir, f))))
        if tier != "search":
            for kind in ("spoof", "resubmit", "cancel_unsubmitted"):
                for who in (True, False):
                    cases.append(gen_malformed(rng, kind, who))
        for i in range(n):
            if i % 6 == 5:
                cases.append(gen_halts(rng))
            else:
                cases.append(gen_case(rng, long_ok=(tier != "quick" or i % 10 == 0)))
        return cases

    def run_impl(self, case):
        return run_case(case)

    def coq_term(self, case, res):
        if res["setup_error"]:
            return None
        return case_term(case, res)

    def owners(self, case, res, path, exp, model):
        if not path:
            return None
        k = path[0]
        ev = exp[k] if k < len(exp) else (model[k] if k < len(model) else None)
        if not isinstance(ev, list) or not ev:
            return None
        tag = ev[0]
        if tag == 3:
            kind = ev[1] if len(ev) > 1 else None
            if kind in (1,):
                return ["C10", "C04", "C14", "C15", "C19"]
            if kind in (2, 4):
                return ["C10", "C04"]
            if kind == 3:
                return ["C10", "C01", "C02", "C09", "C16"]
            if kind in (5, 6, 7, 8):
                return ["C10", "C06"]
            if kind in (9, 10):
                sub = path[2] if len(path) > 2 else None
                if sub in (2, 3, 4):
                    return ["C06", "C10"]
                if sub in (5, 6):
                    return ["C09", "C16"]
                if sub == 7:
                    return ["C08"]
                if sub == 8:
                    return ["C14", "C17", "C12"]
                if sub == 9:
                    return ["C17"]
                if sub == 10:
                    return ["C05"]
                return ["C10", "C06", "C09", "C16"]
        return TAG_OWNERS.get(tag)

    def monitors(self):
        import monitors_s
        return monitors_s.MONITORS

    def nontrivial_key(self, case, res):
        if res["setup_error"]:
            return None
        nf = sum(1 for e in res["events"] if e[0] == 3 and e[1] == 3)
        if nf == 0:
            return None
        return hash(json.dumps(case, sort_keys=True, default=str))

    def describe(self, case, res):
        return {"cfg": case["cfg"], "seed": case["seed"], "aseed": case["aseed"], "n_events": len(res.get("events", [])),
                "first_events": res.get("events", [])[:12]}

    def stats(self, cases, results):
        tags = collections.Counter()
        errs = collections.Counter()
        evk = collections.Counter()
        chunk = 0
        for c, r in zip(cases, results):
            if r["setup_error"]:
                errs["setup"] += 1
                continue
            if r["error"]:
                errs[str(r["error"].code)] += 1
            for e in r["events"]:
                tags[f"{e[0]}:{e[1]}" if e[0] == 3 else str(e[0])] += 1
            for ses in c["cfg"]["simulation"]["sessions"]:
                for n in ses.get("events", []):
                    evk[resolved_entry(c["cfg"], n)["class"]] += 1
            if sum(s["iterationSteps"] for s in c["cfg"]["simulation"]["sessions"]) > 100:
                chunk += 1
        return {"key_rule": "distinct cases with at least one fill", "event_histogram": dict(tags), "run_errors": dict(errs),
                "configured_events": dict(evk), "runs_longer_than_100_steps": chunk}

    def shrink(self, case, still_fails):
        """drop sessions' events / whole events / agents while the violation persists"""
        cur = copy.deepcopy(case)
        try:
            if not still_fails(cur):
                return case
        except Exception:  # noqa
            return case
        for si, ses in enumerate(case["cfg"]["simulation"]["sessions"]):
            for name in list(ses.get("events", [])):
                if name == "ALL":
                    continue
                cand = copy.deepcopy(cur)
                try:
                    cand["cfg"]["simulation"]["sessions"][si]["events"].remove(name)
                    if still_fails(cand):
                        cur = cand
                except Exception:  # noqa
                    pass
        return cur
