#!/bin/bash
# usage: seed_confirm.sh <worktree> <seed_dir>   - confirms a seeded change in a scratch worktree:
#   patch applies; demo passes without, fails with; test suite (minus always-failing test_all) passes with it
wt=$1; sd=$2
cd $wt || exit 2
git checkout -q -- . ; git status --short | grep -v seeded_out | head -3
export PYTHONPATH=$wt PYTHONDONTWRITEBYTECODE=1
/venv/bin/python $sd/demo.py >/dev/null 2>&1; a=$?
git apply $sd/patch.diff || { echo "APPLY-FAILED"; exit 2; }
/venv/bin/python $sd/demo.py >/dev/null 2>&1; b=$?
t=$(/venv/bin/python -m pytest -q -p no:cacheprovider --timeout=900 -x tests --deselect tests/samples/test_all.py::test_all 2>&1 | tail -1)
git checkout -q -- .
echo "demo_without=$a demo_with=$b tests: $t"
