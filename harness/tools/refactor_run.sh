#!/bin/bash
# usage: refactor_run.sh <scratch worktree> <patch.diff> [props...]
# applies a (supposedly behaviour-preserving) patch in a scratch worktree and runs the quick checks against it (PAMS_REPO)
wt=$1; patch=$2; shift 2
props=${@:-C01 C02 C03 C04 C05 C06 C07 C08 C09 C10 C11 C12 C13 C14 C15 C16 C17 C18 C19 C20}
git -C $wt checkout -q -- . ; git -C $wt apply $patch || { echo "APPLY-FAILED $patch"; exit 2; }
for p in $props; do
  V=$(cd "$(dirname "$0")/../.." && pwd)
  out=$(PAMS_REPO=$wt $V/check $p quick 2>&1 | grep -v "^WARNING" | grep "^\[\|^VIOLATION\|Traceback\|Error" | tail -3 | tr '\n' ' ')
  echo "$p: $out" | cut -c1-330
done
git -C $wt checkout -q -- .
