#!/bin/bash
# usage: seed_collect.sh <pid>  - copies /tmp/wt/<pid>/seeded_out/<pid>_k to /verif/seeded/<pid>_<next free index>, after
# confirming each in the scratch worktree (patch applies; demo passes without / fails with; test suite passes with it)
pid=$1; wt=/tmp/wt/$pid
for d in $wt/seeded_out/${pid}_*; do
  [ -f $d/patch.diff ] || continue
  out=$(bash /verif/harness/tools/seed_confirm.sh $wt $d 2>&1 | tail -1)
  echo "$d: $out"
  case "$out" in
    *"demo_without=0 demo_with=1 tests: 681 passed"*) ;;
    *) echo "  NOT CONFIRMED - skipped"; continue;;
  esac
  n=1; while [ -e /verif/seeded/${pid}_$n ]; do n=$((n+1)); done
  mkdir -p /verif/seeded/${pid}_$n
  cp $d/patch.diff $d/demo.py $d/meta.json /verif/seeded/${pid}_$n/
  echo "  -> /verif/seeded/${pid}_$n"
done
