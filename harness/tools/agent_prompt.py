"""prints the prompt handed to a fresh sub-agent for seeding a property-breaking change"""
import json, sys
pid = sys.argv[1]
n = sys.argv[2] if len(sys.argv) > 2 else "2"
for l in open('/verif/properties.jsonl'):
    p = json.loads(l)
    if p['id'] == pid:
        break
wt = f"/tmp/wt/{pid}"
print(f"""You are testing how well a verification effort can detect subtle regressions in the Python library `pams` (an agent-based artificial market simulator: limit order book matching engine, sessions, events, fundamental prices). You have your own scratch git worktree of the repository at {wt} (work ONLY inside it; never touch /repo or /verif, and do not read anything under /verif).

The semantic property under study:

TITLE: {p['title']}
STATEMENT: {p['statement']}
QUANTIFIED OVER: {p['quantifier']['text']}

Your task: produce {n} DIFFERENT, independent source changes to the library (files under {wt}/pams) each of which BREAKS this property while the code still imports and the existing test suite still passes. Prefer changes that need something specific to manifest - a multi-step sequence of operations, an unusual input, a particular configuration, a particular interleaving/ordering, or two cooperating sites that each look fine alone - NOT changes that ordinary use would expose at once (and not ones that crash every run). They should look like plausible developer mistakes/refactors (off-by-one, wrong comparison, dropped re-heapify, stale cache, wrong variable, condition too narrow/wide, ...).

How to work:
- Read the relevant code under {wt}/pams first.
- Run the tests with:  cd {wt} && PYTHONPATH={wt} PYTHONDONTWRITEBYTECODE=1 /venv/bin/python -m pytest -q -p no:cacheprovider --timeout=900 -x -q tests 2>&1 | tail -5
  On the unmodified tree exactly one test fails (tests/samples/test_all.py::test_all - always fails, ignore it; you can deselect it with --deselect tests/samples/test_all.py::test_all). Every other test must still pass with each of your changes applied (each change is tested alone, on top of the unmodified tree).
- Check `PYTHONPATH={wt} /venv/bin/python -c "import pams; print(pams.__file__)"` prints a path inside {wt}.
- For each change k (1..{n}) write into {wt}/seeded_out/{pid}_k/ :
    patch.diff   - `git diff` of ONLY that change against the unmodified tree (must apply with `git apply` at the repository root);
    demo.py      - a small standalone program (run as `PYTHONPATH=<tree> /venv/bin/python demo.py`) that exercises the public/underscore API the way the repository's own tests do, exits 0 and prints PASS on the unmodified tree, and exits 1 printing FAIL plus what was observed on the changed tree. It must demonstrate a violation of the property as stated above (not merely a difference in behaviour);
    meta.json    - {{"property": "{pid}", "summary": "...what the change does...", "needs": "...what specific input/sequence/configuration is needed for it to manifest...", "files": [...]}}
- After writing each patch, `git checkout -- .` to restore the tree before starting the next change; verify each patch applies cleanly to the clean tree, that the test suite passes with it, that demo.py FAILS with it and PASSES without it. Leave the worktree clean (only seeded_out/ untracked) at the end.
- No network access exists. Do not install anything.

Finish by replying with a short list: for each change, its directory, one-line summary, and the confirmation results (tests passed? demo fails with / passes without?).""")
