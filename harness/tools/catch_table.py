"""Regenerate the seeded-change table of DESIGN.md (section E) from seeded/*/meta.json (`runs.quick`)."""
import glob, json, os, re
ROOT = os.path.dirname(os.path.dirname(os.path.dirname(os.path.abspath(__file__))))
rows = []
for mp in sorted(glob.glob(os.path.join(ROOT, "seeded", "*", "meta.json"))):
    sid = os.path.basename(os.path.dirname(mp))
    m = json.load(open(mp))
    what = (m.get("summary") or m.get("description") or m.get("what") or "").replace("|", "/").replace("\n", " ")[:110]
    q = (m.get("runs") or {}).get("quick") or {}
    res = []
    for prop, r in sorted(q.items()):
        lines = r.get("lines") or []
        vio = [l for l in lines if l.startswith("VIOLATION")]
        if r.get("exit") == 0 and not vio:
            res.append(f"{prop}: MISSED (exit 0)")
        elif vio:
            rp = re.search(r"replay=(\S+)", vio[0])
            name = os.path.basename(rp.group(1))[:-5] if rp else "?"
            if "no-failing-input-found" in vio[0]:
                res.append(f"alarm, no-failing-input-found ({name})")
            else:
                res.append(f"violation with replay ({name})")
        else:
            res.append(f"{prop}: exit {r.get('exit')} without VIOLATION line")
    rows.append(f"| {sid} | {what} | {'; '.join(res) or 'not run'} |")
table = "| seeded change | what it does | result of `./check <property> quick` at the time it was last run |\n|---|---|---|\n" + "\n".join(rows) + "\n"
dp = os.path.join(ROOT, "DESIGN.md")
s = open(dp).read()
a = s.index("| seeded change | what it does |")
b = s.index("\n## F.", a)
keep = s.find("\n**Harmless changes.**", a, b)       # the paragraph after the table is kept
s = s[:a] + table + (s[keep:b] if keep >= 0 else "") + s[b:]
open(dp, "w").write(s)
print(len(rows), "rows")
