"""apply each seeded change to /repo, run the checks of its property, undo, record what happened.
usage: seed_run.py [ids...] [--props C01,C02] [--tier quick]"""
import json, os, subprocess, sys, time
V = os.path.dirname(os.path.dirname(os.path.dirname(os.path.abspath(__file__))))
REPO = os.environ.get("PAMS_REPO", "/repo")
args = [a for a in sys.argv[1:] if not a.startswith("--")]
opts = dict(a[2:].split("=", 1) for a in sys.argv[1:] if a.startswith("--") and "=" in a)
ids = args or sorted(os.listdir(f"{V}/seeded"))
tier = opts.get("tier", "quick")
for sid in ids:
    d = f"{V}/seeded/{sid}"
    if not os.path.exists(f"{d}/patch.diff"):
        continue
    meta = json.load(open(f"{d}/meta.json"))
    props = opts.get("props", meta["property"]).split(",")
    assert subprocess.run(f"git -C {REPO} status --porcelain", shell=True, capture_output=True, text=True).stdout.strip() == "", "repo not clean"
    r = subprocess.run(["git", "-C", REPO, "apply", f"{d}/patch.diff"])
    res = {}
    try:
        if r.returncode != 0:
            print(sid, "patch does not apply"); continue
        for p in props:
            t = time.time()
            out = subprocess.run([f"{V}/check", p, tier], cwd=V, capture_output=True, text=True, timeout=3600)
            lines = [l for l in out.stdout.splitlines() if l.startswith("VIOLATION") or l.startswith("[")]
            res[p] = {"exit": out.returncode, "lines": lines[-4:], "wall": round(time.time() - t, 1)}
            print(sid, p, "exit", out.returncode, "|", " ; ".join(lines[-3:])[:300], flush=True)
    finally:
        subprocess.run(f"git -C {REPO} checkout -- . && git -C {REPO} status --porcelain", shell=True)
    meta.setdefault("runs", {})[tier] = res
    meta["confirmed"] = meta.get("confirmed") or "patch applies; demo.py exits 0 without / 1 with the patch; 681 tests pass with it (harness/tools/seed_confirm.sh in a scratch worktree)"
    json.dump(meta, open(f"{d}/meta.json", "w"), indent=1)
