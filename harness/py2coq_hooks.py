"""Tie (a), eighth translator: the hook table of pams.simulator.Simulator - registration (the tail of _add_event) and dispatch (the nine
_trigger_event_* methods) -> Gallina over the insertion-ordered dict `time -> list of hooks` of coq/theories/HooksPy.v.  Fail-closed.

Registration (Simulator._add_event): the statements that do not mention `events_dict` manage other registries (the list of events, the
id / name lookups, the duplicate-hook check) and are not part of this unit; the ones that do must be, in this order:
    N : str = event_hook.hook_type + ('_before' if event_hook.is_before else '_after')          the name of the table
    T : List[Optional[int]] = cast(.., event_hook.time) if event_hook.time is not None else cast(.., [None])
    for t in T:
        if t not in self.events_dict[N]: self.events_dict[N][t] = []
        if event_hook not in self.events_dict[N][t]: self.events_dict[N][t].append(event_hook)
What is read from them: the two branches of the name, which list is walked when no time is given, and the two guarded statements of
the loop body (create the slot with a FRESH empty list when missing; append when not already there), in source order.

Dispatch (each _trigger_event_<before|after>_<kind>):
    time: int = <expression>                       (recorded as text; arithmetic over attributes of the parameter)
    H = self.events_dict["<kind>_<before|after>"]
    L : List[EventHook] = []
    if None in H: L.extend(H[None])
    if time in H: L.extend(H[time])                (the two guarded extends, in source order)
    for h in L: [if self._check_event_class_and_instance(..): ] h.event.hooked_<..>(simulator=self, ..)
The generated dispatch function is the concatenation in source order."""
import ast
import os
import sys

import pynorm
from py2coq_arith import Unsupported

TRIGGERS = {  # method -> (table name, handler, expected time expression)
    "_trigger_event_before_order": ("order_before", "hooked_before_order", "self.id2market[order.market_id].get_time()"),
    "_trigger_event_after_order": ("order_after", "hooked_after_order", "order_log.time"),
    "_trigger_event_before_cancel": ("cancel_before", "hooked_before_cancel", "self.id2market[cancel.market_id].get_time()"),
    "_trigger_event_after_cancel": ("cancel_after", "hooked_after_cancel", "cancel_log.cancel_time"),
    "_trigger_event_after_execution": ("execution_after", "hooked_after_execution", "execution_log.time"),
    "_trigger_event_before_session": ("session_before", "hooked_before_session", "session.session_start_time"),
    "_trigger_event_after_session": ("session_after", "hooked_after_session", "session.session_start_time + session.iteration_steps - 1"),
    "_trigger_event_before_step_for_market": ("market_before", "hooked_before_step_for_market", "market.get_time()"),
    "_trigger_event_after_step_for_market": ("market_after", "hooked_after_step_for_market", "market.get_time()"),
}


def _cls(repo):
    mod = ast.parse(open(os.path.join(repo, "pams/simulator.py")).read())
    cs = [n for n in mod.body if isinstance(n, ast.ClassDef) and n.name == "Simulator"]
    if len(cs) != 1:
        raise Unsupported("class Simulator not found exactly once")
    return cs[0]


def _fn(cls, name):
    fs = [n for n in cls.body if isinstance(n, ast.FunctionDef) and n.name == name]
    if len(fs) != 1 or fs[0].decorator_list:
        raise Unsupported(f"method {name} not found exactly once (undecorated)")
    return fs[0]


def _nodoc(body):
    return [s for s in body if not (isinstance(s, ast.Expr) and isinstance(s.value, ast.Constant) and isinstance(s.value.value, str))]


def _tname(s):
    t = s.targets[0] if isinstance(s, ast.Assign) and len(s.targets) == 1 else getattr(s, "target", None)
    if not isinstance(t, ast.Name) or s.value is None:
        raise Unsupported("assignment " + ast.unparse(s)[:80])
    return t.id


def registration(cls):
    fn = _fn(cls, "_add_event")
    if [a.arg for a in fn.args.args] != ["self", "event_hook"]:
        raise Unsupported("signature of _add_event")
    # harmless rewrites of the tail (a named suffix, if/else instead of a conditional expression, table lookups bound to locals)
    body0 = _nodoc(fn.body)
    keep = {n.slice.id for q in body0 for n in ast.walk(q) if isinstance(n, ast.Subscript) and ast.unparse(n.value) == "self.events_dict"
            and isinstance(n.slice, ast.Name)}
    keep |= {q.iter.id for q in body0 if isinstance(q, ast.For) and isinstance(q.iter, ast.Name)}
    body0 = pynorm.ref_aliases(pynorm.aliases(pynorm.merge_branches(body0), keep=tuple(keep)))
    mine = [s for s in body0 if "events_dict" in ast.unparse(s) or
            (isinstance(s, (ast.Assign, ast.AnnAssign)) and isinstance(getattr(s, "target", None) or s.targets[0], ast.Name)
             and any(k in ast.unparse(s) for k in ("hook_type", "event_hook.time")))]
    if len(mine) != 3:
        raise Unsupported(f"{len(mine)} statements of _add_event concern the table where 3 are expected")
    s_n, s_t, s_f = mine
    if body0[-3:] != mine:
        raise Unsupported("the table statements are not the last three of _add_event")
    N = _tname(s_n)
    if ast.unparse(s_n.value) != "event_hook.hook_type + ('_before' if event_hook.is_before else '_after')":
        raise Unsupported("table name: " + ast.unparse(s_n.value))
    T = _tname(s_t)
    v = s_t.value
    if isinstance(v, ast.IfExp) and ast.unparse(v.test) == "event_hook.time is None":        # the same choice, written the other way round
        v = ast.IfExp(test=ast.parse("event_hook.time is not None", mode="eval").body, body=v.orelse, orelse=v.body)
    if not (isinstance(v, ast.IfExp) and ast.unparse(v.test) == "event_hook.time is not None"):
        raise Unsupported("times: " + ast.unparse(v)[:100])

    def uncast(e):
        return e.args[1] if isinstance(e, ast.Call) and isinstance(e.func, ast.Name) and e.func.id == "cast" and len(e.args) == 2 else e
    given, absent = ast.unparse(uncast(v.body)), ast.unparse(uncast(v.orelse))
    if given != "event_hook.time" or absent != "[None]":
        raise Unsupported(f"times: {given} / {absent}")
    if not (isinstance(s_f, ast.For) and isinstance(s_f.target, ast.Name) and isinstance(s_f.iter, ast.Name) and s_f.iter.id == T
            and not s_f.orelse):
        raise Unsupported("loop header " + ast.unparse(s_f)[:60])
    t = s_f.target.id
    slot = f"self.events_dict[{N}][{t}]"
    steps = []
    for s in s_f.body:
        if not (isinstance(s, ast.If) and not s.orelse and len(s.body) == 1):
            raise Unsupported("loop statement " + ast.unparse(s)[:80])
        c, b = ast.unparse(s.test), ast.unparse(s.body[0])
        if c == f"{t} not in self.events_dict[{N}]" and b == f"{slot} = []":
            steps.append("let tbl := if negb (thas time_ tbl) then tset time_ [] tbl else tbl in")
        elif c == f"event_hook not in {slot}" and b == f"{slot}.append(event_hook)":
            steps.append("let tbl := if negb (memz hook (tslot time_ tbl)) then tset time_ (tslot time_ tbl ++ [hook]) tbl else tbl in")
        else:
            raise Unsupported(f"loop statement: if {c}: {b}")
    if len(steps) != 2:
        raise Unsupported("loop body")
    return ("(* pams/simulator.py: Simulator._add_event - the registration of one hook into its table *)\n"
            "Definition reg_times_gen (times : option (list Z)) : list (option Z) :=\n"
            "  match times with Some l => map Some l | None => [None] end.\n"
            "Definition reg_step_gen (hook : Z) (tbl : etable) (time_ : option Z) : etable :=\n  "
            + "\n  ".join(steps) + "\n  tbl.\n"
            "Definition reg_gen (tbl : etable) (hook : Z) (times : option (list Z)) : etable :=\n"
            "  fold_left (reg_step_gen hook) (reg_times_gen times) tbl.\n")


def dispatch(cls, name):
    table, handler, time_text = TRIGGERS[name]
    fn = _fn(cls, name)
    if len(fn.args.args) != 2 or fn.args.vararg or fn.args.kwarg or fn.args.kwonlyargs or fn.args.defaults:
        raise Unsupported("signature of " + name)
    body = pynorm.normalise(fn, cls, returns_none=True, only_inlining=True)
    if len(body) != 6:
        raise Unsupported(f"{name}: {len(body)} statements where 6 are expected")
    s_time, s_h, s_l, c1, c2, s_for = body
    tv = _tname(s_time)
    if ast.unparse(s_time.value) != time_text:
        raise Unsupported(f"{name}: time is {ast.unparse(s_time.value)}")
    H = _tname(s_h)
    if ast.unparse(s_h.value) != f"self.events_dict[{table!r}]":
        raise Unsupported(f"{name}: table is {ast.unparse(s_h.value)}")
    L = _tname(s_l)
    if ast.unparse(s_l.value) != "[]":
        raise Unsupported(f"{name}: the list starts as {ast.unparse(s_l.value)}")
    parts = []
    for c in (c1, c2):
        if not (isinstance(c, ast.If) and not c.orelse and len(c.body) == 1):
            raise Unsupported(f"{name}: " + ast.unparse(c)[:80])
        t, b = ast.unparse(c.test), ast.unparse(c.body[0])
        if t == f"None in {H}" and b == f"{L}.extend({H}[None])":
            parts.append("tsel None tbl")
        elif t == f"{tv} in {H}" and b == f"{L}.extend({H}[{tv}])":
            parts.append("tsel (Some time) tbl")
        else:
            raise Unsupported(f"{name}: if {t}: {b}")
    if sorted(parts) != ["tsel (Some time) tbl", "tsel None tbl"]:
        raise Unsupported(f"{name}: the two selections")
    if not (isinstance(s_for, ast.For) and isinstance(s_for.iter, ast.Name) and s_for.iter.id == L and not s_for.orelse
            and isinstance(s_for.target, ast.Name) and len(s_for.body) == 1):
        raise Unsupported(f"{name}: loop")
    hv = s_for.target.id
    call = s_for.body[0]
    filtered = False
    if isinstance(call, ast.If):
        if (call.orelse or len(call.body) != 1 or not ast.unparse(call.test).startswith("self._check_event_class_and_instance(")
                or table not in ("market_before", "market_after")):
            raise Unsupported(f"{name}: guard of the call")
        filtered = True
        call = call.body[0]
    if not (isinstance(call, ast.Expr) and isinstance(call.value, ast.Call)
            and ast.unparse(call.value.func) == f"{hv}.event.{handler}"):
        raise Unsupported(f"{name}: the call is {ast.unparse(call)[:80]}")
    short = name.replace("_trigger_event_", "")
    return (f"(* Simulator.{name}: table {table!r}, handler {handler}{', filtered by class / instance' if filtered else ''} *)\n"
            f"Definition disp_{short}_gen (tbl : etable) (time : Z) : list Z := {' ++ '.join(parts)}.\n")


def translate(repo):
    cls = _cls(repo)
    out = ["(* GENERATED by harness/py2coq_hooks.py - do not edit *)",
           "Require Import Pams.Prelude Pams.Match Pams.Market Pams.OrderPy Pams.HooksPy.", "Open Scope Z_scope.", "", registration(cls)]
    for name in TRIGGERS:
        out.append(dispatch(cls, name))
    return "\n".join(out)


if __name__ == "__main__":
    sys.stdout.write(translate(os.environ.get("PAMS_REPO", "/repo")))
