import random, sys, time, collections, warnings
warnings.filterwarnings("ignore")
sys.path.insert(0,'/verif/harness')
from common import *
import suite_a
su=suite_a.SuiteA()
cases=su.generate(int(sys.argv[1]) if len(sys.argv)>1 else 0,"quick")
t=time.time()
res=[su.run_impl(c) for c in cases]
print("impl",round(time.time()-t,2), "errors", collections.Counter([(r.get("setup_error") or r.get("error") or "")[:80] for r in res]).most_common(5))
cnt=collections.Counter()
for i,(c,r) in enumerate(zip(cases,res)):
    for v in suite_a.mon_C20(c,r):
        cnt[v["rule"]]+=1
        if cnt[v["rule"]]<=2: print("MON",i,v["rule"],v["at"],str(ov_json(v["detail"]))[:300])
print(cnt)
terms=[];idx=[]
for i,(c,r) in enumerate(zip(cases,res)):
    ct=su.coq_term(c,r)
    if ct: terms.append(ct); idx.append(i)
print("modelled",len(terms),"of",len(cases),"bytes",sum(len(t[0]) for t in terms))
t=time.time()
n,mism,logs=run_coq_cases("f",su.imports,su.runner,[t[0] for t in terms],shard=40)
print("coq",round(time.time()-t,1),n,mism[:10],[l[-500:] for l in logs[:1]])
for k in mism[:3]:
    i=idx[k]; term,inp,exp=terms[k]
    out=eval_coq_term(su.imports,f"run_case_a {inp}")
    model=parse_ov(out)
    d=first_diff(exp,model)
    print(i,cases[i]["kind"],"diff",d,"exp",ov_json(exp),"model",ov_json(model))
