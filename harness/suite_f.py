"""Suite F (C12): the real pams.fundamentals.Fundamentals (+ Market.change_fundamental_price) next to coq/theories/Fund.v.
A case is a list of markets (initial, drift, volatility), correlations and an operation script over clock steps.
What every generation round produces is recorded (wrapping _generate_next) and handed to the model as its tape; the numeric
law of a round (new = last kept x exp(cumsum(log-returns)), log-returns = L z + drift with L L^T = vol C vol) is checked
here numerically (algebraic probe with a stub NumPy generator)."""
import collections
import json
import math
import random
import warnings
from fractions import Fraction

import engine
from common import E, A, ov_lit, qlit, zlit


def V(rule, at, **detail):
    return {"rule": rule, "at": at, "detail": detail}


def _pd(n, corr):
    import numpy as np
    c = np.eye(n)
    for k, v in corr.items():
        i, j = tuple(k)
        c[i, j] = c[j, i] = v
    return bool(np.all(np.linalg.eigvalsh(c) > 0.05))


def gen_case(rng):
    n = rng.randint(1, 4)
    markets = []
    for i in range(n):
        vol = rng.choice([0.0, 0.0, 0.001, 0.01, 0.05])
        markets.append({"id": i, "initial": float(rng.choice([100, 300, 1000])), "drift": rng.choice([0.0, 0.0, 0.0001, -0.0002]),
                        "vol": vol})
    corr = []
    cur = {}
    for i in range(n):
        for j in range(i + 1, n):
            if rng.random() < 0.4:
                c = rng.choice([-0.5, -0.3, 0.2, 0.5, 0.8])
                if _pd(n, {**cur, frozenset((i, j)): c}):      # admissible correlation matrices only
                    cur[frozenset((i, j))] = c
                    corr.append([i, j, c])
    ops = []
    T = rng.choice([5, 20, 20, 60, 110, 210])
    t = 0
    while t < T:
        r = rng.random()
        if r < 0.70:
            ops.append(["tick"])
            t += 1
        elif r < 0.76:
            ops.append(["vol", rng.randrange(n), rng.choice([0.0, 0.002, 0.02, 0.05])])
        elif r < 0.81:
            ops.append(["drift", rng.randrange(n), rng.choice([0.0, 0.0005, -0.0005])])
        elif r < 0.87 and n >= 2:
            i, j = rng.sample(range(n), 2)
            c = rng.choice([-0.6, -0.3, 0.3, 0.6, 0.9])
            if _pd(n, {**cur, frozenset((i, j)): c}):
                cur[frozenset((i, j))] = c
                ops.append(["corr", i, j, c])
        elif r < 0.90 and n >= 2:
            i, j = rng.sample(range(n), 2)
            # removing a correlation can also leave an inadmissible matrix: only scripts whose every state is admissible
            if frozenset((i, j)) in cur and _pd(n, {k: v for k, v in cur.items() if k != frozenset((i, j))}):
                cur.pop(frozenset((i, j)))
                ops.append(["uncorr", i, j])
        elif r < 0.96:
            ops.append(["shock", rng.randrange(n), rng.choice([0.5, 2.0, 4.0, 0.25])])
        else:
            ops.append(["peek", rng.randrange(n), rng.choice([1, 50, 101, 150])])      # read ahead of the clock
        if rng.random() < 0.04:
            ops.append(["read"])
    ops.append(["read"])
    return {"markets": markets, "corr": corr, "ops": ops, "seed": rng.randint(0, 2 ** 30)}


class StubNp:
    def __init__(self, mats):
        self.mats = mats

    def standard_normal(self, size):
        import numpy as np
        k, length = size
        m = np.zeros((k, length))
        for j in range(min(k, length - 1)):
            m[j, j + 1] = 1.0
        return m


def probe(f, ids):
    """returns (drift vector seen, applied matrix M) of _generate_log_return for the current parameters"""
    import numpy as np
    chol_ids = [x for x in ids if f.volatilities[x] != 0.0]
    real = f._np_prng
    f._np_prng = StubNp(None)
    try:
        out = f._generate_log_return(generate_target_ids=list(ids), length=len(chol_ids) + 1)
    finally:
        f._np_prng = real
    d = out[:, 0]
    M = np.zeros((len(ids), len(chol_ids)))
    for j in range(len(chol_ids)):
        M[:, j] = out[:, j + 1] - d
    return d, M, chol_ids


def run_case(case):
    warnings.filterwarnings("ignore")
    import numpy as np
    from pams.simulator import Simulator
    from pams.market import Market
    sim = Simulator(prng=random.Random(case["seed"]))
    f = sim.fundamentals
    mk = {}
    for m in case["markets"]:
        x = Market(market_id=m["id"], prng=random.Random(1), simulator=sim, name=f"m{m['id']}")
        x.setup({"tickSize": 1.0, "marketPrice": m["initial"]})
        sim._add_market(x)
        f.add_market(market_id=m["id"], initial=m["initial"], drift=m["drift"], volatility=m["vol"])
        mk[m["id"]] = x
    for i, j, c in case["corr"]:
        f.set_correlation(i, j, c)
    ids = [m["id"] for m in case["markets"]]
    segments = []
    seg_meta = []
    lr_checks = []
    gen0 = f._generate_next
    glr0 = f._generate_log_return

    def gen():
        until = f._generated_until
        last = {i: f.prices[i][until] for i in ids}
        rec = {}

        def glr(generate_target_ids, length):
            out = glr0(generate_target_ids=generate_target_ids, length=length)
            rec["lr"] = (list(generate_target_ids), np.array(out))
            return out
        f._generate_log_return = glr
        try:
            d_, M_, _c = probe(f, ids)       # the drift and the return transform in force when this round is drawn
            seg_meta.append((len(obs), until, d_.tolist(), M_.tolist()))
            gen0()
        finally:
            f._generate_log_return = glr0
        seg = {i: list(f.prices[i][until + 1:]) for i in ids}
        segments.append(seg)
        # numeric law of the round: new = last kept x exp(cumsum(log-returns))
        tid, lr = rec["lr"]
        worst = 0.0
        for row, i in enumerate(tid):
            want = last[i] * np.exp(np.cumsum(lr[row]))
            got = np.array(seg[i])
            worst = max(worst, float(np.max(np.abs(got - want) / np.abs(want))))
        lr_checks.append(worst)
    f._generate_next = gen
    obs = []
    ops_m = []        # ops for the model
    t = -1
    probes = []
    err = None
    try:
        # t: -1 -> 0
        sim._update_times_on_markets(sim.markets)
        t = 0
        for i in ids:
            ops_m.append(("get", i, 0))
            obs.append(Fraction(mk[i].get_fundamental_price()))
        probes.append((len(obs), probe(f, ids)))
        for op in case["ops"]:
            k = op[0]
            if k == "tick":
                sim._update_times_on_markets(sim.markets)
                t += 1
                for i in ids:
                    ops_m.append(("get", i, t))
                    obs.append(Fraction(mk[i].get_fundamental_price()))
            elif k == "vol":
                f.change_volatility(op[1], op[2], time=t)
                ops_m.append(("change", t))
                obs.append(None)
                probes.append((len(obs), probe(f, ids)))
            elif k == "drift":
                f.change_drift(op[1], op[2], time=t)
                ops_m.append(("change", t))
                obs.append(None)
                probes.append((len(obs), probe(f, ids)))
            elif k == "corr":
                f.set_correlation(op[1], op[2], op[3], time=t)
                ops_m.append(("change", t))
                obs.append(None)
                probes.append((len(obs), probe(f, ids)))
            elif k == "uncorr":
                try:
                    f.remove_correlation(op[1], op[2], time=t)
                    ops_m.append(("change", t))
                    obs.append(None)
                    probes.append((len(obs), probe(f, ids)))
                except KeyError:
                    ops_m.append(("noop",))
                    obs.append("keyerror")
            elif k == "shock":
                mk[op[1]].change_fundamental_price(scale=op[2])
                ops_m.append(("shock", op[1], t, op[2]))
                obs.append(None)
            elif k == "peek":
                v = f.get_fundamental_price(market_id=op[1], time=t + op[2])
                ops_m.append(("get", op[1], t + op[2]))
                obs.append(Fraction(v))
            elif k == "read":
                ops_m.append(("read", t))
                obs.append([[i] + [Fraction(x) for x in f.get_fundamental_prices(i, range(0, t + 1))] for i in ids])
    except Exception as e:  # noqa
        err = repr(e)[:300]
    # market-side recorded fundamentals (what Market.get_fundamental_prices reports) at the end
    mseries = {i: [Fraction(x) for x in mk[i].get_fundamental_prices()] for i in ids} if err is None else {}
    return {"obs": obs, "ops_m": ops_m, "segments": segments, "lr_worst": lr_checks, "error": err, "t": t,
            "probes": [(at, d.tolist(), M.tolist(), c) for at, (d, M, c) in probes], "mseries": mseries,
            "seg_meta": [(a, u, len(sg[ids[0]]) if ids else 0, d, M) for (a, u, d, M), sg in zip(seg_meta, segments)]}


def case_term(case, res):
    inits = "[" + "; ".join(f"({zlit(m['id'])}, {qlit(m['initial'])})" for m in case["markets"]) + "]"
    tape = "[" + "; ".join("[" + "; ".join(f"({zlit(i)}, [" + "; ".join(qlit(x) for x in seg[i]) + "])" for i in seg) + "]"
                           for seg in res["segments"]) + "]"
    ops, exp = [], []
    for o, ob in zip(res["ops_m"], res["obs"]):
        if o[0] == "get":
            ops.append(f"FGet {zlit(o[1])} {o[2]}%nat")
        elif o[0] == "change":
            ops.append(f"FChange {o[1]}%nat")
        elif o[0] == "shock":
            ops.append(f"FShock {zlit(o[1])} {o[2]}%nat {qlit(o[3])}")
        elif o[0] == "read":
            ops.append(f"FRead {o[1]}%nat")
        else:
            continue
        exp.append(ob)
    inp = f"({inits}, {tape}, [" + "; ".join(ops) + "])"
    return f"({inp}, {ov_lit(exp)})", inp, exp


# ------------------------------------------------------------------------------------ monitor
def _script_admissible(case):
    """every correlation state the script goes through is positive definite (otherwise the library may refuse: its own
    message says 'invalid circle correlation', and the property only speaks of valid configurations)"""
    import numpy as np
    n = len(case["markets"])
    cur = {frozenset((i, j)): c for i, j, c in case["corr"]}
    states = [dict(cur)]
    for o in case["ops"]:
        if o[0] == "corr":
            cur[frozenset((o[1], o[2]))] = o[3]
            states.append(dict(cur))
        elif o[0] == "uncorr":
            cur.pop(frozenset((o[1], o[2])), None)
            states.append(dict(cur))
    for st in states:
        c = np.eye(n)
        for k, v in st.items():
            i, j = tuple(k)
            c[i, j] = c[j, i] = v
        if not np.all(np.linalg.eigvalsh(c) > 1e-9):
            return False
    return True


def _raised(case, res):
    if "LinAlgError" in str(res["error"]) and not _script_admissible(case):
        return []          # an inadmissible correlation matrix was configured: refusing it is not a violation
    return [V("fundamentals-raised", 0, error=res["error"])]


def mon_C12(case, res):
    out = []
    if res["error"] is not None:
        return _raised(case, res)
    ids = [m["id"] for m in case["markets"]]
    init = {m["id"]: Fraction(m["initial"]) for m in case["markets"]}
    # state kept from the property text
    vol = {m["id"]: m["vol"] for m in case["markets"]}
    drift = {m["id"]: m["drift"] for m in case["markets"]}
    corr = {}
    for i, j, c in case["corr"]:
        corr[frozenset((i, j))] = c
    seen = {i: {} for i in ids}            # time -> value first seen
    scale_at = collections.defaultdict(lambda: Fraction(1))
    zero_vol_since = {i: (0, init[i]) if vol[i] == 0.0 else None for i in ids}   # (time, level) since which vol has been 0
    t = 0
    k = 0
    pi = 0
    probes = res["probes"]

    def check_probe(idx):
        at, d, M, chol = probes[idx]
        import numpy as np
        d, M = np.array(d), np.array(M)
        for r, i in enumerate(ids):
            if abs(d[r] - drift[i]) > 1e-12 + 1e-9 * abs(drift[i]):
                out.append(V("log-returns-have-configured-drift", at, market=i, got=float(d[r]), want=drift[i]))
        cov = M @ M.T
        for r, i in enumerate(ids):
            for s_, j in enumerate(ids):
                c = 1.0 if i == j else corr.get(frozenset((i, j)), 0.0)
                want = vol[i] * c * vol[j]
                if abs(cov[r, s_] - want) > 1e-12 + 1e-9 * abs(want):
                    out.append(V("log-returns-have-configured-volatility-and-correlation", at, pair=[i, j], got=float(cov[r, s_]), want=want))
                    return
    # ops walk (obs are aligned with ops_m)
    check_probe(0)
    pi = 1
    for n_, (o, ob) in enumerate(zip(res["ops_m"], res["obs"])):
        if o[0] == "get":
            _, i, tt = o
            if ob <= 0:
                out.append(V("fundamental-price-strictly-positive", n_, market=i, time=tt, value=ob))
            if tt == 0 and tt not in seen[i] and ob != init[i]:
                out.append(V("starts-at-configured-initial-value", n_, market=i, got=ob, want=init[i]))
            if tt in seen[i] and seen[i][tt] != ob and tt < t:
                out.append(V("values-before-a-change-never-altered", n_, market=i, time=tt, was=seen[i][tt], now=ob))
            if tt <= t:
                seen[i].setdefault(tt, ob)
            t = max(t, tt) if tt <= t + 1 else t
            z = zero_vol_since[i]
            if z is not None and tt >= z[0]:
                want = float(z[1]) * math.exp(drift[i] * (tt - z[0])) if drift_const_since.get(i, 0) <= z[0] else None
                if want is not None and abs(float(ob) - want) > 1e-9 * abs(want):
                    out.append(V("zero-volatility-path-is-initial-times-exp-drift-t", n_, market=i, time=tt, got=float(ob), want=want))
        elif o[0] == "change":
            pass
        elif o[0] == "shock":
            _, i, tt, sc = o
            if tt in seen[i]:
                seen[i][tt] = seen[i][tt] * Fraction(sc)
            if zero_vol_since[i] is not None:
                zero_vol_since[i] = (tt, seen[i].get(tt, Fraction(0)))
        elif o[0] == "read":
            for row in ob:
                i = row[0]
                for tt, v in enumerate(row[1:]):
                    if tt in seen[i] and seen[i][tt] != v:
                        out.append(V("values-before-a-change-never-altered", n_, market=i, time=tt, was=seen[i][tt], now=v))
                        break
                    seen[i].setdefault(tt, v)
        # parameter bookkeeping follows the script
    return out[:20]


drift_const_since = {}


def mon_C12_full(case, res):
    """walks the script and the observations together (parameter changes move the reference level of zero-volatility paths)"""
    out = []
    if res["error"] is not None:
        return _raised(case, res)
    import numpy as np
    ids = [m["id"] for m in case["markets"]]
    init = {m["id"]: Fraction(m["initial"]) for m in case["markets"]}
    vol = {m["id"]: m["vol"] for m in case["markets"]}
    drift = {m["id"]: m["drift"] for m in case["markets"]}
    corr = {frozenset((i, j)): c for i, j, c in case["corr"]}
    seen = {i: {} for i in ids}
    ref = {i: (0, float(init[i])) for i in ids}        # zero-vol reference (time, level): path = level * exp(drift * (t - time))
    probes = res["probes"]
    pidx = [0]

    def check_probe():
        if pidx[0] >= len(probes):
            return
        at, d, M, chol = probes[pidx[0]]
        pidx[0] += 1
        d, M = np.array(d), np.array(M)
        for r, i in enumerate(ids):
            if abs(d[r] - drift[i]) > 1e-12 + 1e-9 * abs(drift[i]):
                out.append(V("log-returns-have-configured-drift", at, market=i, got=float(d[r]), want=drift[i]))
        cov = M @ M.T if M.size else np.zeros((len(ids), len(ids)))
        for r, i in enumerate(ids):
            for s_, j in enumerate(ids):
                c = 1.0 if i == j else corr.get(frozenset((i, j)), 0.0)
                want = vol[i] * c * vol[j]
                if abs(cov[r, s_] - want) > 1e-12 + 1e-9 * abs(want):
                    out.append(V("log-returns-have-configured-volatility-and-correlation", at, pair=[i, j], got=float(cov[r, s_]), want=want))
                    return
    t = 0
    oi = 0
    obs, ops_m = res["obs"], res["ops_m"]

    def take():
        nonlocal oi
        o, ob = ops_m[oi], obs[oi]
        oi += 1
        return o, ob

    def see_get(o, ob, n_):
        _, i, tt = o
        if ob <= 0:
            out.append(V("fundamental-price-strictly-positive", n_, market=i, time=tt, value=ob))
        if tt in seen[i] and seen[i][tt] != ob:
            out.append(V("values-before-a-change-never-altered", n_, market=i, time=tt, was=seen[i][tt], now=ob))
        if tt <= t:
            seen[i].setdefault(tt, ob)
            if vol[i] == 0.0 and tt >= ref[i][0]:
                want = ref[i][1] * math.exp(drift[i] * (tt - ref[i][0]))
                if abs(float(ob) - want) > 1e-9 * abs(want):
                    out.append(V("zero-volatility-path-is-level-times-exp-drift-t", n_, market=i, time=tt, got=float(ob), want=want))
    def check_round(tt, n_):
        """the return from step tt-1 to step tt that has just been delivered was drawn in the latest generation round covering tt; that
        round must have used the drift, volatilities and correlations configured for that step - a change made at an earlier step than
        tt applies to it (the property: after a change at time t, later values continue under the changed parameters)"""
        cover = None
        for a, u, ln, d, M in res.get("seg_meta", []):
            if a <= n_ and u < tt <= u + ln:
                cover = (a, u, d, M)
        if cover is None or flagged[0]:
            return
        a, u, d, M = cover
        d, M = np.array(d), np.array(M)
        cov = M @ M.T if M.size else np.zeros((len(ids), len(ids)))
        for r, i in enumerate(ids):
            if abs(d[r] - drift[i]) > 1e-12 + 1e-9 * abs(drift[i]):
                out.append(V("delivered-returns-drawn-under-the-parameters-configured-for-their-step", n_, time=tt, market=i, drift_used=float(d[r]),
                             drift_configured=drift[i], round_generated_from=u))
                flagged[0] = True
                return
            for s_, j in enumerate(ids):
                c = 1.0 if i == j else corr.get(frozenset((i, j)), 0.0)
                want = vol[i] * c * vol[j]
                if abs(cov[r, s_] - want) > 1e-12 + 1e-9 * abs(want):
                    out.append(V("delivered-returns-drawn-under-the-parameters-configured-for-their-step", n_, time=tt, pair=[i, j],
                                 covariance_used=float(cov[r, s_]), covariance_configured=want, round_generated_from=u))
                    flagged[0] = True
                    return
    flagged = [False]
    # initial gets
    for i in ids:
        o, ob = take()
        if ob != init[i]:
            out.append(V("starts-at-configured-initial-value", oi, market=i, got=ob, want=init[i]))
        see_get(o, ob, oi)
    check_probe()
    for op in case["ops"]:
        k = op[0]
        if k == "tick":
            t += 1
            for i in ids:
                o, ob = take()
                see_get(o, ob, oi)
            check_round(t, oi)
        elif k in ("vol", "drift", "corr", "uncorr"):
            o, ob = take()
            if ob == "keyerror":
                continue
            if k == "vol":
                vol[op[1]] = op[2]
            elif k == "drift":
                drift[op[1]] = op[2]
            elif k == "corr":
                corr[frozenset((op[1], op[2]))] = op[3]
            else:
                corr.pop(frozenset((op[1], op[2])), None)
            # a change at time t: later values continue from the level at t
            for i in ids:
                if t in seen[i]:
                    ref[i] = (t, float(seen[i][t]))
            check_probe()
        elif k == "shock":
            o, ob = take()
            i = op[1]
            if t in seen[i]:
                seen[i][t] = seen[i][t] * Fraction(op[2])
            for j in ids:
                if t in seen[j]:
                    ref[j] = (t, float(seen[j][t]))
        elif k == "peek":
            o, ob = take()
            if ob <= 0:
                out.append(V("fundamental-price-strictly-positive", oi, market=o[1], time=o[2], value=ob))
        elif k == "read":
            o, ob = take()
            for row in ob:
                i = row[0]
                for tt, v in enumerate(row[1:]):
                    if tt in seen[i] and seen[i][tt] != v:
                        out.append(V("values-before-a-change-never-altered", oi, market=i, time=tt, was=seen[i][tt], now=v))
                        break
                    seen[i].setdefault(tt, v)
    # what the market recorded when the clock advanced equals what the generator delivered, shocks applied at their time
    for i, ser in res["mseries"].items():
        for tt, v in enumerate(ser):
            if tt in seen[i] and seen[i][tt] != v:
                out.append(V("market-records-the-delivered-fundamental", len(obs), market=i, time=tt, recorded=v, generator=seen[i][tt]))
                break
    if res["lr_worst"] and max(res["lr_worst"]) > 1e-12:
        out.append(V("new-prices-are-last-kept-times-exp-cumulative-log-return", 0, worst_relative_error=max(res["lr_worst"])))
    return out[:20]


class SuiteF(engine.Suite):
    name = "F"
    imports = "Require Import Pams.Prelude Pams.Fund."
    runner = "run_case_f"
    shard = 3
    SIZES = {"quick": 16, "thorough": 300, "search": 10}

    def generate(self, seed, tier):
        rng = random.Random(("F", seed, tier).__repr__())
        return [gen_case(rng) for _ in range(self.SIZES.get(tier, 45))]

    def run_impl(self, case):
        return run_case(case)

    def coq_term(self, case, res):
        if res["error"] is not None:
            return None
        return case_term(case, res)

    def owners(self, case, res, path, exp, model):
        return ["C12"]

    def monitors(self):
        return {"C12": mon_C12_full}

    def nontrivial_key(self, case, res):
        if not any(o[0] in ("vol", "drift", "corr", "uncorr", "shock") for o in case["ops"]):
            return None
        return hash(json.dumps(case, sort_keys=True))

    def describe(self, case, res):
        return {"markets": case["markets"], "corr": case["corr"], "ops": case["ops"][:40], "generation_rounds": len(res["segments"])}

    def stats(self, cases, results):
        ops = collections.Counter(o[0] for c in cases for o in c["ops"])
        rounds = collections.Counter(len(r["segments"]) for r in results)
        return {"key_rule": "distinct scripts with at least one parameter change or shock", "op_histogram": dict(ops),
                "generation_rounds_per_case": {str(k): v for k, v in sorted(rounds.items())},
                "worst_relative_error_of_round_law": max([max(r["lr_worst"]) for r in results if r["lr_worst"]] + [0.0])}
