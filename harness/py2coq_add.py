"""Tie (a), fifteenth translator: Market._add_order (the acceptance of one order) -> Gallina over the model's market record, statement by
statement in source order.  Fail-closed.

The order object is mutable: the translator tracks, symbolically, the current value of order.order_id, order.placed_at and order.price
(parameters oid0 / placed0 : option Z give their value on entry - None for a fresh order); the other fields are read-only parameters.
Statements accepted:
    if <cond>: raise ValueError(..) / AssertionError                 if <cond> then Err <kind> else ...
    if order.price is not None and order.price % self.tick_size != 0:
        warnings.warn(..)
        order.price = self.convert_to_tick_level(price=order.price, is_buy=order.is_buy) * self.tick_size
                                                                     the rounding unit: off the grid -> level x tick (level by
                                                                     Tick.tick_level, itself tied to convert_to_tick_level by py2coq_arith)
    order.order_id = self._next_order_id          self._next_order_id += 1
    (self.buy_order_book if order.is_buy else self.sell_order_book).add(order=order)      book_add (static prelude AddPy.v: the hand model of
                                                                     OrderBook.add - accept time := book time, insertion by priority)
    self._update_market_price()
    if order.is_buy: self._n_buy_orders[self.time] += 1  else: self._n_sell_orders[self.time] += 1
    log = OrderLog(order_id=.., market_id=.., time=.., agent_id=.., is_buy=.., kind=order.kind, volume=.., price=.., ttl=..)
    if self.logger is not None: log.read_and_write(logger=self.logger)           reported exactly once
    return log"""
import ast
import os
import sys

import pynorm
from py2coq_arith import Unsupported

LOGARGS = ["order_id", "market_id", "time", "agent_id", "is_buy", "kind", "volume", "price", "ttl"]


def _uncast(e):
    if isinstance(e, ast.Call) and isinstance(e.func, ast.Name) and e.func.id == "cast" and len(e.args) == 2:
        return e.args[1]
    return e


class A:
    def __init__(self):
        # current symbolic values: (type, term); OZ = option Z, Z = known integer
        self.cur = {"order.order_id": ("OZ", "oid0"), "order.placed_at": ("OZ", "placed0"), "order.price": ("OQ", "price")}
        self.n = 0

    def z(self, e):
        e = _uncast(e)
        t = ast.unparse(e)
        ro = {"order.market_id": "market_id", "order.agent_id": "agent_id", "order.volume": "volume", "self.market_id": "(m_id m)",
              "self.time": "(m_time m)", "self._next_order_id": "(m_next m)"}
        if t in ro:
            return ro[t]
        if t in ("order.order_id", "order.placed_at"):
            ty, term = self.cur[t]
            if ty != "Z":
                raise Unsupported(f"{t} is read as an integer before it is assigned")
            return term
        raise Unsupported("integer expression " + t[:80])

    def cond(self, e):
        t = ast.unparse(e)
        if isinstance(e, ast.Compare) and len(e.ops) == 1 and isinstance(e.ops[0], ast.NotEq):
            a, b = ast.unparse(e.left), ast.unparse(e.comparators[0])
            if {a, b} == {"order.market_id", "self.market_id"}:
                return f"(negb ({self.z(e.left)} =? {self.z(e.comparators[0])}))", {"ValueError": "ENotThisMarket"}
            if {a, b} == {"order.placed_at", "self.time"}:
                return f"(negb ({self.z(e.left)} =? {self.z(e.comparators[0])}))", {"AssertionError": "EAssertWalk"}
        if (isinstance(e, ast.Compare) and len(e.ops) == 1 and isinstance(e.ops[0], ast.IsNot) and isinstance(e.comparators[0], ast.Constant)
                and e.comparators[0].value is None and ast.unparse(e.left) in ("order.placed_at", "order.order_id")):
            ty, term = self.cur[ast.unparse(e.left)]
            return (f"(negb (is_none {term}))" if ty == "OZ" else "true"), {"ValueError": "EAlreadySubmitted"}
        if isinstance(e, ast.BoolOp) and isinstance(e.op, ast.Or):
            parts = [self.cond(v) for v in e.values]
            if any(k != parts[0][1] for _c, k in parts):
                raise Unsupported("condition " + t[:80])
            acc = parts[-1][0]
            for c, _k in reversed(parts[:-1]):
                acc = f"(orb {c} {acc})"
            return acc, parts[0][1]
        raise Unsupported("condition " + t[:80])

    def order_term(self, f):
        """the order as it is now, given expressions for its nine log fields / its current state"""
        return (f"(mkO {f['order_id']} {f['agent_id']} {f['market_id']} {f['is_buy']} {f['price']} {f['volume']} {f['time']} {f['ttl']})")

    def field(self, name, e):
        e = _uncast(e)
        t = ast.unparse(e)
        if name in ("order_id", "time"):
            return self.z(e)
        if name in ("market_id", "agent_id", "volume"):
            return self.z(e)
        if name == "is_buy" and t == "order.is_buy":
            return "is_buy"
        if name == "price" and t == "order.price":
            return self.cur["order.price"][1]
        if name == "ttl" and t == "order.ttl":
            return "ttl"
        if name == "kind" and t == "order.kind":
            return None
        raise Unsupported(f"log field {name} = {t[:60]}")


def translate(repo):
    mod = ast.parse(open(os.path.join(repo, "pams/market.py")).read())
    cs = [n for n in mod.body if isinstance(n, ast.ClassDef) and n.name == "Market"]
    if len(cs) != 1:
        raise Unsupported("class Market not found exactly once")
    fs = [n for n in cs[0].body if isinstance(n, ast.FunctionDef) and n.name == "_add_order"]
    if len(fs) != 1 or fs[0].decorator_list:
        raise Unsupported("method _add_order not found exactly once (undecorated)")
    a = fs[0].args
    if [x.arg for x in a.args] != ["self", "order"] or a.vararg or a.kwarg or a.kwonlyargs or a.defaults:
        raise Unsupported("signature of _add_order")
    body = pynorm.normalise(fs[0], cs[0], returns_none=False)
    x = A()
    lines, logvar, reported, returned, added = [], None, 0, False, False
    for s in body:
        if returned:
            raise Unsupported("statement after return")
        t = ast.unparse(s)
        if isinstance(s, ast.If) and not s.orelse and len(s.body) == 1 and isinstance(s.body[0], ast.Raise):
            c, kinds = x.cond(s.test)
            exc = s.body[0].exc
            name = exc.func.id if isinstance(exc, ast.Call) and isinstance(exc.func, ast.Name) else (exc.id if isinstance(exc, ast.Name) else None)
            if name not in kinds:
                raise Unsupported("raise " + t[:100])
            lines.append(f"  if {c} then Err {kinds[name]} else")
        elif isinstance(s, ast.If) and ast.unparse(s.test) == "order.price is not None and order.price % self.tick_size != 0":
            if (s.orelse or len(s.body) != 2 or not ast.unparse(s.body[0]).startswith("warnings.warn(")
                    or ast.unparse(s.body[1]) != "order.price = self.convert_to_tick_level(price=order.price, is_buy=order.is_buy) * self.tick_size"):
                raise Unsupported("the rounding unit: " + t[:160])
            if added:
                raise Unsupported("the price is rounded after the order entered the book")
            p = x.cur["order.price"][1]
            lines.append(f"  let price := match {p} with\n"
                         f"               | Some x => if negb (on_grid (m_tick m) x) then Some (qmul (inject_Z (tick_level (m_tick m) is_buy x)) (m_tick m)) else Some x\n"
                         f"               | None => None\n               end in")
            x.cur["order.price"] = ("OQ", "price")
        elif t == "order.order_id = self._next_order_id":
            lines.append("  let order_id := m_next m in")
            x.cur["order.order_id"] = ("Z", "order_id")
        elif t in ("self._next_order_id += 1", "self._next_order_id = self._next_order_id + 1"):
            lines.append("  let m := m <| m_next := m_next m + 1 |> in")
        elif t == "(self.buy_order_book if order.is_buy else self.sell_order_book).add(order=order)":
            if added:
                raise Unsupported("the order enters the book twice")
            lines.append("  let placed_at := m_time m in")
            x.cur["order.placed_at"] = ("Z", "placed_at")
            o = x.order_term({"order_id": x.z(ast.parse("order.order_id", mode="eval").body), "agent_id": "agent_id", "market_id": "market_id",
                              "is_buy": "is_buy", "price": x.cur["order.price"][1], "volume": "volume", "time": "placed_at", "ttl": "ttl"})
            lines.append(f"  let m := book_add is_buy m {o} in")
            added = True
        elif t == "self._update_market_price()":
            lines.append("  let m := update_market_price m in")
        elif isinstance(s, ast.If) and ast.unparse(s.test) == "order.is_buy":
            def bump(b, fld, series):
                if len(b) != 1 or ast.unparse(b[0]) not in (f"self.{series}[self.time] += 1", f"self.{series}[self.time] = self.{series}[self.time] + 1"):
                    raise Unsupported("counter: " + "; ".join(ast.unparse(q) for q in b)[:100])
                return f"m <| {fld} := upd ({fld} m) (zi (m_time m)) (getz ({fld} m) (m_time m) + 1) |>"
            lines.append(f"  let m := if is_buy then {bump(s.body, 'm_nbuy', '_n_buy_orders')}\n"
                         f"           else {bump(s.orelse, 'm_nsell', '_n_sell_orders')} in")
        elif (isinstance(s, (ast.Assign, ast.AnnAssign)) and isinstance(s.value, ast.Call) and ast.unparse(s.value.func) == "OrderLog"
              and isinstance(getattr(s, "target", None) or s.targets[0], ast.Name)):
            if logvar is not None or s.value.args or sorted(kw.arg for kw in s.value.keywords) != sorted(LOGARGS):
                raise Unsupported("the order log: " + t[:120])
            kw = {q.arg: q.value for q in s.value.keywords}
            f = {n: x.field(n, kw[n]) for n in LOGARGS}
            logvar = (getattr(s, "target", None) or s.targets[0]).id
            lines.append(f"  let {logvar} := ROrder {x.order_term(f)} in")
        elif (isinstance(s, ast.If) and ast.unparse(s.test) == "self.logger is not None" and not s.orelse and len(s.body) == 1
              and logvar and ast.unparse(s.body[0]) == f"{logvar}.read_and_write(logger=self.logger)"):
            reported += 1
        elif isinstance(s, ast.Return) and logvar and ast.unparse(s.value) == logvar:
            returned = True
        else:
            raise Unsupported("statement " + t[:100])
    if not returned or reported != 1 or not added:
        raise Unsupported(f"the order is reported {reported} times, {'is' if returned else 'is not'} returned, {'entered' if added else 'never entered'} the book")
    return ("(* GENERATED by harness/py2coq_add.py - do not edit *)\n"
            "Require Import Pams.Prelude Pams.Tick Pams.Match Pams.Market Pams.OrderPy Pams.AddPy.\nFrom RecordUpdate Require Import RecordSet.\n"
            "Import RecordSetNotations.\nOpen Scope Z_scope.\n\n(* pams/market.py: Market._add_order *)\n"
            "Definition add_order_gen (m : market) (agent_id market_id : Z) (is_buy : bool) (price : option Q) (volume : Z) (ttl : option Z)\n"
            "                         (oid0 placed0 : option Z) : result (market * record) :=\n"
            + "\n".join(lines) + f"\n  Ok (m, {logvar}).\n")


if __name__ == "__main__":
    sys.stdout.write(translate(os.environ.get("PAMS_REPO", "/repo")))
