"""Tie (a), third translator: methods of /repo that walk a list and mutate objects held in a dictionary -> Gallina in an
error monad over an explicit store (coq/theories/StatePy.v gives the meaning of every accepted construct).  Fail-closed: anything
outside the list below raises Unsupported and the tie is reported broken.

Accepted (unit Simulator._update_agents_for_execution):
  body       : docstring; one `for <v> in <list parameter>:` loop
  loop body  : `x = self.id2agent[<v>.<int attribute>]` / annotated   -> x is a reference (KeyError when the key is missing)
               `x = e` / annotated                                    -> x is a value: an attribute of <v> (ExecutionLog, listed below) or
                                                                          arithmetic over such values
               `<ref>.cash_amount += e` / `-= e`                       -> in-place update of the referenced agent's cash
               `<ref>.asset_volumes[k] += e` / `-= e`                  -> in-place update of an existing entry (KeyError when missing)
  expressions: the arithmetic of py2coq_arith.py over the value locals (floats as rationals, ints as Z)
Statements are executed in source order against the current store, so two references to one agent alias exactly as in Python."""
import ast
import os
import sys

from py2coq_arith import Tr, Unit, Unsupported, coerce

LOG_ATTRS = {"market_id": ("lg_market_id", "Z"), "time": ("lg_time", "Z"), "buy_agent_id": ("lg_buy_agent_id", "Z"),
             "sell_agent_id": ("lg_sell_agent_id", "Z"), "buy_order_id": ("lg_buy_order_id", "Z"),
             "sell_order_id": ("lg_sell_order_id", "Z"), "price": ("lg_price", "Q"), "volume": ("lg_volume", "Z")}


def _find(repo, path, cls, method):
    mod = ast.parse(open(os.path.join(repo, path)).read())
    cs = [n for n in mod.body if isinstance(n, ast.ClassDef) and n.name == cls]
    if len(cs) != 1:
        raise Unsupported(f"class {cls} not found exactly once in {path}")
    fs = [n for n in cs[0].body if isinstance(n, ast.FunctionDef) and n.name == method]
    if len(fs) != 1 or fs[0].decorator_list:
        raise Unsupported(f"method {method} not found exactly once (undecorated)")
    return fs[0]


def _is_doc(s):
    return isinstance(s, ast.Expr) and isinstance(s.value, ast.Constant) and isinstance(s.value.value, str)


def translate_update_agents(repo):
    path, cls, method = "pams/simulator.py", "Simulator", "_update_agents_for_execution"
    fn = _find(repo, path, cls, method)
    a = fn.args
    if [x.arg for x in a.args] != ["self", "execution_logs"] or a.vararg or a.kwarg or a.kwonlyargs or a.defaults:
        raise Unsupported("signature of " + method)
    body = [s for s in fn.body if not _is_doc(s)]
    if len(body) != 1 or not isinstance(body[0], ast.For):
        raise Unsupported("body is not a single for loop")
    loop = body[0]
    if (not isinstance(loop.target, ast.Name) or not isinstance(loop.iter, ast.Name) or loop.iter.id != "execution_logs"
            or loop.orelse):
        raise Unsupported("loop header " + ast.unparse(loop)[:80])
    v = loop.target.id
    tr = Tr(Unit(path, cls, method, "update_agents_step_gen", {}, "Q"))
    env = {"@bound": (), "@popped": ()}       # value locals: name -> (coq term, type)
    refs = set()                              # reference locals
    lines = []
    closing = 0
    fresh = [0]

    def log_attr(e):
        if isinstance(e, ast.Attribute) and isinstance(e.value, ast.Name) and e.value.id == v and e.attr in LOG_ATTRS:
            c, t = LOG_ATTRS[e.attr]
            return (f"({c} log)", t)
        return None

    def value(e):
        # attribute reads of the loop variable become record projections, everything else is arithmetic over value locals
        class Sub(ast.NodeTransformer):
            def __init__(self):
                self.extra = {}

            def visit_Attribute(self, n):
                la = log_attr(n)
                if la is None:
                    raise Unsupported("attribute " + ast.unparse(n))
                name = f"__log_{n.attr}"
                self.extra[name] = la
                return ast.copy_location(ast.Name(id=name, ctx=ast.Load()), n)
        sub = Sub()
        e2 = sub.visit(ast.parse(ast.unparse(e), mode="eval").body)
        for n in ast.walk(e2):
            if isinstance(n, ast.Name) and n.id in refs:
                raise Unsupported("a reference used as a value: " + n.id)
        return tr.value(e2, {**env, **sub.extra})

    for s in loop.body:
        if isinstance(s, (ast.Assign, ast.AnnAssign)):
            tgt = s.targets[0] if isinstance(s, ast.Assign) and len(s.targets) == 1 else getattr(s, "target", None)
            if not isinstance(tgt, ast.Name) or s.value is None or tgt.id == v:
                raise Unsupported("assignment " + ast.unparse(s)[:80])
            name = tgt.id
            if name in env or name in refs:
                raise Unsupported("re-assignment of " + name)
            val = s.value
            if (isinstance(val, ast.Subscript) and ast.unparse(val.value) == "self.id2agent"):
                key = log_attr(val.slice)
                if key is None or key[1] != "Z":
                    raise Unsupported("key of self.id2agent: " + ast.unparse(val.slice))
                lines.append(f"pbind (id2agent_get st {key[0]}) (fun {name} =>")
                closing += 1
                refs.add(name)
            else:
                # a value local: an attribute of the loop variable, or arithmetic over value locals
                t, ty = value(val)
                ty = "Z" if ty == "Zlit" else ty
                if ty not in ("Q", "Z"):
                    raise Unsupported("right-hand side " + ast.unparse(val)[:80])
                lines.append(f"let {name} := {t} in")
                env[name] = (name, ty)
        elif isinstance(s, ast.AugAssign) and isinstance(s.op, (ast.Add, ast.Sub)):
            t = s.target
            plus = isinstance(s.op, ast.Add)
            if isinstance(t, ast.Attribute) and isinstance(t.value, ast.Name) and t.value.id in refs and t.attr == "cash_amount":
                term = coerce(*value(s.value), "Q")
                lines.append(f"let st := aug_cash st {t.value.id} (fun cur => {'qadd' if plus else 'qsub'} cur {term}) in")
            elif (isinstance(t, ast.Subscript) and isinstance(t.value, ast.Attribute) and isinstance(t.value.value, ast.Name)
                  and t.value.value.id in refs and t.value.attr == "asset_volumes"):
                k = coerce(*value(t.slice), "Z")
                term = coerce(*value(s.value), "Z")
                lines.append(f"pbind (aug_asset st {t.value.value.id} {k} (fun cur => (cur {'+' if plus else '-'} {term})%Z)) (fun st =>")
                closing += 1
            else:
                raise Unsupported("augmented assignment to " + ast.unparse(t))
        else:
            raise Unsupported("statement " + ast.unparse(s)[:100])
    text = "\n  ".join(lines) + "\n  POk st" + ")" * closing
    return (f"(* {path}: {cls}.{method} - the loop body, then the loop *)\n"
            f"Definition update_agents_step_gen (st : store) (log : pylog) : pres store :=\n  {text}.\n"
            f"Definition update_agents_gen (st : store) (logs : list pylog) : pres store := pfold update_agents_step_gen logs st.\n")


def translate_index(repo, method, getter, coq_name):
    """IndexMarket.compute_market_index / compute_fundamental_index: two accumulators over the components, then a division.
    Accepted: the defaulting `if time is None: time = self.get_time()`; `acc: float|int = 0`; one `for m in self._components:` whose
    body binds value locals and adds to the accumulators; `return a / b`.  The loop variable may only be read through
    `m.<getter>(time=time)` (the component's value at the asked time: first projection of the generated argument) and
    `m.outstanding_shares` (second projection); `cast(T, e)` is e."""
    path, cls = "pams/index_market.py", "IndexMarket"
    fn = _find(repo, path, cls, method)
    a = fn.args
    if ([x.arg for x in a.args] != ["self", "time"] or a.vararg or a.kwarg or a.kwonlyargs or len(a.defaults) != 1
            or not (isinstance(a.defaults[0], ast.Constant) and a.defaults[0].value is None)):
        raise Unsupported("signature of " + method)
    import pynorm
    mod_ = ast.parse(open(os.path.join(repo, path)).read())
    cls_ = [n for n in mod_.body if isinstance(n, ast.ClassDef) and n.name == cls][0]
    body = pynorm.inline_value_helpers([s for s in fn.body if not _is_doc(s)], cls_)
    if not body or ast.unparse(body[0]) != "if time is None:\n    time = self.get_time()":
        raise Unsupported("the defaulting of `time`")
    body = body[1:]
    accs = {}           # accumulator -> type
    while body and isinstance(body[0], ast.AnnAssign) and isinstance(body[0].target, ast.Name):
        s0 = body[0]
        ty = {"float": "Q", "int": "Z"}.get(ast.unparse(s0.annotation))
        if ty is None or not (isinstance(s0.value, ast.Constant) and s0.value.value == 0 and not isinstance(s0.value.value, bool)):
            raise Unsupported("accumulator " + ast.unparse(s0))
        if s0.target.id in accs:
            raise Unsupported("accumulator declared twice")
        accs[s0.target.id] = ty
        body = body[1:]
    if len(body) != 2 or not isinstance(body[0], ast.For) or not isinstance(body[1], ast.Return) or not accs:
        raise Unsupported("shape: accumulators, one loop, return")
    loop, ret = body
    if not isinstance(loop.target, ast.Name) or ast.unparse(loop.iter) != "self._components" or loop.orelse:
        raise Unsupported("loop header " + ast.unparse(loop)[:80])
    v = loop.target.id
    reads = {f"{v}.{getter}(time=time)": ("(fst comp)", "Q"), f"{v}.outstanding_shares": ("(snd comp)", "Z")}

    class Uncast(ast.NodeTransformer):
        def visit_Call(self, n):
            self.generic_visit(n)
            if isinstance(n.func, ast.Name) and n.func.id == "cast" and len(n.args) == 2 and not n.keywords:
                return n.args[1]
            return n
    tr = Tr(Unit(path, cls, method, coq_name, {}, "Q"))
    env = {"@bound": (), "@popped": ()}
    for n, ty in accs.items():
        env[n] = (n, ty)
    lines = []

    class Pin(ast.NodeTransformer):
        """the two pinned reads of the loop variable become fresh names"""
        def visit(self, n):
            if isinstance(n, ast.expr) and ast.unparse(n) in reads:
                return ast.copy_location(ast.Name(id="__read_%d" % list(reads).index(ast.unparse(n)), ctx=ast.Load()), n)
            return self.generic_visit(n)
    for i, r_ in enumerate(reads):
        env["__read_%d" % i] = reads[r_]

    def value(e):
        e2 = Pin().visit(Uncast().visit(ast.parse(ast.unparse(e), mode="eval").body))
        if any(isinstance(n, ast.Name) and n.id == v for n in ast.walk(e2)):
            raise Unsupported("the loop variable is read in another way: " + ast.unparse(e))
        return tr.value(e2, env)
    for s in loop.body:
        if isinstance(s, (ast.Assign, ast.AnnAssign)):
            tgt = s.targets[0] if isinstance(s, ast.Assign) and len(s.targets) == 1 else getattr(s, "target", None)
            if not isinstance(tgt, ast.Name) or s.value is None or tgt.id in env or tgt.id == v:
                raise Unsupported("assignment " + ast.unparse(s)[:80])
            t, ty = value(s.value)
            ty = "Z" if ty == "Zlit" else ty
            lines.append(f"let {tgt.id} := {t} in")
            env[tgt.id] = (tgt.id, ty)
        elif (isinstance(s, ast.AugAssign) and isinstance(s.op, ast.Add) and isinstance(s.target, ast.Name)
              and s.target.id in accs):
            n, ty = s.target.id, accs[s.target.id]
            t = coerce(*value(s.value), ty)
            lines.append(f"let {n} := {'qadd ' + n + ' ' + t if ty == 'Q' else '(' + n + ' + ' + t + ')%Z'} in")
        else:
            raise Unsupported("statement " + ast.unparse(s)[:100])
    r = ret.value
    if not (isinstance(r, ast.BinOp) and isinstance(r.op, ast.Div) and isinstance(r.left, ast.Name) and isinstance(r.right, ast.Name)
            and r.left.id in accs and r.right.id in accs):
        raise Unsupported("return " + ast.unparse(ret))
    names = list(accs)
    tup = "(" + ", ".join(names) + ")"
    tys = " * ".join({"Q": "Q", "Z": "Z"}[accs[n]] for n in names)
    init = "(" + ", ".join("(0 # 1)" if accs[n] == "Q" else "0%Z" for n in names) + ")"
    num, den = coerce(r.left.id, accs[r.left.id], "Q"), coerce(r.right.id, accs[r.right.id], "Q")
    return (f"(* {path}: {cls}.{method} *)\n"
            f"Definition {coq_name}_step (acc : {tys}) (comp : Q * Z) : {tys} :=\n  let '{tup} := acc in\n  "
            + "\n  ".join(lines) + f"\n  {tup}.\n"
            f"Definition {coq_name} (comps : list (Q * Z)) : pres Q :=\n  let '{tup} := fold_left {coq_name}_step comps {init} in\n"
            f"  pdiv {num} {den}.\n")


def translate_index_all(repo):
    out = ["(* GENERATED by harness/py2coq_state.py - do not edit *)",
           "Require Import Pams.Prelude Pams.Match Pams.Market Pams.OrderPy Pams.Sim Pams.StatePy.",
           "From Coq Require Import QArith.", "Open Scope Z_scope.", "",
           translate_index(repo, "compute_market_index", "get_market_price", "market_index_gen"),
           translate_index(repo, "compute_fundamental_index", "get_fundamental_price", "fundamental_index_gen")]
    return "\n".join(out)


def translate_all(repo):
    out = ["(* GENERATED by harness/py2coq_state.py - do not edit *)",
           "Require Import Pams.Prelude Pams.Match Pams.Market Pams.OrderPy Pams.Sim Pams.StatePy.",
           "From Coq Require Import QArith.", "Open Scope Z_scope.", "", translate_update_agents(repo)]
    return "\n".join(out)


if __name__ == "__main__":
    which = sys.argv[1] if len(sys.argv) > 1 else "C05"
    sys.stdout.write((translate_index_all if which == "C17" else translate_all)(os.environ.get("PAMS_REPO", "/repo")))
