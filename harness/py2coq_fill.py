"""Tie (a), fourteenth translator: Market._execute_orders (what ONE fill does to the market) -> Gallina over the model's market record,
statement by statement in source order.  Fail-closed.

Parameters: price (float -> Q), volume (int -> Z), buy_order / sell_order (accepted orders of the book -> the model's order record, whose
placed_at and order_id are not optional: `x.placed_at is None` is translated as a test on `Some (placed x)`).
Statements accepted:
    if <cond>: raise AssertionError[(..)] / ValueError(..)        if <cond> then Err <kind> else ...     (kind chosen by the condition, table below)
    log = ExecutionLog(market_id=.., time=.., buy_agent_id=.., sell_agent_id=.., buy_order_id=.., sell_order_id=.., price=.., volume=..)
    self.<side>_order_book.change_order_volume(order=<side>_order, delta=<int expr>)    change_volume <side> (static prelude FillPy.v: the
                                                                                        hand model of OrderBook.change_order_volume)
    self._last_executed_prices[self.time] = <Q expr>
    self._executed_volumes[self.time] += <Z expr>          self._executed_total_prices[self.time] += <Q expr>       (also `x = x + e`)
    self._update_market_price()                            update_market_price  (itself tied by py2coq_cells)
    if self.logger is not None: log.read_and_write(logger=self.logger)         the fill is reported (must happen exactly once)
    return log
Expressions: Z - volume, integer constants, unary minus, + - *; Q - price, `volume * price` / `price * volume`, + ; reads of the fields of
the two orders and of self.market_id / self.time."""
import ast
import os
import sys

import pynorm
from py2coq_arith import Unsupported

ZREAD = {"volume": "volume", "self.market_id": "(m_id m)", "self.time": "(m_time m)"}
for _s, _v in (("buy_order", "buy_order"), ("sell_order", "sell_order")):
    ZREAD[f"{_s}.market_id"] = f"(mkt {_v})"
    ZREAD[f"{_s}.agent_id"] = f"(agent {_v})"
    ZREAD[f"{_s}.order_id"] = f"(oid {_v})"
    ZREAD[f"{_s}.volume"] = f"(vol {_v})"
LOGARGS = ["market_id", "time", "buy_agent_id", "sell_agent_id", "buy_order_id", "sell_order_id", "price", "volume"]
CELLS = {"self._last_executed_prices[self.time]": ("m_last", "OQ"), "self._executed_volumes[self.time]": ("m_vol", "Z"),
         "self._executed_total_prices[self.time]": ("m_turn", "Q")}


def _uncast(e):
    if isinstance(e, ast.Call) and isinstance(e.func, ast.Name) and e.func.id == "cast" and len(e.args) == 2:
        return e.args[1]
    return e


def zexpr(e):
    e = _uncast(e)
    t = ast.unparse(e)
    if t in ZREAD:
        return ZREAD[t]
    if t == "self._executed_volumes[self.time]":
        return "(getz (m_vol m) (m_time m))"
    if isinstance(e, ast.Constant) and isinstance(e.value, int) and not isinstance(e.value, bool):
        return f"({e.value})"
    if isinstance(e, ast.UnaryOp) and isinstance(e.op, ast.USub):
        return f"(- {zexpr(e.operand)})"
    if isinstance(e, ast.BinOp) and isinstance(e.op, (ast.Add, ast.Sub, ast.Mult)):
        return f"({zexpr(e.left)} {({ast.Add: '+', ast.Sub: '-', ast.Mult: '*'})[type(e.op)]} {zexpr(e.right)})"
    raise Unsupported("integer expression " + t[:80])


def is_z(e):
    try:
        zexpr(e)
        return True
    except Unsupported:
        return False


def qexpr(e):
    e = _uncast(e)
    t = ast.unparse(e)
    if t == "price":
        return "price"
    if t == "self._executed_total_prices[self.time]":
        return "(getq (m_turn m) (m_time m))"
    if isinstance(e, ast.BinOp) and isinstance(e.op, ast.Mult):
        a = f"(qofz {zexpr(e.left)})" if is_z(e.left) else qexpr(e.left)
        b = f"(qofz {zexpr(e.right)})" if is_z(e.right) else qexpr(e.right)
        return f"(qmul {a} {b})"
    if isinstance(e, ast.BinOp) and isinstance(e.op, ast.Add):
        return f"(qadd {qexpr(e.left)} {qexpr(e.right)})"
    raise Unsupported("float expression " + t[:80])


def cond(e):
    """-> (Gallina bool, error kind for a raise under it)"""
    t = ast.unparse(e)
    if t == "not self.is_running":
        return "(negb (m_running m))", {"AssertionError": "EAssertNotRunning"}
    if isinstance(e, ast.Compare) and len(e.ops) == 1 and isinstance(e.ops[0], ast.NotEq):
        a, b = ast.unparse(e.left), ast.unparse(e.comparators[0])
        if {a, b} in ({"buy_order.market_id", "self.market_id"}, {"sell_order.market_id", "self.market_id"}):
            return f"(negb ({ZREAD[a]} =? {ZREAD[b]}))", {"ValueError": "ENotThisMarket"}
    if (isinstance(e, ast.Compare) and len(e.ops) == 1 and isinstance(e.ops[0], ast.Is) and isinstance(e.comparators[0], ast.Constant)
            and e.comparators[0].value is None and ast.unparse(e.left) in ("buy_order.placed_at", "sell_order.placed_at")):
        v = ast.unparse(e.left).split(".")[0]
        return f"(is_none (Some (placed {v})))", {"ValueError": "ENotSubmitted"}
    if isinstance(e, ast.Compare) and len(e.ops) == 1 and isinstance(e.ops[0], (ast.LtE, ast.Lt)) and is_z(e.left) and is_z(e.comparators[0]):
        op = "<=?" if isinstance(e.ops[0], ast.LtE) else "<?"
        return f"({zexpr(e.left)} {op} {zexpr(e.comparators[0])})", {"AssertionError": "EAssertWalk"}
    raise Unsupported("condition " + t[:80])


def translate(repo):
    mod = ast.parse(open(os.path.join(repo, "pams/market.py")).read())
    cs = [n for n in mod.body if isinstance(n, ast.ClassDef) and n.name == "Market"]
    if len(cs) != 1:
        raise Unsupported("class Market not found exactly once")
    fs = [n for n in cs[0].body if isinstance(n, ast.FunctionDef) and n.name == "_execute_orders"]
    if len(fs) != 1 or fs[0].decorator_list:
        raise Unsupported("method _execute_orders not found exactly once (undecorated)")
    a = fs[0].args
    if [x.arg for x in a.args] != ["self", "price", "volume", "buy_order", "sell_order"] or a.vararg or a.kwarg or a.kwonlyargs or a.defaults:
        raise Unsupported("signature of _execute_orders")
    body = pynorm.normalise(fs[0], cs[0], returns_none=False)
    lines, logvar, reported, returned = [], None, 0, False
    for k, s in enumerate(body):
        if returned:
            raise Unsupported("statement after return")
        t = ast.unparse(s)
        if isinstance(s, ast.If) and not s.orelse and len(s.body) == 1 and isinstance(s.body[0], ast.Raise):
            c, kinds = cond(s.test)
            exc = s.body[0].exc
            name = exc.func.id if isinstance(exc, ast.Call) and isinstance(exc.func, ast.Name) else (exc.id if isinstance(exc, ast.Name) else None)
            if name not in kinds:
                raise Unsupported("raise " + ast.unparse(s)[:100])
            lines.append(f"  if {c} then Err {kinds[name]} else")
        elif (isinstance(s, (ast.Assign, ast.AnnAssign)) and isinstance(s.value, ast.Call) and ast.unparse(s.value.func) == "ExecutionLog"
              and isinstance(getattr(s, "target", None) or s.targets[0], ast.Name)):
            if logvar is not None or s.value.args or sorted(kw.arg for kw in s.value.keywords) != sorted(LOGARGS):
                raise Unsupported("the execution log: " + t[:120])
            kw = {x.arg: x.value for x in s.value.keywords}
            logvar = (getattr(s, "target", None) or s.targets[0]).id
            args = [zexpr(kw[n]) for n in LOGARGS[:6]] + [qexpr(kw["price"]), zexpr(kw["volume"])]
            lines.append(f"  let {logvar} := RExec " + " ".join(args) + " in")
        elif isinstance(s, ast.Expr) and isinstance(s.value, ast.Call) and ast.unparse(s.value.func) in (
                "self.buy_order_book.change_order_volume", "self.sell_order_book.change_order_volume"):
            side = ast.unparse(s.value.func).split(".")[1].split("_")[0]
            kw = {x.arg: x.value for x in s.value.keywords}
            if s.value.args or sorted(kw) != ["delta", "order"] or ast.unparse(kw["order"]) != f"{side}_order":
                raise Unsupported("change_order_volume: " + t[:120])
            lines.append(f"  do m <- change_volume {'true' if side == 'buy' else 'false'} m {side}_order {zexpr(kw['delta'])};")
        elif isinstance(s, (ast.Assign, ast.AugAssign)) and ast.unparse(s.targets[0] if isinstance(s, ast.Assign) else s.target) in CELLS:
            tgt = ast.unparse(s.targets[0] if isinstance(s, ast.Assign) else s.target)
            fld, ty = CELLS[tgt]
            if isinstance(s, ast.AugAssign):
                if not isinstance(s.op, ast.Add) or ty == "OQ":
                    raise Unsupported("statement " + t[:100])
                v = (f"({zexpr(ast.parse(tgt, mode='eval').body)} + {zexpr(s.value)})" if ty == "Z"
                     else f"(qadd {qexpr(ast.parse(tgt, mode='eval').body)} {qexpr(s.value)})")
            else:
                v = {"OQ": lambda: f"(Some {qexpr(s.value)})", "Z": lambda: zexpr(s.value), "Q": lambda: qexpr(s.value)}[ty]()
            lines.append(f"  let m := m <| {fld} := upd ({fld} m) (zi (m_time m)) {v} |> in")
        elif t == "self._update_market_price()":
            lines.append("  let m := update_market_price m in")
        elif (isinstance(s, ast.If) and ast.unparse(s.test) == "self.logger is not None" and not s.orelse and len(s.body) == 1
              and logvar and ast.unparse(s.body[0]) == f"{logvar}.read_and_write(logger=self.logger)"):
            reported += 1
        elif isinstance(s, ast.Return) and logvar and ast.unparse(s.value) == logvar:
            returned = True
        else:
            raise Unsupported("statement " + t[:100])
    if not returned or reported != 1:
        raise Unsupported(f"the fill is reported {reported} times and {'is' if returned else 'is not'} returned")
    return ("(* GENERATED by harness/py2coq_fill.py - do not edit *)\n"
            "Require Import Pams.Prelude Pams.Match Pams.Market Pams.OrderPy Pams.FillPy.\nFrom RecordUpdate Require Import RecordSet.\n"
            "Import RecordSetNotations.\nOpen Scope Z_scope.\n\n(* pams/market.py: Market._execute_orders *)\n"
            "Definition execute_orders_gen (m : market) (price : Q) (volume : Z) (buy_order sell_order : O) : result (market * record) :=\n"
            + "\n".join(lines) + f"\n  Ok (m, {logvar}).\n")


if __name__ == "__main__":
    sys.stdout.write(translate(os.environ.get("PAMS_REPO", "/repo")))
