"""Tie (a), seventh translator: Market._update_market_price -> Gallina.  A method that reads a few Optional[float] values and stores into
two "cells" (the entries of the mid-price and market-price series at the current time).  Fail-closed.

Cells (exact source text): self._mid_prices[self.time] -> mid, self._market_prices[self.time] -> mp (both read and written),
self._last_executed_prices[self.time] -> last (read only).  Other reads: self.get_best_buy_price() -> bb, self.get_best_sell_price() -> bs
(Optional[float]), self.is_running -> running (bool).
Statements: `x = e` / `x: Optional[float] = e` (a local, possibly assigned on several paths), a bare declaration `x: T`; `<cell> = e`;
`if c: ... [elif ...] [else: ...]`; a bare `return`.
Expressions (Optional[float] valued): locals, cells, None, float constants, + - * / (TypeError when an operand is None, as in Python),
`a if c else b`; conditions: `x is None`, `x is not None`, `self.is_running`, not / and / or (short-circuit).
Every expression is translated into the error monad, so an arithmetic operation on None is an error VALUE of the generated function; the
theorems show it never occurs."""
import ast
import os
import sys
from fractions import Fraction

from py2coq_arith import Unsupported

CELLS = {"self._mid_prices[self.time]": "mid", "self._market_prices[self.time]": "mp"}
READS = {"self._last_executed_prices[self.time]": ("last", "OQ"), "self.get_best_buy_price()": ("bb", "OQ"),
         "self.get_best_sell_price()": ("bs", "OQ"), "self.is_running": ("running", "B")}


def q_lit(v):
    f = Fraction(v)
    return f"({f.numerator} # {f.denominator})" if f >= 0 else f"(Qopp ({-f.numerator} # {f.denominator}))"


class Cells:
    def __init__(self):
        self.locals = {}

    def oq(self, e):
        """-> term of type pres (option Q)"""
        t = ast.unparse(e)
        if t in CELLS:
            return f"(POk {CELLS[t]})"
        if t in READS and READS[t][1] == "OQ":
            return f"(POk {READS[t][0]})"
        if isinstance(e, ast.Name) and e.id in self.locals:
            return f"(POk {self.locals[e.id]})"
        if isinstance(e, ast.Constant) and e.value is None:
            return "(POk None)"
        if isinstance(e, ast.Constant) and isinstance(e.value, (int, float)) and not isinstance(e.value, bool):
            return f"(POk (Some {q_lit(e.value)}))"
        if isinstance(e, ast.BinOp) and isinstance(e.op, (ast.Add, ast.Sub, ast.Mult, ast.Div)):
            op = {ast.Add: "qadd", ast.Sub: "qsub", ast.Mult: "qmul", ast.Div: "qdiv"}[type(e.op)]
            return f"(oq_arith {op} {self.oq(e.left)} {self.oq(e.right)})"
        if isinstance(e, ast.IfExp):
            return f"(pif {self.cond(e.test)} {self.oq(e.body)} {self.oq(e.orelse)})"
        raise Unsupported("expression " + t[:100])

    def cond(self, e):
        """-> term of type pres bool"""
        t = ast.unparse(e)
        if t in READS and READS[t][1] == "B":
            return f"(POk {READS[t][0]})"
        if (isinstance(e, ast.Compare) and len(e.ops) == 1 and isinstance(e.ops[0], (ast.Is, ast.IsNot))
                and isinstance(e.comparators[0], ast.Constant) and e.comparators[0].value is None):
            x = f"(pis_none {self.oq(e.left)})"
            return x if isinstance(e.ops[0], ast.Is) else f"(pnot {x})"
        if isinstance(e, ast.UnaryOp) and isinstance(e.op, ast.Not):
            return f"(pnot {self.cond(e.operand)})"
        if isinstance(e, ast.BoolOp):
            op = "pand" if isinstance(e.op, ast.And) else "por"
            ts = [self.cond(v) for v in e.values]
            acc = ts[-1]
            for x in reversed(ts[:-1]):
                acc = f"({op} {x} {acc})"
            return acc
        raise Unsupported("condition " + t[:100])

    def stmts(self, body):
        if not body:
            return "(POk (mid, mp))"
        s, rest = body[0], body[1:]
        if isinstance(s, ast.Expr) and isinstance(s.value, ast.Constant) and isinstance(s.value.value, str):
            return self.stmts(rest)
        if isinstance(s, ast.Return) and s.value is None:
            return "(POk (mid, mp))"
        if isinstance(s, ast.AnnAssign) and s.value is None and isinstance(s.target, ast.Name):
            return self.stmts(rest)              # a bare declaration `x: T`
        if isinstance(s, (ast.Assign, ast.AnnAssign)):
            tgt = s.targets[0] if isinstance(s, ast.Assign) and len(s.targets) == 1 else getattr(s, "target", None)
            if tgt is None or s.value is None:
                raise Unsupported("assignment " + ast.unparse(s)[:80])
            tt = ast.unparse(tgt)
            if tt in CELLS:
                c = CELLS[tt]
                return f"(pbindm {self.oq(s.value)} (fun {c} =>\n {self.stmts(rest)}))"
            if isinstance(tgt, ast.Name) and tgt.id not in ("mid", "mp", "last", "bb", "bs", "running"):
                # an Optional[float] local (assigned again on another path = shadowed on that path)
                v = f"v_{tgt.id}"
                term = self.oq(s.value)
                self.locals[tgt.id] = v
                return f"(pbindm {term} (fun {v} =>\n {self.stmts(rest)}))"
            raise Unsupported("assignment " + ast.unparse(s)[:80])
        if isinstance(s, ast.If):
            # both branches continue with the rest of the method
            return (f"(pif {self.cond(s.test)}\n {self.stmts(list(s.body) + rest)}\n {self.stmts(list(s.orelse) + rest)})")
        raise Unsupported("statement " + ast.unparse(s)[:100])


def translate(repo):
    path = "pams/market.py"
    mod = ast.parse(open(os.path.join(repo, path)).read())
    cs = [n for n in mod.body if isinstance(n, ast.ClassDef) and n.name == "Market"]
    if len(cs) != 1:
        raise Unsupported("class Market not found exactly once")
    fs = [n for n in cs[0].body if isinstance(n, ast.FunctionDef) and n.name == "_update_market_price"]
    if len(fs) != 1 or fs[0].decorator_list:
        raise Unsupported("method _update_market_price not found exactly once (undecorated)")
    fn = fs[0]
    a = fn.args
    if [x.arg for x in a.args] != ["self"] or a.vararg or a.kwarg or a.kwonlyargs or a.defaults:
        raise Unsupported("signature of _update_market_price")
    body = Cells().stmts(fn.body)
    return ("(* GENERATED by harness/py2coq_cells.py - do not edit *)\n"
            "Require Import Pams.Prelude Pams.Match Pams.Market Pams.OrderPy Pams.CellsPy.\nFrom Coq Require Import QArith.\nOpen Scope Z_scope.\n\n"
            f"(* {path}: Market._update_market_price - the new (mid price, market price) of the current time *)\n"
            "Definition ump_gen (bb bs : option Q) (running : bool) (last mid mp : option Q) : pres (option Q * option Q) :=\n"
            f"{body}.\n")


if __name__ == "__main__":
    sys.stdout.write(translate(os.environ.get("PAMS_REPO", "/repo")))
