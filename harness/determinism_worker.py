"""one simulation run in a fresh process; prints a JSON line with the SHA-256 of everything observable.
usage: determinism_worker.py <case index> <runner seed> <mode>     mode: plain | perturbed | twice | after_other | after_twin"""
import copy
import hashlib
import json
import os
import random
import sys
import warnings
warnings.filterwarnings("ignore")
sys.path.insert(0, os.environ.get("PAMS_REPO", "/repo"))


def hx(x):
    if isinstance(x, float):
        return x.hex()
    if isinstance(x, (list, tuple)):
        return [hx(y) for y in x]
    if isinstance(x, dict):
        return {str(k): hx(v) for k, v in sorted(x.items(), key=lambda kv: str(kv[0]))}
    return x


def config(ci):
    """configurations covering every built-in market, agent and event type, correlated fundamentals, randomised endowments,
    agents listing several market groups, high-frequency agents behind a submission rate strictly between 0 and 1"""
    rng = random.Random(1000 + ci)
    cfg = {"simulation": {"markets": ["SpotA", "SpotB", "Idx"], "agents": ["FCN", "MS", "MM", "ARB"],
                          "sessions": [], "fundamentalCorrelations": {"pairwise": [["SpotA-0", "SpotB", rng.choice([0.3, -0.4, 0.7])]]}}}
    cfg["SpotA"] = {"class": "Market", "tickSize": rng.choice([0.01, 0.5, 1.0]), "marketPrice": 300.0, "outstandingShares": 2000,
                    "fundamentalVolatility": 0.002, "fundamentalDrift": 0.0001, "numMarkets": 2}
    cfg["SpotB"] = {"class": "Market", "tickSize": 0.1, "marketPrice": 400.0, "outstandingShares": 2000, "fundamentalVolatility": 0.001}
    cfg["Idx"] = {"class": "IndexMarket", "tickSize": 0.1, "marketPrice": 333.0, "outstandingShares": 2000, "markets": ["SpotA-0", "SpotA-1", "SpotB"]}
    cfg["FCNBase"] = {"class": "FCNAgent", "fundamentalWeight": {"expon": [1.0]}, "chartWeight": {"expon": [0.2]}, "noiseWeight": {"expon": [1.0]},
                      "noiseScale": 0.001, "timeWindowSize": [10, 30], "orderMargin": [0.0, 0.05], "cashAmount": {"uniform": [5000, 15000]},
                      "assetVolume": [10, 100]}
    cfg["FCN"] = {"extends": "FCNBase", "numAgents": rng.randint(6, 14), "markets": ["SpotA", "SpotB", "Idx"]}
    cfg["MS"] = {"extends": "FCNBase", "class": "MarketShareFCNAgent", "from": 0, "to": rng.randint(1, 3), "markets": ["SpotB", "SpotA"], "marginType": "normal"}
    cfg["MM"] = {"class": "MarketMakerAgent", "numAgents": 2, "markets": ["SpotA", "SpotB"], "targetMarket": "SpotB", "netInterestSpread": 0.02,
                 "cashAmount": 10000, "assetVolume": {"normal": [50, 5]}, "orderTimeLength": 2}
    cfg["ARB"] = {"class": "ArbitrageAgent", "numAgents": 2, "markets": ["Idx", "SpotA", "SpotB"], "orderVolume": 1, "orderThresholdPrice": 1.0,
                  "cashAmount": 10000, "assetVolume": 50}
    ses = [{"sessionName": 0, "iterationSteps": rng.randint(8, 20), "withOrderPlacement": True, "withOrderExecution": False, "withPrint": False,
            "maxNormalOrders": 3, "events": ["PLR"]},
           {"sessionName": 1, "iterationSteps": rng.randint(30, 110), "withOrderPlacement": True, "withOrderExecution": True, "withPrint": False,
            "maxNormalOrders": rng.randint(1, 4), "maxHighFrequencyOrders": rng.randint(1, 2), "highFrequencySubmitRate": rng.choice([0.3, 0.5, 0.8]),
            "events": ["FPS", "OMS", "THR"]},
           {"sessionName": 2, "iterationSteps": rng.randint(5, 30), "withOrderPlacement": True, "withOrderExecution": True, "withPrint": False,
            "maxNormalOrders": 2, "hifreqSubmitRate": 0.5}]
    cfg["simulation"]["sessions"] = ses
    cfg["PLR"] = {"class": "PriceLimitRule", "targetMarkets": ["SpotB"], "triggerChangeRate": 0.2}
    cfg["FPS"] = {"class": "FundamentalPriceShock", "target": "SpotA-1", "triggerTime": rng.randint(0, 10), "priceChangeRate": -0.1, "shockTimeLength": 2}
    cfg["OMS"] = {"class": "OrderMistakeShock", "target": "SpotB", "triggerTime": rng.randint(0, 10), "priceChangeRate": -0.05, "orderVolume": 20, "orderTimeLength": 5}
    cfg["THR"] = {"class": "TradingHaltRule", "targetMarkets": ["SpotB"], "triggerChangeRate": 0.03, "haltingTimeLength": 3}
    if ci % 2 == 1:
        del cfg["simulation"]["fundamentalCorrelations"]          # every other configuration has uncorrelated fundamentals
    return cfg


def other_config(ci):
    """a DIFFERENT configuration over the same market names, run first in the mode `after_other`: other volatilities, other drift,
    other correlations (none where the case has one and vice versa), other tick sizes, fewer agents"""
    cfg = config(ci + 57)
    cfg["SpotA"].update(fundamentalVolatility=0.02, fundamentalDrift=-0.0002)
    cfg["SpotB"].update(fundamentalVolatility=0.01)
    if ci % 2 == 1:
        cfg["simulation"]["fundamentalCorrelations"] = {"pairwise": [["SpotA-0", "SpotB", 0.6], ["SpotA-1", "SpotB", -0.5]]}
    else:
        cfg["simulation"].pop("fundamentalCorrelations", None)
    for ses in cfg["simulation"]["sessions"]:
        ses["iterationSteps"] = min(ses["iterationSteps"], 12)
    return cfg


def twin_config(ci):
    """the SAME configuration except for the fundamental correlations (none where the case has one, one where it has none), run first in
    the mode `after_twin`: same markets, same volatilities, same everything else"""
    cfg = config(ci)
    if "fundamentalCorrelations" in cfg["simulation"]:
        del cfg["simulation"]["fundamentalCorrelations"]
    else:
        cfg["simulation"]["fundamentalCorrelations"] = {"pairwise": [["SpotA-0", "SpotB", 0.8]]}
    for ses in cfg["simulation"]["sessions"]:
        ses["iterationSteps"] = min(ses["iterationSteps"], 12)
    return cfg


def one_run(cfg, seed, perturb):
    import numpy as np
    from pams.runners import SequentialRunner
    from pams.logs import Logger
    h = hashlib.sha256()
    counts = {"fills": 0, "logs": 0}

    class Rec(Logger):
        def process(s, logs):
            for l in logs:
                d = {k: v for k, v in vars(l).items() if isinstance(v, (int, float, str, bool, type(None)))}
                h.update(json.dumps([type(l).__name__, hx(d)], sort_keys=True).encode())
                counts["logs"] += 1
                if type(l).__name__ == "ExecutionLog":
                    counts["fills"] += 1
    settings = copy.deepcopy(cfg)
    before = copy.deepcopy(settings)
    if perturb:
        random.seed(perturb * 7919)
        np.random.seed(perturb)
        for _ in range(perturb % 5 + 1):
            random.random()
            np.random.random()
    r = SequentialRunner(settings=settings, prng=random.Random(seed), logger=Rec())
    r._setup()
    if perturb:
        random.seed(perturb * 31)
        np.random.seed(perturb + 5)
        random.random()
    r._run()
    sim = r.simulator
    for m in sim.markets:
        h.update(json.dumps(hx([m.get_market_prices(), m.get_fundamental_prices(), m.get_executed_volumes(),
                                [None if x is None else x for x in m.get_mid_prices()]])).encode())
    for a in sim.agents:
        h.update(json.dumps(hx([a.agent_id, a.name, a.cash_amount, a.asset_volumes])).encode())
    return h.hexdigest(), settings == before, counts


def main():
    ci, seed, mode = int(sys.argv[1]), int(sys.argv[2]), sys.argv[3]
    cfg = config(ci)
    if mode == "twice":
        one_run(cfg, seed + 1, 0)
        d, ok, counts = one_run(cfg, seed, 0)
    elif mode == "after_other":
        one_run(other_config(ci), seed + 5, 0)
        d, ok, counts = one_run(cfg, seed, 0)
    elif mode == "after_twin":
        one_run(twin_config(ci), seed + 9, 0)
        d, ok, counts = one_run(cfg, seed, 0)
    elif mode == "perturbed":
        d, ok, counts = one_run(cfg, seed, 3 + ci)
    else:
        d, ok, counts = one_run(cfg, seed, 0)
    print(json.dumps({"digest": d, "settings_untouched": ok, "fills": counts["fills"], "logs": counts["logs"]}))


if __name__ == "__main__":
    main()
