import random, sys, time, collections
sys.path.insert(0,'/verif/harness')
from common import *
import suite_m, monitors_m
rng=random.Random(int(sys.argv[1]) if len(sys.argv)>1 else 0)
N=int(sys.argv[2]) if len(sys.argv)>2 else 50
cases=[suite_m.gen_history(rng, rng.choice([10,25,40])) for _ in range(N)]
res=[suite_m.run_history(c) for c in cases]
cnt=collections.Counter()
for ci,(c,r) in enumerate(zip(cases,res)):
    tr=monitors_m.Trace(c,r)
    for p,mon in monitors_m.MONITORS.items():
        vs=mon(tr)
        for v in vs:
            cnt[(p,v['rule'])]+=1
            if cnt[(p,v['rule'])]<=2:
                print(ci,p,v['rule'],v['at'],ov_json(v['detail']), tr.case['ops'][v['at']], c['mode'])
print(cnt)
