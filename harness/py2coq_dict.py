"""Tie (a), fifth translator: pams/utils/json_extends.py -> Gallina over the association-list objects of coq/theories/Config.v.
A function over insertion-ordered dicts with one `while` loop.  Fail-closed: the statements must have exactly the shapes listed below
(local names are free, the operations are not); what is read out of each statement - which key is tested and popped, which dict is
searched, which list records the history, the order of the two checks, the filter on the parent's items and which side wins in
`dict(items, **other)` - goes into the generated text, so a change of any of them changes the generated function.

Accepted, in this order:
  E  : List[str] = <param> if <param> is not None else []        the exclusion list (None -> [])
  R  = <param>.copy()                                            the result under construction
  H  : List[str] = [<param>]                                     the history, started with the parent name
  while K in R:                                                  K a string constant
      P : str = R[K]; R.pop(K)                    (or P : str = R.pop(K))
      if P not in W: raise ValueError(...)        }  W a dict parameter; the two checks in either order
      if P in H: raise ValueError(...)            }
      H.append(P)
      D : Dict = W[P]
      R = dict([(k, v) for k, v in D.items() if k not in E], **R)     (or with the roles of the two dicts exchanged; the
                                                                       list may be bound to a local first)
  return R
Strings are interned by the model as integers; the key constant must be "extends" (the model's EXT)."""
import ast
import os
import sys

from py2coq_arith import Unsupported


def _name(e):
    return e.id if isinstance(e, ast.Name) else None


def translate(repo):
    path = "pams/utils/json_extends.py"
    mod = ast.parse(open(os.path.join(repo, path)).read())
    fs = [n for n in mod.body if isinstance(n, ast.FunctionDef) and n.name == "json_extends"]
    if len(fs) != 1 or fs[0].decorator_list:
        raise Unsupported("function json_extends not found exactly once (undecorated)")
    fn = fs[0]
    a = fn.args
    params = [x.arg for x in a.args]
    if (params != ["whole_json", "parent_name", "target_json", "excludes_fields"] or a.vararg or a.kwarg or a.kwonlyargs
            or len(a.defaults) != 1 or not (isinstance(a.defaults[0], ast.Constant) and a.defaults[0].value is None)):
        raise Unsupported("signature of json_extends")
    W, N, T, X = params
    body = [s for s in fn.body if not (isinstance(s, ast.Expr) and isinstance(s.value, ast.Constant) and isinstance(s.value.value, str))]
    if len(body) != 5:
        raise Unsupported(f"{len(body)} statements where 5 are expected")
    s_e, s_r, s_h, s_w, s_ret = body

    def target(s):
        t = s.targets[0] if isinstance(s, ast.Assign) and len(s.targets) == 1 else getattr(s, "target", None)
        if not isinstance(t, ast.Name) or s.value is None:
            raise Unsupported("assignment " + ast.unparse(s)[:80])
        return t.id
    # E = X if X is not None else []
    E = target(s_e)
    if ast.unparse(s_e.value) != f"{X} if {X} is not None else []":
        raise Unsupported("exclusion list: " + ast.unparse(s_e.value))
    # R = T.copy()
    R = target(s_r)
    if ast.unparse(s_r.value) != f"{T}.copy()":
        raise Unsupported("result: " + ast.unparse(s_r.value))
    # H = [N]
    H = target(s_h)
    if ast.unparse(s_h.value) != f"[{N}]":
        raise Unsupported("history: " + ast.unparse(s_h.value))
    if len({E, R, H, W, N, T, X}) != 7:
        raise Unsupported("local names clash")
    # while K in R
    if not (isinstance(s_w, ast.While) and not s_w.orelse and isinstance(s_w.test, ast.Compare) and len(s_w.test.ops) == 1
            and isinstance(s_w.test.ops[0], ast.In) and isinstance(s_w.test.left, ast.Constant)
            and _name(s_w.test.comparators[0]) == R):
        raise Unsupported("loop header")
    K = s_w.test.left.value
    if K != "extends":
        raise Unsupported(f"the inheritance key is {K!r}")
    wb = list(s_w.body)
    if not wb:
        raise Unsupported("empty loop")
    # P = R[K]; R.pop(K)      or      P = R.pop(K)
    s_p = wb.pop(0)
    P = target(s_p)
    if ast.unparse(s_p.value) == f"{R}.pop({K!r})":
        pass
    elif ast.unparse(s_p.value) == f"{R}[{K!r}]" and wb and ast.unparse(wb[0]) == f"{R}.pop({K!r})":
        wb.pop(0)
    else:
        raise Unsupported("parent name: " + ast.unparse(s_p.value))
    if len(wb) not in (5, 6):
        raise Unsupported(f"{len(wb)} statements after the parent name where 5 or 6 are expected")
    c1, c2, s_app, s_d = wb[:4]
    s_m = wb[-1]
    s_l = wb[4] if len(wb) == 6 else None        # optional: the filtered items bound to a local first
    checks = []
    for c in (c1, c2):
        if not (isinstance(c, ast.If) and not c.orelse and len(c.body) == 1 and isinstance(c.body[0], ast.Raise)
                and isinstance(c.body[0].exc, ast.Call) and _name(c.body[0].exc.func) == "ValueError"):
            raise Unsupported("check: " + ast.unparse(c)[:80])
        t = ast.unparse(c.test)
        if t == f"{P} not in {W}":
            checks.append("missing")
        elif t == f"{P} in {H}":
            checks.append("loop")
        else:
            raise Unsupported("check condition: " + t)
    if sorted(checks) != ["loop", "missing"]:
        raise Unsupported("the two checks: " + ", ".join(checks))
    if ast.unparse(s_app) != f"{H}.append({P})":
        raise Unsupported("history update: " + ast.unparse(s_app))
    D = target(s_d)
    if ast.unparse(s_d.value) != f"{W}[{P}]" or D in (E, R, H, W, N, T, X, P):
        raise Unsupported("parent dict: " + ast.unparse(s_d.value))
    # R = dict([(k, v) for k, v in A.items() if k not in E], **B)
    if target(s_m) != R:
        raise Unsupported("merge target")
    m = s_m.value
    if not (isinstance(m, ast.Call) and _name(m.func) == "dict" and len(m.args) == 1 and len(m.keywords) == 1 and m.keywords[0].arg is None):
        raise Unsupported("merge: " + ast.unparse(m)[:100])
    comp = m.args[0]
    if s_l is not None:
        L = target(s_l)
        if _name(comp) != L or L in (E, R, H, W, N, T, X, P, D):
            raise Unsupported("merge of a local that is not the item list")
        comp = s_l.value
    if not (isinstance(comp, ast.ListComp) and len(comp.generators) == 1):
        raise Unsupported("merge: " + ast.unparse(m)[:100])
    m = ast.Call(func=m.func, args=[comp], keywords=m.keywords)
    g = m.args[0].generators[0]
    kv = [x.id for x in g.target.elts] if isinstance(g.target, ast.Tuple) and all(isinstance(x, ast.Name) for x in g.target.elts) else None
    if (kv is None or len(kv) != 2 or ast.unparse(m.args[0].elt) != f"({kv[0]}, {kv[1]})" or g.is_async
            or not (isinstance(g.iter, ast.Call) and isinstance(g.iter.func, ast.Attribute) and g.iter.func.attr == "items"
                    and not g.iter.args and not g.iter.keywords)):
        raise Unsupported("comprehension: " + ast.unparse(m.args[0])[:100])
    first = _name(g.iter.func.value)
    second = _name(m.keywords[0].value)
    if {first, second} != {D, R}:
        raise Unsupported(f"merge of {first} and {second}")
    if len(g.ifs) == 0:
        flt = None
    elif len(g.ifs) == 1 and ast.unparse(g.ifs[0]) == f"{kv[0]} not in {E}":
        flt = "excl"
    else:
        raise Unsupported("filter: " + " and ".join(ast.unparse(x) for x in g.ifs))
    if not (isinstance(s_ret, ast.Return) and _name(s_ret.value) == R):
        raise Unsupported("return: " + ast.unparse(s_ret))
    coq = {D: "pd", R: "results"}
    items = coq[first] if flt is None else f"(filter (fun kv => negb (memz (fst kv) excl)) {coq[first]})"
    merged = f"(merge {items} {coq[second]})"
    chk = {"missing": None, "loop": "if memz parent hist then PErr PyValueError else"}
    # the two checks in source order; `missing` is the lookup itself
    if checks == ["missing", "loop"]:
        inner = ("match lookup_whole parent whole with\n      | None => PErr PyValueError\n      | Some pd =>\n"
                 f"        {chk['loop']}\n        POk (Some (hist ++ [parent], {merged}))\n      end")
    else:
        inner = (f"{chk['loop']}\n      match lookup_whole parent whole with\n      | None => PErr PyValueError\n"
                 f"      | Some pd => POk (Some (hist ++ [parent], {merged}))\n      end")
    return ("(* GENERATED by harness/py2coq_dict.py - do not edit *)\n"
            "Require Import Pams.Prelude Pams.Match Pams.Market Pams.OrderPy Pams.Config.\nOpen Scope Z_scope.\n\n"
            f"(* {path}: one turn of the loop `while \"extends\" in results` - None when the loop ends *)\n"
            "Definition jext_turn_gen (whole : list (Z * obj)) (excl : list Z) (st : list Z * obj) : pres (option (list Z * obj)) :=\n"
            "  let '(hist, results) := st in\n"
            "  match lookup EXT results with\n  | None => POk None\n  | Some parent =>\n"
            "      let results := remove_key EXT results in\n"
            f"      {inner}\n  end.\n\n"
            "(* the loop with fuel (PErr PyException = out of fuel) and the function *)\n"
            "Fixpoint jext_loop_gen (fuel : nat) (whole : list (Z * obj)) (excl : list Z) (st : list Z * obj) : pres obj :=\n"
            "  match fuel with\n  | 0%nat => PErr PyException\n  | S f => match jext_turn_gen whole excl st with\n"
            "           | PErr e => PErr e\n           | POk None => POk (snd st)\n           | POk (Some st') => jext_loop_gen f whole excl st'\n           end\n  end.\n"
            "Definition json_extends_gen (fuel : nat) (whole : list (Z * obj)) (name : Z) (target : obj) (excl : list Z) : pres obj :=\n"
            "  jext_loop_gen fuel whole excl ([name], target).\n")


if __name__ == "__main__":
    sys.stdout.write(translate(os.environ.get("PAMS_REPO", "/repo")))
