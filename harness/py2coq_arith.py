"""Tie (a), second translator: small arithmetic methods of /repo (straight-line float code with `if`) -> Gallina over exact
rationals.  Fail-closed: only the constructs listed below are accepted, anything else raises Unsupported and the tie is
reported broken.  Python floats are read as rationals (finite doubles are rationals; rounding of +,-,*,/ is NOT modelled here:
the float reading is covered by the correspondence checks and the property's own hedge), `int` as Z.

Accepted:
  statements : docstring; `x = e` / `x: T = e` to a fresh local; `if c: ... [else: ...]`; `return e`; `raise Cls`;
               the narrowing pattern `if <opt> is None: return <opt>`
  expressions: parameters, `self.<attr>` listed in the unit spec, whole sub-expressions listed in the unit spec (matched by their
               exact source text), int / float constants, + - * /, unary -, abs(x), min(a, b), max(a, b), math.floor(x), math.ceil(x),
               comparisons < <= > >= == !=, `not`, and/or, calls of sibling methods listed in the unit spec (keyword or positional
               arguments)
Types: Q (float), Z (int), B (bool), OQ (Optional[float])."""
import ast
import copy
import os
import sys
from fractions import Fraction


class Unsupported(Exception):
    pass


def q_lit(v):
    f = Fraction(v)
    return f"({f.numerator} # {f.denominator})" if f >= 0 else f"(Qopp ({-f.numerator} # {f.denominator}))"


class Unit:
    def __init__(self, path, cls, method, coq_name, params, ret, mapped=None, siblings=None, objects=None, poppable=(),
                 effects=None, tail=None, rewrite=None):
        self.path, self.cls, self.method, self.coq_name = path, cls, method, coq_name
        self.params = params            # python name -> (coq name, type), in Coq argument order (dict keeps order)
        self.ret = ret                  # Q | Z | OQ
        self.mapped = mapped or {}      # source text -> (coq name, type): extra Coq arguments standing for that expression
        self.siblings = siblings or {}  # method name -> (coq function, [python arg names], result type, [trailing Coq args])
        self.objects = objects or {}    # local name -> exact source text of the expression it must be bound to (an object, not a value)
        self.poppable = tuple(poppable) # dict-valued locals on which `X.pop(None)` may be called; mapped keys then read "text|X,Y"
        self.effects = effects or {}    # exact source text of a statement that only has effects -> the statement standing for it
        self.tail = tail                # a statement appended to the body (the value of falling off the end)
        self.rewrite = rewrite          # FunctionDef -> FunctionDef: a unit-specific, fail-closed reading of effect statements


def coerce(term, ty, want):
    if ty == want:
        return term
    if ty == "Zlit" and want == "Z":
        return term
    if ty in ("Z", "Zlit") and want == "Q":
        return f"(inject_Z {term})"
    raise Unsupported(f"cannot use a value of type {ty} as {want}")


class Tr:
    def __init__(self, unit):
        self.u = unit

    # -------------------------------------------------------------------------------------------- expressions
    def value(self, e, env):
        u = self.u
        txt = ast.unparse(e)
        if u.poppable:
            mentioned = sorted(n for n in u.poppable if any(isinstance(x, ast.Name) and x.id == n for x in ast.walk(e)))
            if mentioned:
                key = txt + "|" + ",".join(n for n in mentioned if n in env.get("@popped", ()))
                if key in u.mapped:
                    return u.mapped[key]
                if isinstance(e, (ast.Subscript, ast.Call)):
                    raise Unsupported(f"`{txt}` in this state of {mentioned}")
        if txt in u.mapped:
            for n in u.objects:
                if any(isinstance(x, ast.Name) and x.id == n for x in ast.walk(e)) and n not in env.get("@bound", ()):
                    raise Unsupported(f"`{txt}` before {n} is bound")
            return u.mapped[txt]
        if isinstance(e, ast.Name) and e.id in env:
            return env[e.id]
        if isinstance(e, ast.Constant) and isinstance(e.value, bool):
            return ("true" if e.value else "false", "B")
        if isinstance(e, ast.Constant) and isinstance(e.value, int):
            return (f"({e.value})", "Zlit")
        if isinstance(e, ast.Constant) and isinstance(e.value, float):
            return (q_lit(e.value), "Q")
        if isinstance(e, ast.UnaryOp) and isinstance(e.op, ast.USub):
            t, ty = self.value(e.operand, env)
            if ty == "Q":
                return (f"(Qopp {t})", "Q")
            if ty in ("Z", "Zlit"):
                return (f"(- {t})", "Z")
        if isinstance(e, ast.UnaryOp) and isinstance(e.op, ast.Not):
            t, ty = self.value(e.operand, env)
            if ty == "B":
                return (f"(negb {t})", "B")
            if ty == "PB":
                return (f"(pnot {t})", "PB")
        if isinstance(e, ast.BoolOp):
            vs = [self.value(v, env) for v in e.values]
            if all(ty == "B" for _, ty in vs):
                op = "&&" if isinstance(e.op, ast.And) else "||"
                return ("(" + f" {op} ".join(t for t, _ in vs) + ")", "B")
            if all(ty in ("B", "PB") for _, ty in vs):
                # a comparison that may raise (None compared with < or <=): short-circuit evaluation in the error monad
                op = "pand" if isinstance(e.op, ast.And) else "por"
                ts = [t if ty == "PB" else f"(POk {t})" for t, ty in vs]
                acc = ts[-1]
                for t in reversed(ts[:-1]):
                    acc = f"({op} {t} {acc})"
                return (acc, "PB")
        if isinstance(e, ast.BinOp) and isinstance(e.op, (ast.Add, ast.Sub, ast.Mult, ast.Div)):
            (a, ta), (b, tb) = self.value(e.left, env), self.value(e.right, env)
            if isinstance(e.op, ast.Div):
                return (f"(qdiv {coerce(a, ta, 'Q')} {coerce(b, tb, 'Q')})", "Q")
            if ta in ("Z", "Zlit") and tb in ("Z", "Zlit"):
                op = {ast.Add: "+", ast.Sub: "-", ast.Mult: "*"}[type(e.op)]
                return (f"({a} {op} {b})%Z", "Z")
            f = {ast.Add: "qadd", ast.Sub: "qsub", ast.Mult: "qmul"}[type(e.op)]
            return (f"({f} {coerce(a, ta, 'Q')} {coerce(b, tb, 'Q')})", "Q")
        if isinstance(e, ast.Call):
            f = e.func
            if isinstance(f, ast.Name) and f.id in ("abs", "min", "max") and not e.keywords:
                args = [self.value(a, env) for a in e.args]
                if f.id == "abs" and len(args) == 1:
                    return (f"(qabs {coerce(*args[0], 'Q')})", "Q")
                if f.id in ("min", "max") and len(args) == 2:
                    return (f"(q{f.id} {coerce(*args[0], 'Q')} {coerce(*args[1], 'Q')})", "Q")
            if (isinstance(f, ast.Attribute) and isinstance(f.value, ast.Name) and f.value.id == "math"
                    and f.attr in ("floor", "ceil") and len(e.args) == 1 and not e.keywords):
                t = coerce(*self.value(e.args[0], env), "Q")
                return (f"(Qfloor {t})" if f.attr == "floor" else f"(Qceiling {t})", "Z")
        if isinstance(e, ast.Compare) and len(e.ops) == 2 and isinstance(e.comparators[0], ast.Name):
            c1 = ast.Compare(left=e.left, ops=[e.ops[0]], comparators=[e.comparators[0]])
            c2 = ast.Compare(left=e.comparators[0], ops=[e.ops[1]], comparators=[e.comparators[1]])
            (a, ta), (b, tb) = self.value(c1, env), self.value(c2, env)
            if ta == "B" and tb == "B":
                return (f"({a} && {b})", "B")
            raise Unsupported("chained comparison " + txt[:80])
        if isinstance(e, ast.Compare) and len(e.ops) == 1:
            l, r, op = e.left, e.comparators[0], e.ops[0]
            if isinstance(r, ast.Constant) and r.value is None and isinstance(op, (ast.Is, ast.IsNot)):
                t, ty = self.value(l, env)
                if ty != "OQ":
                    raise Unsupported("`is None` on a non-optional value")
                c = f"(match {t} with None => true | Some _ => false end)"
                return (c if isinstance(op, ast.Is) else f"(negb {c})", "B")
            (a, ta), (b, tb) = self.value(l, env), self.value(r, env)
            if ta in ("Z", "Zlit") and tb in ("Z", "Zlit"):
                f = {ast.Lt: "Z.ltb {a} {b}", ast.LtE: "Z.leb {a} {b}", ast.Gt: "Z.ltb {b} {a}", ast.GtE: "Z.leb {b} {a}",
                     ast.Eq: "Z.eqb {a} {b}", ast.NotEq: "negb (Z.eqb {a} {b})"}.get(type(op))
            elif ta == "OQ" and tb == "OQ":
                # Optional[float] compared: == / != are total, an ordering with None raises TypeError
                if isinstance(op, (ast.Eq, ast.NotEq)):
                    t = f"(oq_eqb {a} {b})"
                    return (t if isinstance(op, ast.Eq) else f"(negb {t})", "B")
                g = {ast.Lt: "oq_lt", ast.LtE: "oq_le", ast.Gt: "oq_gt", ast.GtE: "oq_ge"}.get(type(op))
                if g is None:
                    raise Unsupported("operator " + type(op).__name__)
                return (f"({g} {a} {b})", "PB")
            elif ta == "OQ" or tb == "OQ":
                raise Unsupported("comparison of an Optional value with a plain one")
            else:
                a, b = coerce(a, ta, "Q"), coerce(b, tb, "Q")
                f = {ast.Lt: "qltb {a} {b}", ast.LtE: "qleb {a} {b}", ast.Gt: "qltb {b} {a}", ast.GtE: "qleb {b} {a}",
                     ast.Eq: "qeqb {a} {b}", ast.NotEq: "negb (qeqb {a} {b})"}.get(type(op))
            if f is None:
                raise Unsupported("operator " + type(op).__name__)
            return ("(" + f.format(a=a, b=b) + ")", "B")
        raise Unsupported("expression " + txt[:120])

    # -------------------------------------------------------------------------------------------- statements
    def ret(self, t, ty):
        want = self.u.ret
        if want == "B" and ty == "PB":
            return t
        if want == "OQ":
            if ty == "OQ":
                return f"(POk {t})"
            return f"(POk (Some {coerce(t, ty, 'Q')}))"
        if want == "OZ":
            if ty == "OZ":
                return f"(POk {t})"
            return f"(POk (Some {coerce(t, ty, 'Z')}))"
        return f"(POk {coerce(t, ty, want)})"

    def stmts(self, body, env, cont):
        if not body:
            if cont is None:
                raise Unsupported("a path falls off the end of the function")
            return cont
        s, rest = body[0], body[1:]
        if isinstance(s, ast.Expr) and isinstance(s.value, ast.Constant) and isinstance(s.value.value, str):
            return self.stmts(rest, env, cont)
        if (isinstance(s, ast.Expr) and isinstance(s.value, ast.Call) and isinstance(s.value.func, ast.Attribute)
                and s.value.func.attr == "pop" and isinstance(s.value.func.value, ast.Name) and s.value.func.value.id in self.u.poppable
                and len(s.value.args) == 1 and isinstance(s.value.args[0], ast.Constant) and s.value.args[0].value is None
                and not s.value.keywords):
            n = s.value.func.value.id
            if n in env.get("@popped", ()) or n not in env.get("@bound", ()):
                raise Unsupported("pop(None) on " + n)
            env2 = dict(env)
            env2["@popped"] = tuple(env.get("@popped", ())) + (n,)
            return self.stmts(rest, env2, cont)
        if isinstance(s, ast.AnnAssign) and s.value is None and isinstance(s.target, ast.Name) and s.target.id not in env:
            return self.stmts(rest, env, cont)          # a bare declaration `x: T` binds nothing
        if isinstance(s, (ast.Assign, ast.AnnAssign)):
            tgt = s.targets[0] if isinstance(s, ast.Assign) and len(s.targets) == 1 else getattr(s, "target", None)
            if not isinstance(tgt, ast.Name) or s.value is None:
                raise Unsupported("assignment target")
            if tgt.id in self.u.objects:
                # a local bound to an object: only the exact expression of the unit spec is accepted
                if ast.unparse(s.value) != self.u.objects[tgt.id] or tgt.id in env.get("@bound", ()):
                    raise Unsupported(f"{tgt.id} is bound to `{ast.unparse(s.value)}`")
                env2 = dict(env)
                env2["@bound"] = tuple(env.get("@bound", ())) + (tgt.id,)
                return self.stmts(rest, env2, cont)
            if tgt.id in env or tgt.id in self.u.params or tgt.id in self.u.objects:
                raise Unsupported("re-assignment of " + tgt.id)
            t, ty = self.value(s.value, env)
            if ty == "Zlit":
                ty = "Z"
            if ty == "OQ":
                raise Unsupported("an Optional value assigned to a local before being narrowed")
            env2 = dict(env)
            env2[tgt.id] = (f"v_{tgt.id}", ty)
            return f"(let v_{tgt.id} := {t} in\n {self.stmts(rest, env2, cont)})"
        if isinstance(s, ast.Return):
            if s.value is None:
                raise Unsupported("bare return")
            e = s.value
            f = getattr(e, "func", None)
            if (isinstance(e, ast.Call) and isinstance(f, ast.Attribute) and isinstance(f.value, ast.Name) and f.value.id == "self"
                    and f.attr in self.u.siblings):
                # `return self.<sibling>(...)`: the sibling's result (or exception) is the result
                coq, names, rty, extra = self.u.siblings[f.attr]
                if rty != self.u.ret:
                    raise Unsupported("result type of " + f.attr)
                actual = {}
                for n, a in zip(names, e.args):
                    actual[n] = a
                for k in e.keywords:
                    if k.arg in actual or k.arg not in names:
                        raise Unsupported("arguments of " + f.attr)
                    actual[k.arg] = k.value
                if set(actual) != set(names):
                    raise Unsupported("arguments of " + f.attr)
                return "(" + " ".join([coq] + [self.value(actual[n], env)[0] for n in names] + list(extra)) + ")"
            return self.ret(*self.value(e, env))
        if isinstance(s, ast.Raise):
            x = s.exc
            name = x.func.id if isinstance(x, ast.Call) and isinstance(x.func, ast.Name) else getattr(x, "id", None)
            if name not in ("AssertionError", "ValueError", "NotImplementedError", "Exception"):
                raise Unsupported("raise")
            return f"(PErr Py{name})"
        if isinstance(s, ast.If):
            # narrowing: `if <opt> is None: return <opt>`  =>  match on the option, the rest sees the value
            t = s.test
            if (isinstance(t, ast.Compare) and len(t.ops) == 1 and isinstance(t.ops[0], ast.Is)
                    and isinstance(t.comparators[0], ast.Constant) and t.comparators[0].value is None and not s.orelse
                    and len(s.body) == 1 and isinstance(s.body[0], ast.Return) and s.body[0].value is not None
                    and ast.unparse(s.body[0].value) == ast.unparse(t.left)):
                txt = ast.unparse(t.left)
                term, ty = self.value(t.left, env)
                if ty == "OQ" and self.u.ret == "OQ":
                    env2 = dict(env)
                    narrowed = dict(self.u.mapped)
                    sub = Tr(self.u)
                    sub.u = Unit(self.u.path, self.u.cls, self.u.method, self.u.coq_name, self.u.params, self.u.ret,
                                 {**self.u.mapped, txt: ("nv", "Q")}, self.u.siblings)
                    if txt in env:
                        env2[txt] = ("nv", "Q")
                    return f"(match {term} with\n | None => POk None\n | Some nv => {sub.stmts(rest, env2, cont)}\n end)"
            c, ty = self.value(s.test, env)
            if ty not in ("B", "PB"):
                raise Unsupported("condition of type " + ty)
            k = self.stmts(rest, env, cont) if (rest or cont is not None) else None
            thn = self.stmts(s.body, env, k)
            els = self.stmts(s.orelse, env, k) if s.orelse else k
            if els is None:
                raise Unsupported("a path falls off the end of the function")
            if ty == "PB":
                return f"(pif {c}\n {thn}\n {els})"
            return f"(if {c}\n then {thn}\n else {els})"
        raise Unsupported("statement " + ast.unparse(s)[:120])

    def translate(self, repo):
        u = self.u
        mod = ast.parse(open(os.path.join(repo, u.path)).read())
        cls = [n for n in mod.body if isinstance(n, ast.ClassDef) and n.name == u.cls]
        if len(cls) != 1:
            raise Unsupported(f"class {u.cls} not found exactly once in {u.path}")
        fns = [n for n in cls[0].body if isinstance(n, ast.FunctionDef) and n.name == u.method]
        if len(fns) != 1 or fns[0].decorator_list:
            raise Unsupported(f"method {u.method} not found exactly once (undecorated)")
        fn = fns[0]
        if u.rewrite:
            fn = u.rewrite(fn)
        if u.effects or u.tail:
            # effect blocks: a statement whose source text is pinned in the unit spec is replaced by the statement that stands for
            # it (each must occur exactly once); anything else that only has effects stays unsupported
            def canon(text_or_node):
                """the statement's text with the variable of a leading `for` renamed to a fixed name (the pinned text is compared up to
                the name of its loop variable)"""
                n = ast.parse(text_or_node).body[0] if isinstance(text_or_node, str) else text_or_node
                if isinstance(n, ast.For) and isinstance(n.target, ast.Name):
                    old_name = n.target.id
                    used = {x.id for x in ast.walk(n) if isinstance(x, ast.Name)}
                    if "_lv" not in used:
                        n = copy.deepcopy(n)
                        for x in ast.walk(n):
                            if isinstance(x, ast.Name) and x.id == old_name:
                                x.id = "_lv"
                return ast.unparse(n)
            pinned = {canon(k): k for k in u.effects}
            found = {k: 0 for k in u.effects}

            class Eff(ast.NodeTransformer):
                def visit(self, n):
                    if isinstance(n, ast.stmt) and not isinstance(n, ast.FunctionDef) and canon(n) in pinned:
                        k = pinned[canon(n)]
                        found[k] += 1
                        return ast.parse(u.effects[k]).body[0]
                    return self.generic_visit(n)
            fn = Eff().visit(fn)
            missing = [k.splitlines()[0] for k, c in found.items() if c != 1]
            if missing:
                raise Unsupported("effect block not found exactly once: " + "; ".join(missing)[:200])
            if u.tail:
                fn.body.append(ast.parse(u.tail).body[0])
        names = [a.arg for a in fn.args.args]
        if fn.args.vararg or fn.args.kwarg or fn.args.kwonlyargs or fn.args.defaults:
            raise Unsupported("signature of " + u.method)
        py_params = [n for n in names if n != "self"]
        if py_params != list(u.params):
            raise Unsupported(f"parameters of {u.method}: {py_params}")
        env = {n: v for n, v in u.params.items() if v[1] != "OBJ"}       # objects are only reachable through mapped expressions
        env["@bound"], env["@popped"] = (), ()
        cty = {"Q": "Q", "Z": "Z", "B": "bool", "OQ": "option Q", "OZ": "option Z"}
        # the same Coq argument may stand for several source texts
        binders = [f"({c} : {cty[t]})" for (c, t) in list(u.params.values()) + list(u.mapped.values()) if t != "OBJ"]
        # a mapped expression may be listed under several texts with the same Coq name: bind once
        seen, uniq = set(), []
        for b in binders:
            if b not in seen:
                seen.add(b)
                uniq.append(b)
        body = self.stmts(fn.body, env, None)
        return f"Definition {u.coq_name} {' '.join(uniq)} : pres ({cty[u.ret]}) :=\n{body}.\n"


def units(repo=None):
    # `order` and `market` are objects: only the expressions listed below may mention them
    pl = Unit("pams/events/price_limit_rule.py", "PriceLimitRule", "get_limited_price", "limited_price_gen",
              params={"order": ("order", "OBJ"), "market": ("market", "OBJ")}, ret="OQ")
    pl.mapped = {"market.get_market_price(0)": ("ref", "Q"), "self.trigger_change_rate": ("rate", "Q"),
                 "order.price": ("price", "OQ"), "market not in self.target_markets.values()": ("not_target", "B")}
    lo = Unit("pams/market.py", "Market", "convert_to_tick_level_rounded_lower", "tick_lower_gen",
              params={"price": ("price", "Q")}, ret="Z", mapped={"self.tick_size": ("tick", "Q")})
    up = Unit("pams/market.py", "Market", "convert_to_tick_level_rounded_upper", "tick_upper_gen",
              params={"price": ("price", "Q")}, ret="Z", mapped={"self.tick_size": ("tick", "Q")})
    return [pl, lo, up]


def executable_unit():
    """Market.remain_executable_orders: the decision whether a matching round has anything to do (C03).  The books are objects;
    what the decision reads from them are the parameters below."""
    sb, bb = "sell_book", "buy_book"
    mapped = {
        "len(self.sell_order_book) == 0": ("sells_empty", "B"), "len(self.buy_order_book) == 0": ("buys_empty", "B"),
        "sell_best.price": ("sp", "OQ"), "buy_best.price": ("bp", "OQ"),
        f"None not in {sb} or None not in {bb}|": ("no_market_key", "B"),
        f"{sb}[None]|": ("sm", "Z"), f"{bb}[None]|": ("bm", "Z"),
        f"len({sb})|{sb}": ("sl", "Z"), f"len({bb})|{bb}": ("bl", "Z"),       # number of limit price levels (None key popped)
    }
    # the least / greatest key of a dict, in its equivalent spellings (iterating a dict iterates its keys; typing.cast is the identity)
    for fn, d, name in (("min", sb, "smin"), ("max", bb, "bmax")):
        for dd in (d, f"cast(Dict[float, int], {d})"):
            for it in (dd, f"{dd}.keys()", f"list({dd})", f"list({dd}.keys())"):
                mapped[f"{fn}({it})|{d}"] = (name, "Q")
    objects = {"sell_best": "cast(Order, self.sell_order_book.get_best_order())",
               "buy_best": "cast(Order, self.buy_order_book.get_best_order())",
               sb: "self.sell_order_book.get_price_volume()", bb: "self.buy_order_book.get_price_volume()"}
    return Unit("pams/market.py", "Market", "remain_executable_orders", "executable_gen", params={}, ret="B",
                mapped=mapped, objects=objects, poppable=(sb, bb))


HALT_EFFECT = """for m in self.target_markets.values():
    if m == market:
        m._is_running = False
        self.halting_time_started = m.time
        self.activation_count += 1
        if simulator.current_session is None:
            raise AssertionError
        simulator.current_session.with_order_execution = False
        self.halted_market = m
        self.halted_session = simulator.current_session"""
RESUME_EFFECT = """for m in self.target_markets.values():
    if m == market:
        if simulator.current_session is None:
            raise AssertionError
        if m is not self.halted_market:
            continue
        if simulator.current_session is self.halted_session:
            simulator.current_session.with_order_execution = True
            m._is_running = True
        self.halted_market = None
        self.halted_session = None
        self.halting_time_started = 0"""


def _guards_to_ifs(fn):
    """guard clauses and `continue` guards back to nested ifs, `x = x + 1` as `x += 1` (harness/pynorm.py steps 3, 3b, 7): meaning-preserving"""
    import pynorm
    fn = copy.deepcopy(fn)
    fn.body = pynorm.augment(pynorm.flips(pynorm.guards([q for q in fn.body if not (isinstance(q, ast.Expr) and isinstance(q.value, ast.Constant)
                                                                                     and isinstance(q.value.value, str))])))
    return fn


def halt_units():
    """TradingHaltRule: the two decisions (C16).  What the rule does once it has decided - stop / restart the market, flip the
    session's switch, remember market and session, count - is modelled by hand (Sim.halt_after_execution / halt_before_step); its
    source text is pinned here, so any edit of it makes the translator fail closed.  `in_targets` stands for `market` being one of
    the rule's target markets (the loop `for m in self.target_markets.values(): if m == market:`)."""
    f = "pams/events/trading_halt_rule.py"
    after = Unit(f, "TradingHaltRule", "hooked_after_execution", "halt_decision_gen",
                 params={"simulator": ("simulator", "OBJ"), "execution_log": ("execution_log", "OBJ")}, ret="B",
                 mapped={"market.get_market_price(0)": ("ref", "Q"), "market.get_market_price()": ("now", "Q"),
                         "self.trigger_change_rate": ("rate", "Q"), "self.activation_count": ("count", "Z"),
                         "market.is_running": ("running", "B"), "__in_targets": ("in_targets", "B")},
                 objects={"market": "simulator.id2market[execution_log.market_id]"},
                 effects={HALT_EFFECT: "return __in_targets"}, tail="return False", rewrite=_guards_to_ifs)
    before = Unit(f, "TradingHaltRule", "hooked_before_step_for_market", "resume_decision_gen",
                  params={"simulator": ("simulator", "OBJ"), "market": ("market", "OBJ")}, ret="B",
                  mapped={"market.get_time()": ("time", "Z"), "self.halting_time_started": ("started", "Z"),
                          "self.halting_time_length": ("len", "Z"), "__in_targets": ("in_targets", "B")},
                  effects={RESUME_EFFECT: "return __in_targets"}, tail="return False", rewrite=_guards_to_ifs)
    return [after, before]


def _rewrite_stmts(fn, f):
    """apply f to every statement list of fn (f: list of statements -> list of statements)"""
    class W(ast.NodeTransformer):
        def generic_visit(self, n):
            super().generic_visit(n)
            for fld in ("body", "orelse"):
                if isinstance(getattr(n, fld, None), list) and getattr(n, fld) and isinstance(getattr(n, fld)[0], ast.stmt):
                    setattr(n, fld, f(getattr(n, fld)))
            return n
    return W().visit(fn)


def shock_units():
    """C14.  FundamentalPriceShock.hooked_before_step_for_market: the two guards, then ONE call
    `market.change_fundamental_price(scale=E)` - read as `return E` (what the call does with the scale is Market.change_fundamental_price,
    modelled by hand).  OrderMistakeShock.hooked_before_order: the guards, then a run of attribute stores on the order - the rewritten
    side, volume, price, time-to-live - which must be exactly [order.is_buy, order.kind = LIMIT_ORDER, order.volume, order.price,
    order.ttl, self.triggerd = True]; one function is generated per stored value (and one saying whether the rule fires); where the rule
    does nothing the order keeps what it had (`keep`)."""
    f1 = "pams/events/fundamental_price_shock.py"

    def call_to_return(fn):
        hits = []

        def f(stmts):
            out = []
            for st in stmts:
                c = st.value if isinstance(st, ast.Expr) else None
                if (isinstance(c, ast.Call) and ast.unparse(c.func) == "market.change_fundamental_price" and not c.args
                        and len(c.keywords) == 1 and c.keywords[0].arg == "scale"):
                    hits.append(1)
                    out.append(ast.copy_location(ast.Return(value=c.keywords[0].value), st))
                else:
                    out.append(st)
            return out
        fn = _rewrite_stmts(fn, f)
        if len(hits) != 1 or not isinstance(fn.body[-1], ast.Return):
            raise Unsupported("exactly one final call market.change_fundamental_price(scale=...) expected")
        return fn
    fs = Unit(f1, "FundamentalPriceShock", "hooked_before_step_for_market", "fund_shock_scale_gen",
              params={"simulator": ("simulator", "OBJ"), "market": ("market", "OBJ")}, ret="Q",
              mapped={"market.get_time()": ("time", "Z"), "self.trigger_time": ("trigger", "Z"), "self.shock_time_length": ("len", "Z"),
                      "market != self.target_market": ("not_target", "B"), "self.price_change_rate": ("rate", "Q")},
              rewrite=call_to_return)
    f2 = "pams/events/order_mistake_shock.py"
    expected = ["order.is_buy", "order.kind", "order.volume", "order.price", "order.ttl", "self.triggerd"]
    pinned = {"order.kind": "LIMIT_ORDER", "self.triggerd": "True"}

    def stores_to_return(pick):
        def rw(fn):
            hits = []

            def is_store(st):
                return (isinstance(st, ast.Assign) and len(st.targets) == 1 and isinstance(st.targets[0], ast.Attribute)
                        and isinstance(st.targets[0].value, ast.Name) and st.targets[0].value.id in ("order", "self"))

            def f(stmts):
                out, i = [], 0
                while i < len(stmts):
                    if is_store(stmts[i]):
                        j = i
                        while j < len(stmts) and is_store(stmts[j]):
                            j += 1
                        run = stmts[i:j]
                        if [ast.unparse(x.targets[0]) for x in run] != expected or j != len(stmts):
                            raise Unsupported("stores on the order: " + ", ".join(ast.unparse(x.targets[0]) for x in run))
                        for x in run:
                            k = ast.unparse(x.targets[0])
                            if k in pinned and ast.unparse(x.value) != pinned[k]:
                                raise Unsupported(f"{k} = {ast.unparse(x.value)}")
                        hits.append(1)
                        val = ast.Constant(value=True) if pick == "fires" else run[expected.index(pick)].value
                        out.append(ast.copy_location(ast.Return(value=val), run[0]))
                        i = j
                    elif isinstance(stmts[i], ast.Return) and stmts[i].value is None:
                        out.append(ast.copy_location(ast.Return(value=ast.Name(id="__keep", ctx=ast.Load())), stmts[i]))
                        i += 1
                    else:
                        out.append(stmts[i])
                        i += 1
                return out
            fn = _rewrite_stmts(fn, f)
            if len(hits) != 1:
                raise Unsupported("exactly one run of stores on the order expected")
            return fn
        return rw
    common = {"order.market_id != self.target_market.market_id": ("other_market", "B"), "self.triggerd": ("spent", "B"),
              "market.get_market_price()": ("base", "Q"), "self.price_change_rate": ("rate", "Q"),
              "self.order_time_length": ("ttl", "Z"), "self.order_volume": ("vol", "Z")}
    ms = []
    for pick, name, ty, kty in (("fires", "mistake_fires_gen", "B", "B"), ("order.is_buy", "mistake_is_buy_gen", "B", "B"),
                                ("order.volume", "mistake_volume_gen", "Z", "Z"), ("order.price", "mistake_price_gen", "OQ", "OQ"),
                                ("order.ttl", "mistake_ttl_gen", "OZ", "OZ")):
        ms.append(Unit(f2, "OrderMistakeShock", "hooked_before_order", name,
                       params={"simulator": ("simulator", "OBJ"), "order": ("order", "OBJ")}, ret=ty,
                       mapped={**common, "__keep": ("keep", kty)},
                       objects={"market": "self.simulator.id2market[order.market_id]"},
                       rewrite=stores_to_return(pick), tail="return __keep"))
    # Market.change_fundamental_price: the last three statements store the new level into the market's own series, into
    # Fundamentals.prices and move the regeneration point (Fund.shock of the C12 / C14 models); one function per stored value
    cf_expected = ["self._fundamental_prices[time]", "self.simulator.fundamentals.prices[self.market_id][time]",
                   "self.simulator.fundamentals._generated_until"]

    def cf_rewrite(pick):
        def rw(fn):
            body = [x for x in fn.body if not (isinstance(x, ast.Expr) and isinstance(x.value, ast.Constant) and isinstance(x.value.value, str))]
            tail = body[-3:]
            if (len(body) < 3 or not all(isinstance(x, ast.Assign) and len(x.targets) == 1 for x in tail)
                    or [ast.unparse(x.targets[0]) for x in tail] != cf_expected):
                raise Unsupported("the three final stores of change_fundamental_price: " +
                                  "; ".join(ast.unparse(x)[:60] for x in body[-3:]))
            if ast.unparse(tail[0].value) != ast.unparse(tail[1].value):
                raise Unsupported("the market's series and Fundamentals.prices get different values")
            for x in body[:-3]:
                if any(isinstance(n, (ast.Subscript, ast.Attribute)) and isinstance(getattr(n, "ctx", None), ast.Store) for n in ast.walk(x)):
                    raise Unsupported("a store before the three final ones: " + ast.unparse(x)[:80])
            fn.body = body[:-3] + [ast.copy_location(ast.Return(value=tail[pick].value), tail[pick])]
            return fn
        return rw
    cf = []
    for pick, name, ty in ((0, "shock_level_gen", "Q"), (2, "shock_until_gen", "Z")):
        cf.append(Unit("pams/market.py", "Market", "change_fundamental_price", name, params={"scale": ("scale", "Q")}, ret=ty,
                       mapped={"self.get_fundamental_price(time=time)": ("cur", "Q"), "time": ("time", "Z")},
                       objects={"time": "self.time"}, rewrite=cf_rewrite(pick)))
    return [fs] + ms + cf


def translate_all(repo, groups=("C15", "C19", "C03")):
    """groups: which units to emit - C15 (price limit), C19 (tick conversions), C03 (remain_executable_orders)"""
    out = ["(* GENERATED by harness/py2coq_arith.py - do not edit *)",
           "Require Import Pams.Prelude Pams.Tick Pams.Match Pams.Market Pams.OrderPy Pams.Sim.",
           "From Coq Require Import QArith Qround.", "Open Scope Z_scope.", ""]
    pl, lo, up = units()
    todo = []
    if "C15" in groups:
        todo.append(pl)
    if "C19" in groups:
        lvl = Unit("pams/market.py", "Market", "convert_to_tick_level", "tick_level_gen",
                   params={"price": ("price", "Q"), "is_buy": ("is_buy", "B")}, ret="Z", mapped={"self.tick_size": ("tick", "Q")},
                   siblings={"convert_to_tick_level_rounded_lower": ("tick_lower_gen", ["price"], "Z", ["tick"]),
                             "convert_to_tick_level_rounded_upper": ("tick_upper_gen", ["price"], "Z", ["tick"])})
        cp = Unit("pams/market.py", "Market", "convert_to_price", "to_price_gen",
                  params={"tick_level": ("tick_level", "Z")}, ret="Q", mapped={"self.tick_size": ("tick", "Q")})
        todo += [lo, up, lvl, cp]
    if "C03" in groups:
        todo.append(executable_unit())
    if "C16" in groups:
        todo += halt_units()
    if "C14" in groups:
        todo += shock_units()
    for u in todo:
        out.append(f"(* {u.path}: {u.cls}.{u.method} *)")
        out.append(Tr(u).translate(repo))
    return "\n".join(out)


if __name__ == "__main__":
    sys.stdout.write(translate_all(os.environ.get("PAMS_REPO", "/repo")))
