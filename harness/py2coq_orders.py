"""Tie (a), fourth translator: agent methods that BUILD A LIST OF ORDERS -> Gallina (`list aorder` of coq/theories/Agents.v) in the
error monad of OrderPy.v.  Fail-closed: anything outside the list below raises Unsupported and the tie is reported broken.

Accepted statements (the list under construction must be the local named in the unit spec, `orders`):
  `orders: T = []`                                   the empty list
  `orders.append(Order(<keywords>))`                 one order appended (keywords: agent_id, market_id, is_buy, kind=LIMIT_ORDER,
                                                     volume, price, ttl - exactly these)
  `for m in <list local>: orders.append(Order(..))`  one order per element, in order (the element may only be read through the
                                                     expressions pinned in the unit spec)
  `x = e` / `x: T = e`                               a value local (arithmetic of py2coq_arith.py), or an object local bound to the exact
                                                     expression of the unit spec; `if x is None: x = e` for an Optional[float] local
  `if c: return orders` / `if c: raise Cls`          early exits
  `if c: <appends / value locals>`  (no else)        conditional appends
  `return orders`
Expressions: parameters and source texts listed in the unit spec (`mapped`), constants, + - * /, comparisons, not/and/or."""
import ast
import os
import sys

from py2coq_arith import Tr, Unit, Unsupported, coerce

ORDER_KW = ["agent_id", "market_id", "is_buy", "kind", "volume", "price", "ttl"]


class OUnit:
    def __init__(self, path, cls, method, coq_name, binders, mapped, objects=None, loops=None, sig=None, optional=()):
        self.path, self.cls, self.method, self.coq_name = path, cls, method, coq_name
        self.binders = binders            # Coq binder text of the generated function
        self.mapped = mapped              # source text -> (coq term, type)
        self.objects = objects or {}      # object local -> exact source text it must be bound to
        self.loops = loops or {}          # list local -> (coq list term, {element read text (with the loop variable named `_`): (term, type)})
        self.sig = sig                    # expected python parameter names (without self)
        self.optional = tuple(optional)   # Optional[float] value locals that may be defaulted by `if x is None: x = e`


def _find(repo, u):
    mod = ast.parse(open(os.path.join(repo, u.path)).read())
    cs = [n for n in mod.body if isinstance(n, ast.ClassDef) and n.name == u.cls]
    if len(cs) != 1:
        raise Unsupported(f"class {u.cls} not found exactly once in {u.path}")
    fs = [n for n in cs[0].body if isinstance(n, ast.FunctionDef) and n.name == u.method]
    if len(fs) != 1 or fs[0].decorator_list:
        raise Unsupported(f"method {u.method} not found exactly once (undecorated)")
    fn = fs[0]
    a = fn.args
    if a.vararg or a.kwarg or a.kwonlyargs or a.defaults or [x.arg for x in a.args][1:] != list(u.sig):
        raise Unsupported("signature of " + u.method)
    return fn


class OTr:
    def __init__(self, u):
        self.u = u
        self.tr = Tr(Unit(u.path, u.cls, u.method, u.coq_name, {}, "Q", mapped=dict(u.mapped)))
        self.n = 0

    def value(self, e, env, elem=None):
        """elem: (loop variable, reads) inside a loop body"""
        if elem is not None:
            var, reads = elem

            class Pin(ast.NodeTransformer):
                def visit(self, n):
                    if isinstance(n, ast.expr):
                        t = ast.unparse(n)
                        for k, key in enumerate(reads):
                            if t == key.replace("_", var, 1) if key.startswith("_") else t == key:
                                return ast.copy_location(ast.Name(id=f"__el_{k}", ctx=ast.Load()), n)
                    return self.generic_visit(n)
            e = Pin().visit(ast.parse(ast.unparse(e), mode="eval").body)
            if any(isinstance(n, ast.Name) and n.id == var for n in ast.walk(e)):
                raise Unsupported("the loop variable is read in another way: " + ast.unparse(e))
            env = {**env, **{f"__el_{k}": v for k, v in enumerate(reads.values())}}
        return self.tr.value(e, env)

    def order(self, call, env, elem=None):
        if not (isinstance(call, ast.Call) and isinstance(call.func, ast.Name) and call.func.id == "Order" and not call.args):
            raise Unsupported("appended value " + ast.unparse(call)[:60])
        kw = {k.arg: k.value for k in call.keywords}
        if sorted(kw) != sorted(ORDER_KW) or len(call.keywords) != len(ORDER_KW):
            raise Unsupported("keywords of Order(...): " + ", ".join(k.arg or "**" for k in call.keywords))
        if ast.unparse(kw["kind"]) != "LIMIT_ORDER":
            raise Unsupported("kind=" + ast.unparse(kw["kind"]))
        f = {}
        for name, ty in (("agent_id", "Z"), ("market_id", "Z"), ("is_buy", "B"), ("price", "Q"), ("volume", "Z"), ("ttl", "Z")):
            f[name] = coerce(*self.value(kw[name], env, elem), ty)
        return f"(AOrder {f['agent_id']} {f['market_id']} {f['is_buy']} {f['price']} {f['volume']} {f['ttl']})"

    def append_of(self, s):
        """`orders.append(X)` -> X"""
        if (isinstance(s, ast.Expr) and isinstance(s.value, ast.Call) and isinstance(s.value.func, ast.Attribute)
                and s.value.func.attr == "append" and isinstance(s.value.func.value, ast.Name) and s.value.func.value.id == "orders"
                and len(s.value.args) == 1 and not s.value.keywords):
            return s.value.args[0]
        return None

    def assign(self, s, env):
        tgt = s.targets[0] if isinstance(s, ast.Assign) and len(s.targets) == 1 else getattr(s, "target", None)
        if not isinstance(tgt, ast.Name) or s.value is None:
            raise Unsupported("assignment " + ast.unparse(s)[:80])
        return tgt.id

    def stmts(self, body, env, acc):
        if not body:
            raise Unsupported("a path falls off the end of the function")
        s, rest = body[0], body[1:]
        if isinstance(s, ast.Expr) and isinstance(s.value, ast.Constant) and isinstance(s.value.value, str):
            return self.stmts(rest, env, acc)
        if isinstance(s, ast.Return):
            if not (isinstance(s.value, ast.Name) and s.value.id == "orders") or rest:
                raise Unsupported("return " + ast.unparse(s))
            return f"(POk {acc})"
        if isinstance(s, (ast.Assign, ast.AnnAssign)):
            name = self.assign(s, env)
            if name == "orders":
                if not (isinstance(s.value, ast.List) and not s.value.elts) or acc is not None:
                    raise Unsupported("orders = " + ast.unparse(s.value))
                return self.stmts(rest, env, "[]")
            if name in self.u.objects:
                if ast.unparse(s.value) != self.u.objects[name] or name in env["@bound"]:
                    raise Unsupported(f"{name} is bound to `{ast.unparse(s.value)}`")
                return self.stmts(rest, {**env, "@bound": env["@bound"] + (name,)}, acc)
            if name in env:
                raise Unsupported("re-assignment of " + name)
            for n in ast.walk(s.value):
                if isinstance(n, ast.Name) and n.id in self.u.objects and n.id not in env["@bound"]:
                    raise Unsupported(n.id + " is read before it is bound")
            t, ty = self.value(s.value, env)
            ty = "Z" if ty == "Zlit" else ty
            return f"(let v_{name} := {t} in\n {self.stmts(rest, {**env, name: (f'v_{name}', ty)}, acc)})"
        if acc is None:
            raise Unsupported("`orders` is not initialised yet")
        if isinstance(s, ast.If) and not s.orelse:
            # defaulting of an Optional local:  if x is None: x = e
            t = s.test
            if (isinstance(t, ast.Compare) and len(t.ops) == 1 and isinstance(t.ops[0], ast.Is) and isinstance(t.left, ast.Name)
                    and isinstance(t.comparators[0], ast.Constant) and t.comparators[0].value is None and len(s.body) == 1
                    and isinstance(s.body[0], ast.Assign) and len(s.body[0].targets) == 1
                    and ast.unparse(s.body[0].targets[0]) == t.left.id and t.left.id in self.u.optional):
                x = t.left.id
                cur, ty = env.get(x, (None, None))
                if ty != "OQ":
                    raise Unsupported("defaulting of " + x)
                d = coerce(*self.value(s.body[0].value, env), "Q")
                return (f"(let v_{x}_d := match {cur} with Some v => v | None => {d} end in\n "
                        f"{self.stmts(rest, {**env, x: (f'v_{x}_d', 'Q')}, acc)})")
            c, ty = self.value(s.test, env)
            if ty != "B":
                raise Unsupported("condition of type " + ty)
            if len(s.body) == 1 and isinstance(s.body[0], ast.Return):
                if not (isinstance(s.body[0].value, ast.Name) and s.body[0].value.id == "orders"):
                    raise Unsupported("return " + ast.unparse(s.body[0]))
                return f"(if {c}\n then (POk {acc})\n else {self.stmts(rest, env, acc)})"
            if len(s.body) == 1 and isinstance(s.body[0], ast.Raise):
                x = s.body[0].exc
                name = x.func.id if isinstance(x, ast.Call) and isinstance(x.func, ast.Name) else getattr(x, "id", None)
                if name not in ("AssertionError", "ValueError", "NotImplementedError", "Exception"):
                    raise Unsupported("raise")
                return f"(if {c}\n then (PErr Py{name})\n else {self.stmts(rest, env, acc)})"
            # conditional appends; value locals inside the block are inlined as lets around the appended orders
            inner_env, lets, blk = dict(env), [], []
            for b in s.body:
                if isinstance(b, (ast.Assign, ast.AnnAssign)):
                    name = self.assign(b, inner_env)
                    if name in inner_env or name in self.u.objects or name == "orders":
                        raise Unsupported("assignment in a conditional block: " + name)
                    t, ty = self.value(b.value, inner_env)
                    ty = "Z" if ty == "Zlit" else ty
                    self.n += 1
                    fresh = f"v_{name}_{self.n}"
                    lets.append(f"let {fresh} := {t} in ")
                    inner_env[name] = (fresh, ty)
                else:
                    blk.append(b)
            # the locals of a conditional block are not visible afterwards
            self.n += 1
            k = self.n
            new = self.block_with_env(blk, inner_env, "orders_in")
            return (f"(let orders_{k} := (let orders_in := {acc} in if {c} then {''.join(lets)}{new} else orders_in) in\n "
                    f"{self.stmts(rest, env, f'orders_{k}')})")
        a = self.append_of(s)
        if a is not None or isinstance(s, ast.For):
            self.n += 1
            k = self.n
            new = self.block_with_env([s], env, acc)
            return f"(let orders_{k} := {new} in\n {self.stmts(rest, env, f'orders_{k}')})"
        raise Unsupported("statement " + ast.unparse(s)[:100])

    def block_with_env(self, body, env, acc):
        for s in body:
            a = self.append_of(s)
            if a is not None:
                acc = f"({acc} ++ [{self.order(a, env)}])"
            elif (isinstance(s, ast.For) and isinstance(s.target, ast.Name) and isinstance(s.iter, ast.Name) and s.iter.id in self.u.loops
                  and not s.orelse and len(s.body) == 1 and self.append_of(s.body[0]) is not None):
                if s.iter.id in self.u.objects and s.iter.id not in env["@bound"]:
                    raise Unsupported(s.iter.id + " is not bound yet")
                lst, reads = self.u.loops[s.iter.id]
                o = self.order(self.append_of(s.body[0]), env, (s.target.id, reads))
                acc = f"({acc} ++ map (fun comp => {o}) {lst})"
            else:
                raise Unsupported("statement in a block of appends: " + ast.unparse(s)[:80])
        return acc

    def translate(self, repo):
        fn = _find(repo, self.u)
        env = {"@bound": (), "@popped": ()}
        body = self.stmts(fn.body, env, None)
        return (f"(* {self.u.path}: {self.u.cls}.{self.u.method} *)\n"
                f"Definition {self.u.coq_name} {self.u.binders} : pres (list aorder) :=\n{body}.\n")


def units():
    arb = OUnit("pams/agents/arbitrage_agent.py", "ArbitrageAgent", "_submit_orders", "arb_orders_gen",
                binders="(not_index not_accessible idx_running comps_running shares_differ : bool) (mp index thr : Q) "
                        "(ag idx v ttlv : Z) (comps : list (Z * Q))",
                mapped={"not isinstance(market, IndexMarket)": ("not_index", "B"),
                        "not self.is_market_accessible(market_id=market.market_id)": ("not_accessible", "B"),
                        "index.is_running": ("idx_running", "B"), "index.is_all_markets_running()": ("comps_running", "B"),
                        "len(set(map(lambda x: x.outstanding_shares, spots))) > 1": ("shares_differ", "B"),
                        "index.get_index()": ("index", "Q"), "index.get_market_price()": ("mp", "Q"),
                        "self.order_threshold_price": ("thr", "Q"), "len(spots)": ("(Z.of_nat (length comps))", "Z"),
                        "self.order_volume": ("v", "Z"), "self.agent_id": ("ag", "Z"), "index.market_id": ("idx", "Z"),
                        "self.order_time_length": ("ttlv", "Z")},
                objects={"index": "market", "spots": "index.get_components()"},
                loops={"spots": ("comps", {"_.market_id": ("(fst comp)", "Z"), "_.get_market_price()": ("(snd comp)", "Q")})},
                sig=["market"])
    mm = OUnit("pams/agents/market_maker_agent.py", "MarketMakerAgent", "submit_orders", "mm_orders_gen",
               binders="(base : option Q) (target_mp fund spread : Q) (ag target ttlv : Z)",
               mapped={"self.get_base_price(markets=markets)": ("base", "OQ"), "self.target_market.get_market_price()": ("target_mp", "Q"),
                       "self.target_market.get_fundamental_price()": ("fund", "Q"), "self.net_interest_spread": ("spread", "Q"),
                       "self.agent_id": ("ag", "Z"), "self.target_market.market_id": ("target", "Z"),
                       "self.order_time_length": ("ttlv", "Z")},
               sig=["markets"], optional=("base_price",))
    return [arb, mm]


def translate_all(repo):
    out = ["(* GENERATED by harness/py2coq_orders.py - do not edit *)",
           "Require Import Pams.Prelude Pams.Match Pams.Market Pams.OrderPy Pams.Agents.",
           "From Coq Require Import QArith.", "Open Scope Z_scope.", ""]
    for u in units():
        out.append(OTr(u).translate(repo))
    return "\n".join(out)


if __name__ == "__main__":
    sys.stdout.write(translate_all(os.environ.get("PAMS_REPO", "/repo")))
