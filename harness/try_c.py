import random, sys, time, collections, warnings
warnings.filterwarnings("ignore")
sys.path.insert(0,'/verif/harness')
from common import *
import suite_c
su=suite_c.SuiteC()
cases=su.generate(int(sys.argv[1]) if len(sys.argv)>1 else 0,"quick")
t=time.time()
res=[su.run_impl(c) for c in cases]
print("impl",round(time.time()-t,2))
cnt=collections.Counter()
for i,(c,r) in enumerate(zip(cases,res)):
    for v in suite_c.mon_C18(c,r):
        cnt[v["rule"]]+=1
        if cnt[v["rule"]]<=2: print("MON",i,c["kind"],v["rule"],str(ov_json(v["detail"]))[:300])
print(cnt)
terms=[];idx=[]
for i,(c,r) in enumerate(zip(cases,res)):
    ct=su.coq_term(c,r)
    if ct: terms.append(ct); idx.append(i)
print("modelled",len(terms),"of",len(cases))
n,mism,logs=run_coq_cases("c",su.imports,su.runner,[t[0] for t in terms],shard=40)
print("coq",n,mism[:10],[l[-500:] for l in logs[:1]])
for k in mism[:4]:
    i=idx[k]; term,inp,exp=terms[k]
    out=eval_coq_term(su.imports,f"run_case_c {inp}")
    model=parse_ov(out)
    print(i,cases[i]["kind"],"exp",ov_json(exp),"model",ov_json(model)); print("  case",str(cases[i])[:400])
