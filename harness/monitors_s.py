"""Property predicates over a Level-S implementation trace (suite_s.run_case).  Written from the property texts,
not from the Coq model.  Each monitor: fn(case, res) -> [ {rule, at, detail} ]."""
import collections
from fractions import Fraction

from common import E, A, resolved_entry


def V(rule, at, **detail):
    return {"rule": rule, "at": at, "detail": detail}


class T:
    """decoded run: configuration facts + the event list split by tag"""

    def __init__(self, case, res):
        self.case, self.res = case, res
        self.cfg = case["cfg"]
        self.ev = res["events"]
        self.markets = {r[0]: dict(id=r[0], tick=r[1], mp0=r[2], comps=r[3], shares=r[4]) for r in res["markets"]}
        self.mnames = {}
        for row, name in zip(res["markets"], self.cfg["simulation"]["markets"]):
            self.mnames[name] = row[0]
        self.agents = {r[0]: dict(id=r[0], hft=r[1], cash=r[2], assets=dict((k, v) for k, v in r[3])) for r in res["init"]}
        self.sessions = []
        start = 0
        for sid, s in enumerate(self.cfg["simulation"]["sessions"]):
            self.sessions.append(dict(id=sid, start=start, steps=s["iterationSteps"], place=s["withOrderPlacement"],
                                      execu=s["withOrderExecution"], maxn=s.get("maxNormalOrders", 1),
                                      maxh=s.get("maxHighFrequencyOrders", 1), rate=s.get("highFrequencySubmitRate", 1.0),
                                      events=list(s.get("events", []))))
            start += s["iterationSteps"]
        self.total_steps = start
        # events in creation order with ids
        self.events = []
        eid = 0
        for sid, s in enumerate(self.cfg["simulation"]["sessions"]):
            for name in s.get("events", []):
                conf = resolved_entry(self.cfg, name)
                self.events.append(dict(id=eid, name=name, session=sid, conf=conf, cls=conf["class"],
                                        enabled=bool(conf.get("enabled", True)) or conf["class"] == "Probe"))
                eid += 1
        self.error = res.get("error")

    def session_of_time(self, t):
        for s in self.sessions:
            if s["start"] <= t < s["start"] + s["steps"]:
                return s
        return None

    def requested(self):
        """tag -> requested order snapshot"""
        out = {}
        for aid, snap in self.res["batches"]:
            for x in snap:
                if x[0] == "new" and x[1] not in out:
                    out[x[1]] = dict(agent=x[2], market=x[3], buy=x[4], price=x[5], vol=x[6], ttl=x[7], by=aid)
        return out


def guarded(fn):
    def run(case, res):
        if res.get("setup_error"):
            return []
        try:
            return fn(T(case, res))
        except Exception as e:  # noqa
            import traceback
            return [V("trace-uninterpretable", 0, error=repr(e), where=traceback.format_exc()[-500:])]
    return run


def _unexpected_abort(t, allowed=(13, 2, 3)):
    """a run may only end with one of the documented refusals of a malformed batch (spoofing, re-submission,
    cancel of a never-submitted order), and only when the case asked for one"""
    if t.error is None:
        return None
    if t.case.get("malformed") and t.error.code in allowed:
        return None
    return V("run-raised", len(t.ev) - 1, error=t.error.code, text=t.res.get("error_text", "")[-300:])


def fold_fills(t, fills):
    """endowment folded with fills (property text of C05)"""
    h = {a: [Fraction(x["cash"]), dict(x["assets"])] for a, x in t.agents.items()}
    for f in fills:
        _, _, mk, tm, ba, sa, bi, si, p, v = f[:10]
        amt = Fraction(p) * v
        h[ba][0] -= amt
        h[sa][0] += amt
        h[ba][1][mk] = h[ba][1].get(mk, 0) + v
        h[sa][1][mk] = h[sa][1].get(mk, 0) - v
    return h


def holdings_equal(h, obs):
    cash, assets = obs
    return Fraction(cash) == h[0] and list(assets) == [h[1][k] for k in sorted(h[1])]


# ------------------------------------------------------------------------------------ C05
def mon_C05(t):
    out = []
    ab = _unexpected_abort(t)
    truth_fills = []          # in order of occurrence
    round_fills = None
    ev = t.ev
    # holdings are sampled at callbacks and at step-end logs; "fills reported so far" = all fills of completed rounds,
    # where a round's fills are applied together before its first notification
    # precompute for each index the number of truth fills that belong to rounds begun at or before it
    n_fills_upto = []
    cnt = 0
    for i, e in enumerate(ev):
        if e[0] == 6 and e[1] == 3:
            cnt += 1
        n_fills_upto.append(cnt)
    fills = [e for e in ev if e[0] == 6 and e[1] == 3]
    # position-wise: at event i, all truth fills emitted before i (the round's fills are all emitted before its callbacks)
    cache = {}

    def expected(n):
        if n not in cache:
            cache[n] = fold_fills(t, fills[:n])
        return cache[n]
    for i, e in enumerate(ev):
        if e[0] == 5:
            aid = e[1]
            obs = e[-4:-2]
            h = expected(n_fills_upto[i])
            if not holdings_equal(h[aid], obs):
                out.append(V("holdings-equal-endowment-plus-fills-at-callback", i, agent=aid, got=obs,
                             want=[h[aid][0], [h[aid][1][k] for k in sorted(h[aid][1])]]))
        if e[0] == 3 and e[1] == 10:
            h = expected(n_fills_upto[i])
            for (aid, _), obs in zip(sorted(t.agents.items()), e[10]):
                if not holdings_equal(h[aid], obs):
                    out.append(V("holdings-equal-endowment-plus-fills-at-step-end", i, agent=aid, got=obs,
                                 want=[h[aid][0], [h[aid][1][k] for k in sorted(h[aid][1])]]))
            # conservation
            tot_cash = sum(Fraction(o[0]) for o in e[10])
            if tot_cash != sum(Fraction(a["cash"]) for a in t.agents.values()):
                out.append(V("total-cash-conserved", i, got=tot_cash))
            for j, mk in enumerate(sorted(next(iter(t.agents.values()))["assets"])) if t.agents else []:
                if sum(o[1][j] for o in e[10]) != sum(a["assets"][mk] for a in t.agents.values()):
                    out.append(V("total-shares-conserved", i, market=mk))
    # final holdings
    if t.error is None and "final" in t.res:
        h = expected(len(fills))
        for (aid, _), obs in zip(sorted(t.agents.items()), t.res["final"]):
            if not holdings_equal(h[aid], obs):
                out.append(V("final-holdings-equal-endowment-plus-fills", len(ev) - 1, agent=aid, got=obs))
    if ab:
        out.append(ab)
    return out[:20]


# ------------------------------------------------------------------------------------ C06 (clock part)
def mon_C06(t):
    out = []
    ev = t.ev
    ab = _unexpected_abort(t)
    exp_t = 0
    nm = len(t.markets)
    i = 0
    groups = []       # (kind, index of first event, [events])
    cur_kind, cur = None, []
    for k, e in enumerate(ev):
        if e[0] == 3 and e[1] in (9, 10):
            if cur_kind != e[1] or len(cur) >= nm:
                if cur:
                    groups.append((cur_kind, k - len(cur), cur))
                cur_kind, cur = e[1], []
            cur.append(e)
        elif e[0] == 3 and e[1] in (7, 8):
            pass
    if cur:
        groups.append((cur_kind, len(ev), cur))
    # every step: one begin group and one end group, all markets, same time; time +1 per step from 0
    step = 0
    for gi, (kind, at, g) in enumerate(groups):
        times = {e[4] for e in g}
        if len(times) != 1:
            out.append(V("markets-share-one-clock", at, times=sorted(times)))
        want = step
        if times and min(times) != want and len(times) == 1:
            out.append(V("clock-advances-by-one-per-step", at, got=min(times), want=want))
        if len(g) != nm and (t.error is None):
            out.append(V("every-market-stepped", at, got=len(g), want=nm))
        if kind == 10:
            step += 1
    if t.error is None and step != t.total_steps:
        out.append(V("sessions-span-configured-steps", len(ev) - 1, steps=step, want=t.total_steps))
    # session boundaries: begin at the accumulated start, end at start + steps; step logs carry the right session id
    for k, e in enumerate(ev):
        if e[0] == 3 and e[1] == 7:
            s = t.sessions[e[2]]
            if e[3] != s["start"]:
                out.append(V("session-starts-where-previous-ended", k, session=e[2], clock=e[3], want=s["start"]))
        if e[0] == 3 and e[1] == 8:
            s = t.sessions[e[2]]
            if e[3] != s["start"] + s["steps"]:
                out.append(V("session-spans-its-steps", k, session=e[2], clock=e[3], want=s["start"] + s["steps"]))
        if e[0] == 3 and e[1] in (9, 10):
            s = t.session_of_time(e[4])
            if s is None or s["id"] != e[2]:
                out.append(V("step-belongs-to-its-session", k, session=e[2], time=e[4]))
        if e[0] == 2 and e[2] == 4:      # probe on session hooks reports the session's own idea of its start / end
            sid, tt = e[6]
            s = t.sessions[sid]
            want = s["start"] if e[3] else s["start"] + s["steps"] - 1
            if tt != want:
                out.append(V("session-start-time-accumulates", k, session=sid, got=tt, want=want))
    if ab:
        out.append(ab)
    return out[:20]


# ------------------------------------------------------------------------------------ C09
def mon_C09(t):
    out = []
    ev = t.ev
    ab = _unexpected_abort(t)
    normal = [a for a, x in t.agents.items() if not x["hft"]]
    hft = [a for a, x in t.agents.items() if x["hft"]]
    # walk steps
    cur_t = None
    step_events = collections.defaultdict(list)
    tt = -1
    in_step = False
    for k, e in enumerate(ev):
        if e[0] == 3 and e[1] == 9:
            tt = e[4]
            in_step = True
        if in_step:
            step_events[tt].append((k, e))
        if e[0] == 3 and e[1] == 10:
            pass
    for tm, items in sorted(step_events.items()):
        s = t.session_of_time(tm)
        if s is None:
            continue
        consults = [(k, e) for k, e in items if e[0] == 1]
        accepts = [(k, e) for k, e in items if e[0] == 6 and e[1] in (1, 2)]
        fills = [(k, e) for k, e in items if e[0] == 6 and e[1] == 3]
        if not s["place"]:
            if consults:
                out.append(V("no-consultation-without-placement", consults[0][0], time=tm))
            if accepts:
                out.append(V("no-acceptance-without-placement", accepts[0][0], time=tm))
        if not s["execu"] and fills:
            out.append(V("no-fill-in-session-without-execution", fills[0][0], time=tm, session=s["id"]))
        # normal agents: each at most once, stop right after the cap-th non-empty batch, else everybody is consulted
        nc = [(k, e) for k, e in consults if e[1] in normal]
        # the normal consultations are those before the first acceptance / round of the step
        first_handle = min([k for k, e in items if e[0] in (4, 6) and not (e[0] == 6 and e[1] == 4)] + [10 ** 9])
        nc = [(k, e) for k, e in nc if k < first_handle]
        late_normal = [(k, e) for k, e in consults if e[1] in normal and k > first_handle]
        if late_normal:
            out.append(V("normal-agents-consulted-before-handling", late_normal[0][0], time=tm))
        ids = [e[1] for _, e in nc]
        if len(ids) != len(set(ids)):
            out.append(V("normal-agent-consulted-at-most-once-per-step", nc[0][0], time=tm, agents=ids))
        nonempty = [e for _, e in nc if e[2] > 0]
        if s["place"] and t.error is None:
            cap = s["maxn"]
            if len(nonempty) > cap:
                out.append(V("normal-cap-exceeded", nc[0][0], time=tm, nonempty=len(nonempty), cap=cap))
            if len(nonempty) == cap and nc and cap > 0 and nc[-1][1][2] == 0:
                out.append(V("consultation-stops-at-cap", nc[-1][0], time=tm))
            if cap == 0 and nc:
                out.append(V("consultation-stops-at-cap", nc[0][0], time=tm, cap=0))
            if len(nonempty) < cap and len(ids) != len(normal):
                out.append(V("all-normal-agents-consulted-below-cap", nc[0][0] if nc else items[0][0], time=tm,
                             consulted=len(ids), normal=len(normal)))
        # HFT phases: consultations of HFT agents between handled batches
        phases = []
        curp = []
        for k, e in items:
            if k < first_handle:
                continue
            if e[0] == 1 and e[1] in hft:
                curp.append((k, e))
            elif e[0] == 5 and e[2] in (1, 2) and e[1] in normal:
                # a normal agent's request was handled: closes any phase in progress
                if curp:
                    phases.append(curp)
                    curp = []
        if curp:
            phases.append(curp)
        # split a run of hft consults into phases whenever an agent repeats (two phases with nothing normal in between
        # cannot happen: a phase follows a handled normal batch)
        for ph in phases:
            pid = [e[1] for _, e in ph]
            if len(pid) != len(set(pid)):
                out.append(V("hft-agent-consulted-at-most-once-per-phase", ph[0][0], time=tm, agents=pid))
            ne = [e for _, e in ph if e[2] > 0]
            if len(ne) > s["maxh"]:
                out.append(V("hft-cap-exceeded", ph[0][0], time=tm, nonempty=len(ne), cap=s["maxh"]))
            if s["maxh"] == 0:
                out.append(V("hft-cap-exceeded", ph[0][0], time=tm, cap=0))
            if len(ne) == s["maxh"] and s["maxh"] > 0 and ph[-1][1][2] == 0:
                out.append(V("hft-consultation-stops-at-cap", ph[-1][0], time=tm))
            if s["rate"] == 0 and not any(x == ("draw", 0.0) for x in t.res["tape"]):
                out.append(V("no-hft-phase-at-rate-zero", ph[0][0], time=tm))
        # rate 1: after every handled normal batch there is a phase in which either all HFT agents are consulted or the cap is hit
        if s["place"] and s["rate"] >= 1.0 and hft and s["maxh"] > 0 and t.error is None:
            nb = len(nonempty)
            if len(phases) != nb:
                out.append(V("hft-phase-after-every-batch-at-rate-one", items[0][0], time=tm, phases=len(phases), batches=nb))
            for ph in phases:
                ne = [e for _, e in ph if e[2] > 0]
                if len(ne) < s["maxh"] and len(ph) != len(hft):
                    out.append(V("all-hft-agents-consulted-below-cap", ph[0][0], time=tm))
    # a matching round follows every accepted order / cancel iff the session's execution switch is on
    for k, e in enumerate(ev):
        if e[0] == 5 and e[2] in (1, 2):
            switch = e[-2]
            mk = e[4] if e[2] == 1 else e[5]
            j = k + 1
            while j < len(ev) and ev[j][0] == 2:
                j += 1
            nxt = ev[j] if j < len(ev) else None
            ran = nxt is not None and nxt[0] == 4
            if switch and not ran and not (nxt is not None and nxt[0] == 9):
                out.append(V("matching-round-follows-accepted-request", k, market=mk, next=nxt))
            if switch and ran and nxt[1] != mk:
                out.append(V("matching-round-on-the-requests-market", k, market=mk, round_on=nxt[1]))
            if not switch and ran:
                out.append(V("no-matching-round-while-execution-off", k, market=mk))
            # the switch can only be off by configuration or because a halt is in force
            s = t.session_of_time(e[5] if e[2] == 1 else e[3])
            if s is not None and s["execu"] and not switch:
                if not any(x["cls"] == "TradingHaltRule" and x["enabled"] for x in t.events):
                    out.append(V("execution-switch-off-without-halt", k))
    if ab:
        out.append(ab)
    return out[:20]


# ------------------------------------------------------------------------------------ C10
def mon_C10(t):
    out = []
    ev = t.ev
    ab = _unexpected_abort(t)
    truth = [(k, e) for k, e in enumerate(ev) if e[0] == 6]
    deliv = [(k, e) for k, e in enumerate(ev) if e[0] == 3 and e[1] in (1, 2, 3, 4)]

    def key(e):
        if e[1] == 1:
            return tuple([1] + [repr(x) for x in e[2:10]])
        if e[1] == 2:
            return tuple([2] + [repr(x) for x in e[2:11]])
        if e[1] == 3:
            return tuple([3] + [repr(x) for x in e[2:10]])
        return tuple([4] + [repr(x) for x in e[2:11]])
    tk = [key(e) for _, e in truth]
    dk = [key(e) for _, e in deliv]
    if t.error is None:
        if tk != dk:
            # find the first difference
            n = min(len(tk), len(dk))
            pos = next((i for i in range(n) if tk[i] != dk[i]), n)
            cnt_t, cnt_d = collections.Counter(tk), collections.Counter(dk)
            dup = [x for x, c in cnt_d.items() if c > cnt_t.get(x, 0)]
            lost = [x for x, c in cnt_t.items() if c > cnt_d.get(x, 0)]
            rule = "record-delivered-more-than-once" if dup else ("record-lost" if lost else "records-out-of-order")
            at = deliv[pos][0] if pos < len(deliv) else len(ev) - 1
            out.append(V(rule, at, first_difference=pos, extra=dup[:2], missing=lost[:2]))
    else:
        # a run that died cannot flush; what was delivered must still be a prefix of what happened
        if dk != tk[:len(dk)]:
            out.append(V("records-out-of-order", deliv[0][0] if deliv else 0))
    # deadline: every event is delivered before the next session boundary record
    if t.error is None:
        pend = 0
        ti = 0
        for k, e in enumerate(ev):
            if e[0] == 6:
                pend += 1
            elif e[0] == 3 and e[1] in (1, 2, 3, 4):
                pend -= 1
            elif e[0] == 3 and e[1] in (7, 8, 6):
                if pend != 0:
                    out.append(V("delivered-no-later-than-next-session-boundary", k, pending=pend))
                    break
    # begin / end records
    kinds = [e[1] for e in ev if e[0] == 3 and e[1] in (5, 6, 7, 8)]
    want = [5]
    for s in t.sessions:
        want += [7, 8]
    want += [6]
    if t.error is None and kinds != want:
        out.append(V("begin-end-records", 0, got=kinds, want=want))
    sb = [e[2] for e in ev if e[0] == 3 and e[1] == 7]
    if t.error is None and sb != [s["id"] for s in t.sessions]:
        out.append(V("begin-end-records", 0, sessions=sb))
    # step records: per step and market exactly one begin then one end (synchronously: they appear at their place)
    if t.error is None:
        cnt = collections.Counter((e[1], e[3], e[4]) for e in ev if e[0] == 3 and e[1] in (9, 10))
        for tm in range(t.total_steps):
            for mk in t.markets:
                if cnt.get((9, mk, tm), 0) != 1 or cnt.get((10, mk, tm), 0) != 1:
                    out.append(V("one-step-begin-and-end-record-per-market-step", 0, market=mk, time=tm,
                                 begin=cnt.get((9, mk, tm), 0), end=cnt.get((10, mk, tm), 0)))
                    break
    if ab:
        out.append(ab)
    return out[:20]


# ------------------------------------------------------------------------------------ C11
def mon_C11(t):
    out = []
    ev = t.ev
    ab = _unexpected_abort(t)
    # expected callbacks from the ground truth, in order
    want = []
    for k, e in enumerate(ev):
        if e[0] == 6 and e[1] == 1:
            want.append((e[5], 1, tuple(repr(x) for x in e[2:10])))
        elif e[0] == 6 and e[1] == 2:
            want.append((e[6], 2, tuple(repr(x) for x in e[2:11])))
        elif e[0] == 6 and e[1] == 3:
            want.append((e[4], 3, tuple(repr(x) for x in e[2:10])))
            want.append((e[5], 3, tuple(repr(x) for x in e[2:10])))
    got = []
    for k, e in enumerate(ev):
        if e[0] == 5:
            n = 8 if e[2] in (1, 3) else 9
            got.append((e[1], e[2], tuple(repr(x) for x in e[3:3 + n]), k))
    cw = collections.Counter(want)
    cg = collections.Counter((a, b, c) for a, b, c, _ in got)
    if t.error is None or True:
        for x, c in cg.items():
            if c > cw.get(x, 0):
                k = [g[3] for g in got if g[:3] == x][-1]
                rule = "notified-more-than-once" if cw.get(x, 0) > 0 else "notified-about-foreign-or-unknown-event"
                out.append(V(rule, k, agent=x[0], kind=x[1], record=x[2], times=c, expected=cw.get(x, 0)))
        if t.error is None:
            for x, c in cw.items():
                if c > cg.get(x, 0):
                    out.append(V("party-not-notified", len(ev) - 1, agent=x[0], kind=x[1], record=x[2], times=cg.get(x, 0), expected=c))
    # order: submitted / canceled right after the acceptance; the fills' notifications in fill order, buyer then seller
    if t.error is None and not out:
        seq_w = [(a, b, c) for a, b, c in want]
        # executed callbacks of one round come after all of that round's truth fills: compare per kind order
        if [x for x in seq_w if x[1] != 3] != [(a, b, c) for a, b, c, _ in got if b != 3]:
            out.append(V("notifications-in-event-order", 0, kind="submitted/canceled"))
        if [x for x in seq_w if x[1] == 3] != [(a, b, c) for a, b, c, _ in got if b == 3]:
            out.append(V("notifications-in-event-order", 0, kind="executed"))
    # after holdings were updated for the whole round: checked with C05's fold at each callback
    out += [v for v in mon_C05(t) if v["rule"] == "holdings-equal-endowment-plus-fills-at-callback"][:3]
    if ab:
        out.append(ab)
    return out[:20]


# ------------------------------------------------------------------------------------ C13
def mon_C13(t):
    out = []
    ev = t.ev
    ab = _unexpected_abort(t)
    KINDS = {"order": 1, "cancel": 2, "execution": 3, "session": 4, "market": 5}
    # occurrences, from ground truth: (kind, before, time, market, index in ev)
    occ = []
    for k, e in enumerate(ev):
        if e[0] == 6 and e[1] == 1:
            occ.append((1, True, e[4], e[3], k))
            occ.append((1, False, e[4], e[3], k))
        elif e[0] == 6 and e[1] == 2:
            occ.append((2, True, e[2], e[4], k))
            occ.append((2, False, e[2], e[4], k))
        elif e[0] == 6 and e[1] == 3:
            occ.append((3, False, e[3], e[2], k))
        elif e[0] == 3 and e[1] == 9:
            occ.append((5, True, e[4], e[3], k))
        elif e[0] == 3 and e[1] == 10:
            occ.append((5, False, e[4], e[3], k))
        elif e[0] == 3 and e[1] == 7:
            s = t.sessions[e[2]]
            occ.append((4, True, s["start"], -1, k))
        elif e[0] == 3 and e[1] == 8:
            s = t.sessions[e[2]]
            occ.append((4, False, s["start"] + s["steps"] - 1, -1, k))
    # a request that died in a "before" hook or in the acceptance itself produced no truth event: tolerate only in aborted runs
    want = collections.Counter()
    for ex in t.events:
        if ex["cls"] != "Probe":
            continue
        for (ht, before, times, inst, cls) in ex["conf"]["spec"]:
            kd = KINDS[ht]
            for (k2, b2, tm, mk, _) in occ:
                if k2 != kd or b2 != bool(before):
                    continue
                if times is not None and tm not in times:
                    continue
                if kd == 5:
                    if inst is not None and inst != mk:
                        continue
                    if cls == "index" and t.markets[mk]["comps"] is None:
                        continue
                want[(ex["id"], kd, bool(before), tm, mk)] += 1
    got = collections.Counter()
    where = {}
    # in a run that died, the "before" hooks of the request that killed it have no occurrence: they are the probe calls after
    # the last thing that actually happened
    last_real = max([k for k, e in enumerate(ev) if e[0] in (4, 5, 6) or (e[0] == 3 and e[1] in (7, 8, 9, 10))] + [-1])
    for k, e in enumerate(ev):
        if e[0] == 2 and t.error is not None and k > last_real and e[3] is True:
            continue
        if e[0] == 2:
            # the time of the occurrence: the clock, except for session-after hooks (clock = last step of the session)
            tm = e[4]
            if e[2] == 4:
                tm = e[6][1]
            key = (e[1], e[2], bool(e[3]), tm, e[5])
            got[key] += 1
            where[key] = k
    for key, c in got.items():
        w = want.get(key, 0)
        if c > w:
            out.append(V("hook-fired-without-matching-occurrence" if w == 0 else "hook-fired-more-than-once-per-occurrence",
                         where[key], hook=key, times=c, expected=w))
    if t.error is None:
        for key, w in want.items():
            if got.get(key, 0) < w:
                out.append(V("hook-missed-an-occurrence", len(ev) - 1, hook=key, times=got.get(key, 0), expected=w))
    # before-hooks run before the occurrence takes effect, after-hooks after it
    for k, e in enumerate(ev):
        if e[0] == 2 and e[2] in (1, 2) and e[1] == 0:
            pass
    # order: for every accepted order the ALL probe (event 0) saw "before" ahead of the truth event and "after" behind it
    last_before = None
    for k, e in enumerate(ev):
        if e[0] == 2 and e[1] == 0 and e[2] == 1 and e[3] is True:
            last_before = k
        if e[0] == 6 and e[1] == 1:
            if last_before is None:
                out.append(V("before-hook-runs-before-acceptance", k))
            last_before = None
    if ab:
        out.append(ab)
    return out[:20]


# ------------------------------------------------------------------------------------ C14
def _round_price(tick, buy, p):
    tick, p = Fraction(tick), Fraction(p)
    q = p / tick
    if q.denominator == 1:
        return p
    import math
    lvl = math.floor(q) if buy else math.ceil(q)
    return lvl * tick


def _clip(p0, r, p):
    p0, r, p = Fraction(p0), Fraction(r), Fraction(p)
    lo, hi = p0 * (1 - r), p0 * (1 + r)
    if abs(p - p0) >= abs(p0 * r):
        return min(max(p, lo), hi)
    return p


def expected_acceptances(t):
    """for every accepted order: what the property texts of C14/C15/C19 say it must look like.
    yields (index, event, requested, want dict, notes)"""
    req = t.requested()
    oms = []
    for ex in t.events:
        if ex["cls"] == "OrderMistakeShock" and ex["enabled"]:
            s = t.sessions[ex["session"]]
            oms.append(dict(id=ex["id"], target=t.mnames[ex["conf"]["target"]], time=s["start"] + ex["conf"]["triggerTime"],
                            rate=Fraction(ex["conf"]["priceChangeRate"]), vol=ex["conf"]["orderVolume"],
                            ttl=ex["conf"]["orderTimeLength"], spent=False))
    plr = []
    for ex in t.events:
        if ex["cls"] == "PriceLimitRule" and ex["enabled"]:
            plr.append(dict(id=ex["id"], targets=[t.mnames[x] for x in ex["conf"]["targetMarkets"]],
                            rate=Fraction(ex["conf"]["triggerChangeRate"])))
    for k, e in enumerate(t.ev):
        if not (e[0] == 6 and e[1] == 1):
            continue
        oid, mk, tm, ag, buy, price, vol, ttl, tag, mp_before, mp0 = e[2:13]
        r = req.get(tag)
        if r is None:
            yield k, e, None, None, ["unknown-object"]
            continue
        want = dict(agent=r["agent"], market=r["market"], buy=r["buy"], price=r["price"], vol=r["vol"], ttl=r["ttl"])
        notes = []
        # always-hooks first, in registration order: price limit rules
        for pl in sorted(plr, key=lambda x: x["id"]):
            if mk in pl["targets"] and want["price"] is not None:
                c = _clip(mp0, pl["rate"], want["price"])
                if c != Fraction(want["price"]):
                    notes.append("clipped")
                want["price"] = c
                notes.append("plr")
        for om in sorted(oms, key=lambda x: x["id"]):
            if om["time"] == tm and om["target"] == mk and not om["spent"]:
                om["spent"] = True
                want.update(buy=om["rate"] > 0, price=Fraction(mp_before) * (1 + om["rate"]), vol=om["vol"], ttl=om["ttl"])
                notes.append("mistake")
        if want["price"] is not None:
            want["price"] = _round_price(t.markets[mk]["tick"], want["buy"], want["price"])
        yield k, e, r, want, notes


def mon_C14(t):
    out = []
    ev = t.ev
    ab = _unexpected_abort(t)
    # fundamental shocks: value seen at each step begin = value delivered at the tick x prod(1 + rate) of the shocks active there
    shocks = []
    for ex in t.events:
        if ex["cls"] == "FundamentalPriceShock" and ex["enabled"]:
            s = t.sessions[ex["session"]]
            shocks.append(dict(target=t.mnames[ex["conf"]["target"]], start=s["start"] + ex["conf"]["triggerTime"],
                               n=ex["conf"].get("shockTimeLength", 1), rate=Fraction(ex["conf"]["priceChangeRate"])))
    funds = t.res["funds"]
    for k, e in enumerate(ev):
        if e[0] == 3 and e[1] in (9, 10):
            mk, tm, fund = e[3], e[4], e[8]
            if t.markets[mk]["comps"] is not None:
                continue
            base = funds.get((mk, tm))
            if base is None:
                continue
            want = Fraction(base)
            for sh in shocks:
                if sh["target"] == mk and sh["start"] <= tm < sh["start"] + sh["n"]:
                    want *= (1 + sh["rate"])
            if Fraction(fund) != want:
                hit = [sh for sh in shocks if sh["target"] == mk]
                out.append(V("fundamental-shock-exactly-in-window-on-target", k, market=mk, time=tm, got=fund, want=want,
                             delivered=base, shocks_on_market=len(hit)))
    # order mistake: exactly the first order for the target at the trigger time is replaced; everything else passes unchanged
    for k, e, r, want, notes in expected_acceptances(t):
        if want is None:
            continue
        oid, mk, tm, ag, buy, price, vol, ttl = e[2:10]
        got = dict(agent=ag, market=mk, buy=buy, price=price, vol=vol, ttl=ttl)
        for f in ("agent", "market", "buy", "vol", "ttl"):
            if got[f] != want[f]:
                out.append(V("order-mistake-replaces-exactly-one-order" if "mistake" in notes else "order-passes-unchanged", k,
                             field=f, got=got[f], want=want[f], notes=notes))
        gp, wp = got["price"], want["price"]
        if (gp is None) != (wp is None) or (gp is not None and Fraction(gp) != Fraction(wp)):
            if "mistake" in notes or not any(n in ("plr",) for n in notes):
                out.append(V("order-mistake-replaces-exactly-one-order" if "mistake" in notes else "order-passes-unchanged", k,
                             field="price", got=gp, want=wp, notes=notes))
    if ab:
        out.append(ab)
    return out[:20]


# ------------------------------------------------------------------------------------ C15
def mon_C15(t):
    out = []
    ab = _unexpected_abort(t)
    plr = [ex for ex in t.events if ex["cls"] == "PriceLimitRule" and ex["enabled"]]
    if not plr:
        return [ab] if ab else []
    targets = set()
    for ex in plr:
        targets |= {t.mnames[x] for x in ex["conf"]["targetMarkets"]}
    oms_markets = {t.mnames[ex["conf"]["target"]] for ex in t.events if ex["cls"] == "OrderMistakeShock" and ex["enabled"]}
    for k, e, r, want, notes in expected_acceptances(t):
        if want is None or "mistake" in notes:
            continue
        oid, mk, tm, ag, buy, price, vol, ttl, tag, mp_before, mp0 = e[2:13]
        gp, wp = price, want["price"]
        if (gp is None) != (wp is None) or (gp is not None and Fraction(gp) != Fraction(wp)):
            rule = "accepted-price-is-clipped-into-band" if mk in targets else "non-target-market-untouched"
            out.append(V(rule, k, market=mk, requested=r["price"], got=gp, want=wp, p0=mp0, notes=notes))
        if mk in targets and gp is not None and len(plr) == 1:
            rate = Fraction(plr[0]["conf"]["triggerChangeRate"])
            tick = Fraction(t.markets[mk]["tick"])
            lo, hi = Fraction(mp0) * (1 - rate), Fraction(mp0) * (1 + rate)
            if not (lo - tick < Fraction(gp) < hi + tick):
                out.append(V("accepted-price-within-band-after-rounding", k, market=mk, got=gp, band=[lo, hi]))
    # no trade on a target market outside the band widened by one tick (orders accepted under one rule from the start;
    # markets also hit by an order-mistake shock are outside this property's quantifier)
    if len(plr) == 1:
        rate = Fraction(plr[0]["conf"]["triggerChangeRate"])
        p0_final = {}
        for e in t.ev:
            if e[0] == 3 and e[1] == 10 and e[4] == 0:
                p0_final[e[3]] = e[7]
        # orders accepted during step 0 were clipped against the then-current (still moving) time-0 price; a market where such
        # an order was accepted outside the final band is left out (the property speaks of the band around the time-0 price)
        legacy = set()
        for x in t.ev:
            if x[0] == 6 and x[1] == 1 and x[4] == 0 and x[3] in p0_final and x[7] is not None:
                p0 = Fraction(p0_final[x[3]])
                tick = Fraction(t.markets[x[3]]["tick"])
                if not (p0 * (1 - rate) - tick <= Fraction(x[7]) <= p0 * (1 + rate) + tick):
                    legacy.add(x[3])
        for k, e in enumerate(t.ev):
            if e[0] == 6 and e[1] == 3 and e[2] in targets and e[2] not in oms_markets and e[2] not in legacy and e[3] >= 1 and e[2] in p0_final:
                p0 = Fraction(p0_final[e[2]])
                tick = Fraction(t.markets[e[2]]["tick"])
                if not (min(p0 * (1 - rate), p0 * (1 + rate)) - tick <= Fraction(e[8]) <= max(p0 * (1 - rate), p0 * (1 + rate)) + tick):
                    out.append(V("trade-within-band-widened-by-one-tick", k, market=e[2], price=e[8], p0=p0, rate=rate))
    if ab:
        out.append(ab)
    return out[:20]


# ------------------------------------------------------------------------------------ C16
def mon_C16(t):
    out = []
    ev = t.ev
    ab = _unexpected_abort(t, allowed=(13, 2, 3))
    rules = []
    for ex in t.events:
        if ex["cls"] == "TradingHaltRule" and ex["enabled"]:
            rules.append(dict(id=ex["id"], targets=[t.mnames[x] for x in ex["conf"]["targetMarkets"]],
                              rate=Fraction(ex["conf"]["triggerChangeRate"]), L=ex["conf"]["haltingTimeLength"],
                              count=0, halted=None))      # halted = (market, time, session)
    # no fill is ever recorded on a market that is not running
    running_at_round = {}
    for k, e in enumerate(ev):
        if e[0] == 4:
            running_at_round[e[1]] = e[2]
        if e[0] == 6 and e[1] == 3 and not running_at_round.get(e[2], True):
            out.append(V("no-fill-on-market-that-is-not-running", k, market=e[2], time=e[3]))
    if not rules:
        if ab:
            out.append(ab)
        return out[:20]
    # expected running flag per market, from the property text; one rule per market assumed for the schedule part
    per_market = collections.Counter(m for r in rules for m in r["targets"])
    simple = all(c == 1 for c in per_market.values())
    p0 = {}
    running = {mk: None for mk in t.markets}
    cur_session = None
    last_price = {}
    for k, e in enumerate(ev):
        if e[0] == 3 and e[1] == 7:
            cur_session = e[2]
            for mk in running:
                running[mk] = t.sessions[cur_session]["execu"]
            # a session that begins while a halt from the previous session is pending starts with its own configured flag
            # ("or until its session ends, whichever comes first")
            sw = t.sessions[cur_session]["execu"]
        if e[0] == 3 and e[1] == 9:
            mk, tm = e[3], e[4]
            # resume test at the step begin of a target market
            for r in rules:
                if r["halted"] is not None and r["halted"][0] == mk and tm > r["halted"][1] + r["L"]:
                    if r["halted"][2] == cur_session:
                        running[mk] = True
                    r["halted"] = None
            if simple and running[mk] is not None and e[5] != running[mk]:
                out.append(V("halt-and-resume-on-schedule", k, market=mk, time=tm, running=e[5], want=running[mk]))
                running[mk] = e[5]
        if e[0] == 3 and e[1] == 10:
            mk, tm = e[3], e[4]
            if tm == 0:
                p0[mk] = Fraction(e[7])
            if simple and running[mk] is not None and e[5] != running[mk]:
                out.append(V("halt-and-resume-on-schedule", k, market=mk, time=tm, running=e[5], want=running[mk], at_step_end=True))
                running[mk] = e[5]
        if e[0] == 6 and e[1] == 3:
            mk, tm, price = e[2], e[3], Fraction(e[8])
            ref = p0.get(mk, price if tm == 0 else None)
            if tm == 0:
                ref = price        # during step 0 the time-0 price is the current price: no deviation
            for r in rules:
                if mk in r["targets"] and running[mk] and ref is not None:
                    if abs(ref - price) >= abs(ref * r["rate"] * (r["count"] + 1)):
                        running[mk] = False
                        r["count"] += 1
                        r["halted"] = (mk, tm, cur_session)
    if ab:
        out.append(ab)
    return out[:20]


# ------------------------------------------------------------------------------------ C17
def mon_C17(t):
    out = []
    ev = t.ev
    ab = _unexpected_abort(t)
    idx_markets = [m for m in t.markets.values() if m["comps"] is not None]
    if not idx_markets:
        return [ab] if ab else []
    funds = t.res["funds"]
    # group step records: component prices at the same moment
    group = {}
    gk = None
    for k, e in enumerate(ev):
        if e[0] == 3 and e[1] in (9, 10):
            key = (e[1], e[4])
            if key != gk:
                gk, group = key, {}
            group[e[3]] = e
            m = t.markets[e[3]]
            if m["comps"] is not None and all(c in group for c in m["comps"]):
                tot = sum(t.markets[c]["shares"] for c in m["comps"])
                want = sum(Fraction(group[c][7]) * t.markets[c]["shares"] for c in m["comps"]) / tot
                got = e[9]
                if got is None or abs(got.x - want) > abs(want) * Fraction(1, 10 ** 9):
                    out.append(V("index-is-share-weighted-average-of-component-prices", k, got=got, want=float(want), time=e[4]))
                # fundamental recorded at the clock advance = weighted average of the values delivered for that time
                if all((c, e[4]) in funds for c in m["comps"]):
                    wantf = sum(Fraction(funds[(c, e[4])]) * t.markets[c]["shares"] for c in m["comps"]) / tot
                    gf = e[8]
                    gfx = gf.x if isinstance(gf, A) else Fraction(gf)
                    if abs(gfx - wantf) > abs(wantf) * Fraction(1, 10 ** 9):
                        out.append(V("index-fundamental-is-weighted-average-at-clock-advance", k, got=float(gfx), want=float(wantf), time=e[4]))
    # the index asked for with an explicit time - now, the step before, time 0 - against the components' own prices at that time
    for k, kind, mid, tq, got, comps in t.res.get("index_probe", []):
        if not comps or isinstance(got, str):
            out.append(V("index-at-explicit-time-is-share-weighted-average", min(k, len(ev) - 1), market=mid, time=tq, got=str(got)))
            continue
        tot = sum(sh for _, _, sh in comps)
        want = sum(Fraction(p) * sh for _, p, sh in comps) / tot
        if abs(Fraction(got) - want) > abs(want) * Fraction(1, 10 ** 9):
            out.append(V("index-at-explicit-time-is-share-weighted-average", min(k, len(ev) - 1), market=mid, time=tq,
                         got=float(got), want=float(want), step_record=("begin" if kind == 9 else "end")))
    if ab:
        out.append(ab)
    return out[:20]


# ------------------------------------------------------------------------------------ C04 (runner part)
def mon_C04(t):
    """an order object is accepted at most once, only by the market it names and only when submitted by its owner"""
    out = []
    req = t.requested()
    seen = set()
    for k, e in enumerate(t.ev):
        if e[0] == 6 and e[1] == 1:
            oid, mk, tm, ag, buy, price, vol, ttl, tag = e[2:11]
            r = req.get(tag)
            if r is None:
                out.append(V("accepted-order-was-never-submitted", k, tag=tag))
                continue
            if tag in seen:
                out.append(V("object-accepted-twice", k, tag=tag))
            seen.add(tag)
            if r["by"] != ag:
                out.append(V("accepted-only-when-submitted-by-owner", k, owner=ag, submitted_by=r["by"]))
            if r["market"] != mk:
                out.append(V("accepted-only-by-the-market-it-names", k, names=r["market"], accepted_by=mk))
    ab = _unexpected_abort(t)
    if ab:
        out.append(ab)
    return out[:20]


MONITORS = {"C04": guarded(mon_C04), "C05": guarded(mon_C05), "C06": guarded(mon_C06), "C09": guarded(mon_C09), "C10": guarded(mon_C10),
            "C11": guarded(mon_C11), "C13": guarded(mon_C13), "C14": guarded(mon_C14), "C15": guarded(mon_C15),
            "C16": guarded(mon_C16), "C17": guarded(mon_C17)}
