"""Suite C (C18): configuration expansion components of the real pams next to coq/theories/Config.v.
case kinds: ext (json_extends on generated inheritance graphs, several resolutions on one settings dict), groups (count / range
expansion through SequentialRunner._setup), random (JsonRandom with a stub generator), session (legacy keys), klass (find_class)."""
import collections
import copy
import json
import os
import random
import warnings
from fractions import Fraction

import engine
from common import E, A, ov_lit, qlit, oqlit, ozlit, zlit, blit

KEYS = ["extends", "k1", "k2", "k3", "k4", "k5", "from", "to"]        # interned: index in this list
KID = {k: i for i, k in enumerate(KEYS)}


def V(rule, at, **detail):
    return {"rule": rule, "at": at, "detail": detail}


# ------------------------------------------------------------------------------------ generators
def gen_ext(rng):
    n = rng.randint(2, 9)
    names = [f"n{i}" for i in range(n)]
    whole = {}
    shape = rng.choice(["chain", "tree", "random", "cycle", "missing"])
    for i, nm in enumerate(names):
        o = {}
        items = []
        for k in KEYS[1:]:
            if rng.random() < 0.45:
                # one value in five is falsy (0, 0.0, false, "", null, [], {}): settings such as volatility 0.0 or enabled false
                items.append((k, rng.randint(1, 99) if rng.random() < 0.8 else rng.choice([0, 0.0, False, "", None, [], {}])))
        parent = None
        if shape == "chain" and i > 0:
            parent = names[i - 1]
        elif shape == "tree" and i > 0:
            parent = names[rng.randrange(i)]
        elif shape == "random" and rng.random() < 0.7:
            parent = rng.choice(names)
        elif shape == "cycle":
            parent = names[(i + 1) % n] if rng.random() < 0.8 else (names[rng.randrange(n)] if rng.random() < 0.5 else None)
        elif shape == "missing" and i > 0:
            parent = names[i - 1] if rng.random() < 0.7 else "ghost"
        if parent is not None:
            items.insert(rng.randint(0, len(items)), ("extends", parent))
        for k, v in items:
            o[k] = v
        whole[nm] = o
    queries = []
    for _ in range(rng.randint(1, 5)):
        excl = [k for k in KEYS[1:] if rng.random() < 0.25]
        queries.append([rng.choice(names), excl])
    return {"kind": "ext", "whole": whole, "queries": queries, "shape": shape}


def gen_groups(rng):
    gs = []
    kind = rng.choice(["markets", "agents"])
    for i in range(rng.randint(1, 4)):
        r = rng.random()
        if r < 0.3:
            spec = ["count", rng.choice([1, 1, 2, 3, 5])]
        elif r < 0.8:
            a = rng.choice([0, 0, 1, 3, 5, 10])
            spec = ["range", a, a + rng.choice([0, 1, 1, 1, 2, 4])]
        else:
            spec = ["single"]
        prefix = rng.choice([None, None, "P", "Q-", f"G{i}x"])
        gs.append({"name": f"G{i}", "spec": spec, "prefix": prefix})
    if rng.random() < 0.1 and len(gs) >= 2:
        gs[1]["prefix"] = gs[0]["prefix"] or (gs[0]["name"] + ("-" if _n(gs[0]["spec"]) > 1 else ""))   # provoke a name clash
    listed = [rng.sample([g["name"] for g in gs], rng.randint(1, len(gs))) for _ in range(2)]
    return {"kind": "groups", "which": kind, "groups": gs, "listed": listed}


def _n(spec):
    return 1 if spec[0] == "single" else (spec[1] if spec[0] == "count" else spec[2] - spec[1] + 1)


DY = [0.0, 0.5, 1.0, 2.0, 100.0, 200.0, -3.0, 0.25, 1024.0]


def gen_random(rng):
    u = rng.choice([0.0, 0.5, 0.25, 0.75, 2.0 ** -20, 1 - 2.0 ** -10, rng.randint(0, 2 ** 20 - 1) / 2.0 ** 20])
    a, b = sorted(rng.sample(DY, 2))
    form = rng.choice(["pair", "const", "uniform", "normal", "expon", "scalar", "bad_len", "bad_two", "bad_unknown", "bad_notlist"])
    if form == "pair":
        jv = [a, b]
    elif form == "const":
        jv = {"const": [a]}
    elif form == "uniform":
        jv = {"uniform": [a, b]}
    elif form == "normal":
        jv = {"normal": [a, abs(b)]}
    elif form == "expon":
        jv = {"expon": [rng.choice([0.5, 1.0, 2.0, 4.0])]}
    elif form == "scalar":
        jv = rng.choice([a, int(b)])
    elif form == "bad_len":
        jv = rng.choice([[a], [a, b, a], {"const": [a, b]}, {"uniform": [a]}, {"expon": [a, b]}, {"normal": [a]}])
    elif form == "bad_two":
        jv = {"const": [a], "uniform": [a, b]}
    elif form == "bad_unknown":
        jv = {"poisson": [a]}
    else:
        jv = {"const": a}
    return {"kind": "random", "jv": jv, "u": u, "g": rng.choice(DY), "form": form}


def gen_session(rng):
    keys = {}
    if rng.random() < 0.5:
        keys["maxHighFrequencyOrders"] = rng.randint(0, 5)
    if rng.random() < 0.4:
        keys["maxHifreqOrders"] = rng.randint(0, 5)
    if rng.random() < 0.5:
        keys["highFrequencySubmitRate"] = rng.choice([0.0, 0.25, 0.5, 1.0])
    if rng.random() < 0.4:
        keys["hifreqSubmitRate"] = rng.choice([0.0, 0.25, 0.5, 1.0])
    return {"kind": "session", "keys": keys}


def gen_klass(rng):
    builtin = ["Market", "IndexMarket", "Agent", "FCNAgent", "ArbitrageAgent", "MarketMakerAgent", "MarketShareFCNAgent",
               "HighFrequencyAgent", "TestAgent", "FundamentalPriceShock", "OrderMistakeShock", "PriceLimitRule",
               "TradingHaltRule", "Logger", "Order", "Session", "Simulator"]
    r = rng.random()
    if r < 0.6:
        return {"kind": "klass", "name": rng.choice(builtin), "registered": []}
    if r < 0.75:
        return {"kind": "klass", "name": "UserThing", "registered": ["UserThing"]}
    if r < 0.85:
        return {"kind": "klass", "name": "UserThing", "registered": ["UserThing", "UserThing"]}
    if r < 0.93:
        return {"kind": "klass", "name": rng.choice(builtin), "registered": [None]}      # registering a class named like a built-in
    return {"kind": "klass", "name": "NoSuchClass", "registered": ["UserThing"]}


# ------------------------------------------------------------------------------------ running the real code
def exc_code(e):
    msg = str(e)
    if isinstance(e, ValueError):
        if "extending loop" in msg:
            return E(18, msg)
        return E(16, msg)
    if isinstance(e, AttributeError):
        return E(16, msg)
    return E(18, type(e).__name__ + ":" + msg)


class StubPrng(random.Random):
    def __init__(self, u, g):
        super().__init__(0)
        self.u, self.g = u, g

    def random(self):
        return self.u

    def gauss(self, mu, sigma):
        return self.g


def run_case(case):
    warnings.filterwarnings("ignore")
    k = case["kind"]
    if k == "ext":
        from pams.utils.json_extends import json_extends
        whole = copy.deepcopy(case["whole"])
        before = copy.deepcopy(whole)
        outs = []
        mutated = False
        for name, excl in case["queries"]:
            target = whole[name]
            tcopy = copy.deepcopy(target)
            try:
                r = json_extends(whole_json=whole, parent_name=name, target_json=target, excludes_fields=list(excl))
                outs.append({kk: vv for kk, vv in r.items()})
            except Exception as e:  # noqa
                outs.append(exc_code(e))
            if whole != before or target != tcopy:
                mutated = True
        return {"outs": outs, "mutated": mutated}
    if k == "groups":
        import suite_s
        from pams.runners import SequentialRunner
        K = suite_s.classes()
        cfg = {"simulation": {"markets": [], "agents": [], "sessions": [{"sessionName": 0, "iterationSteps": 1, "withOrderPlacement": False,
                                                                       "withOrderExecution": False, "withPrint": False}]}}
        which = case["which"]
        if which == "agents":
            cfg["simulation"]["markets"] = ["MA", "MB"]
            cfg["MA"] = {"class": "Market", "tickSize": 1.0, "marketPrice": 100.0, "numMarkets": 2}
            cfg["MB"] = {"class": "Market", "tickSize": 1.0, "marketPrice": 100.0, "from": 5, "to": 6}
        for g in case["groups"]:
            o = {"class": "Market", "tickSize": 1.0, "marketPrice": 100.0} if which == "markets" else \
                {"class": "SAgent", "cashAmount": 100, "assetVolume": 1, "markets": ["MA", "MB"] if g["name"] != "G0" else ["MB"]}
            sp = g["spec"]
            if sp[0] == "count":
                o["numMarkets" if which == "markets" else "numAgents"] = sp[1]
            elif sp[0] == "range":
                o["from"], o["to"] = sp[1], sp[2]
            if g["prefix"] is not None:
                o["prefix"] = g["prefix"]
            cfg[g["name"]] = o
            cfg["simulation"][which].append(g["name"])
        cfg0 = copy.deepcopy(cfg)
        try:
            r = SequentialRunner(settings=cfg, prng=random.Random(1))
            r.class_register(K["SAgent"])
            r._setup()
        except Exception as e:  # noqa
            return {"error": exc_code(e), "settings_untouched": cfg == cfg0}
        sim = r.simulator
        ents = sim.markets if which == "markets" else sim.agents
        ids = [(x.market_id if which == "markets" else x.agent_id, x.name) for x in ents]
        out = {"error": None, "entities": ids if which == "markets" else ids, "settings_untouched": cfg == cfg0}
        if which == "agents":
            out["access"] = [[a.agent_id, sorted(m.market_id for m in sim.markets if a.is_market_accessible(m.market_id))] for a in sim.agents]
            out["groups_of_markets"] = {g: [m.market_id for m in ms] for g, ms in sim.markets_group_name2market.items()}
            out["agent_groups"] = {g: [a.agent_id for a in ags] for g, ags in sim.agents_group_name2agent.items()}
        return out
    if k == "random":
        from pams.utils.json_random import JsonRandom
        try:
            v = JsonRandom(prng=StubPrng(case["u"], case["g"])).random(json_value=case["jv"])
            return {"value": v}
        except Exception as e:  # noqa
            return {"value": exc_code(e)}
    if k == "session":
        from pams.session import Session
        from pams.simulator import Simulator
        s = Session(session_id=0, prng=random.Random(0), session_start_time=0, simulator=Simulator(prng=random.Random(0)), name="s")
        st = {"sessionName": 0, "iterationSteps": 1, "withOrderPlacement": True, "withOrderExecution": True, "withPrint": False}
        st.update(case["keys"])
        try:
            s.setup(settings=st)
            return {"value": [s.max_high_frequency_orders, Fraction(s.high_frequency_submission_rate)]}
        except Exception as e:  # noqa
            return {"value": exc_code(e)}
    if k == "klass":
        from pams.utils.class_finder import find_class
        import pams.utils.class_finder as cf
        regs = []
        for nm in case["registered"]:
            regs.append(type(nm or case["name"], (), {}))
        try:
            c = find_class(name=case["name"], optional_class_list=regs)
            ok = c.__name__ == case["name"]
            res = True if ok else E(18, "wrong class")
        except Exception as e:  # noqa
            res = exc_code(e)
        # the namespaces find_class looks into (as it computes them)
        spaces = []
        for modname in ("pams", "pams.agents", "pams.events", "pams.logs", "pams.utils"):
            m = __import__(modname, fromlist=["*"])
            spaces.append(hasattr(m, case["name"]))
        other = [x for x in vars(cf).values() if hasattr(x, case["name"]) and getattr(x, "__name__", "") not in
                 ("pams", "pams.agents", "pams.events", "pams.logs", "pams.utils")]
        return {"value": res, "spaces": spaces, "other_namespaces_with_name": len(other)}
    raise ValueError(k)


# ------------------------------------------------------------------------------------ to Coq
def obj_lit(o):
    return "[" + "; ".join(f"({KID[k] if k in KID else 50 + int(k[1:])}, {zlit(_val(v))})" for k, v in o.items()) + "]"


def _val(v):
    """opaque values as integers for the model: parents' names, and distinct codes for the falsy values"""
    if v is None:
        return -1
    if isinstance(v, bool):
        return -2 if v is False else -7
    if isinstance(v, float):
        return -6 if v == 0.0 else 998
    if isinstance(v, str):
        if v == "":
            return -3
        return 100 + int(v[1:]) if v.startswith("n") else 999
    if isinstance(v, list):
        return -4
    if isinstance(v, dict):
        return -5
    return v


def case_term(case, res):
    k = case["kind"]
    if k == "ext":
        whole = "[" + "; ".join(f"({100 + int(n[1:])}, {obj_lit(o)})" for n, o in case["whole"].items()) + "]"
        qs = "[" + "; ".join(f"({100 + int(n[1:])}, [" + "; ".join(str(KID[x]) for x in ex) + "])" for n, ex in case["queries"]) + "]"
        exp = []
        for o in res["outs"]:
            if isinstance(o, E):
                exp.append(o)
            else:
                exp.append([[KID[kk], _val(vv)] for kk, vv in sorted(o.items(), key=lambda kv: KID[kv[0]])])
        inp = f"(CExt {whole} {qs})"
        return f"({inp}, {ov_lit(exp)})", inp, exp
    if k == "groups":
        prefs = {}
        gs = []
        for i, g in enumerate(case["groups"]):
            sp = g["spec"]
            lit = "GSingle" if sp[0] == "single" else (f"GCount {zlit(sp[1])}" if sp[0] == "count" else f"GRange {zlit(sp[1])} {zlit(sp[2])}")
            n = _n(sp)
            pstr = g["prefix"] if g["prefix"] is not None else g["name"] + ("-" if n > 1 else "")
            pid = prefs.setdefault(pstr, len(prefs))
            gs.append(f"({lit}, {pid})")
        shift = 4 if case["which"] == "agents" else 0
        if res["error"] is not None:
            exp = E(16)
        else:
            inv = {v: kk for kk, v in prefs.items()}
            exp = []
            for (i, name) in res["entities"]:
                if case["which"] == "agents" or True:
                    pass
                # recover (prefix id, suffix) from the real name, longest prefix first
                best = None
                for pstr, pid in sorted(prefs.items(), key=lambda kv: -len(kv[0])):
                    if name.startswith(pstr):
                        rest = name[len(pstr):]
                        if rest == "" or rest.lstrip("-").isdigit():
                            best = (pid, None if rest == "" else int(rest))
                            break
                if case["which"] == "markets" or i >= 0:
                    exp.append([i, best[0] if best else -1, best[1] if best else None])
            if case["which"] == "agents":
                pass
        inp = f"(CGroups [" + "; ".join(gs) + "])"
        return f"({inp}, {ov_lit(exp)})", inp, exp
    if k == "random":
        jv, form = case["jv"], case["form"]

        def q(x):
            return qlit(float(x))
        if form == "pair":
            j = f"JPair {q(jv[0])} {q(jv[1])}"
        elif form == "const":
            j = f"JConst {q(jv['const'][0])}"
        elif form == "uniform":
            j = f"JUniform {q(jv['uniform'][0])} {q(jv['uniform'][1])}"
        elif form == "normal":
            j = f"JNormal {q(jv['normal'][0])} {q(jv['normal'][1])}"
        elif form == "expon":
            j = f"JExpon {q(jv['expon'][0])}"
        elif form == "scalar":
            j = f"JScalar {q(jv)}"
        else:
            j = "JBad"
        import math
        l = -math.log(case["u"]) if case["u"] > 0 else 0.0
        v = res["value"]
        exp = v if isinstance(v, E) else Fraction(v)
        if form == "expon" and case["u"] == 0:
            return None
        if form in ("pair", "uniform") and not isinstance(v, E):
            a_, b_ = (jv if form == "pair" else jv["uniform"])
            if Fraction(case["u"]) * (Fraction(float(b_)) - Fraction(float(a_))) + Fraction(float(a_)) != Fraction(v):
                return None      # the float result is rounded: outside the exact stream (the monitor still judges it)
        inp = f"(CRandom ({j}) {qlit(case['u'])} {qlit(case['g'])} {qlit(l)})"
        return f"({inp}, {ov_lit(exp)})", inp, exp
    if k == "session":
        ks = case["keys"]
        inp = (f"(CSession {ozlit(ks.get('maxHighFrequencyOrders'))} {ozlit(ks.get('maxHifreqOrders'))} "
               f"{oqlit(ks.get('highFrequencySubmitRate'))} {oqlit(ks.get('hifreqSubmitRate'))})")
        exp = res["value"]
        return f"({inp}, {ov_lit(exp)})", inp, exp
    if k == "klass":
        spaces = "[" + "; ".join("[7]" if b else "[]" for b in res["spaces"]) + "; ".join([""] + ["[7]"] * res["other_namespaces_with_name"]) + "]"
        regs = "[" + "; ".join("7" if (x is None or x == case["name"]) else "8" for x in case["registered"]) + "]"
        inp = f"(CClass {spaces} {regs} 7)"
        exp = res["value"]
        return f"({inp}, {ov_lit(exp)})", inp, exp
    raise ValueError(k)


# ------------------------------------------------------------------------------------ monitor (from the property text)
def nearest(whole, name, target, excl):
    """own keys, then for each remaining key the nearest ancestor defining it, skipping excluded keys; missing parent and
    cycles are errors"""
    out = {k: v for k, v in target.items() if k != "extends"}
    seen = [name]
    cur = target
    while "extends" in cur:
        p = cur["extends"]
        if p not in whole:
            return "missing"
        if p in seen:
            return "loop"
        seen.append(p)
        cur = whole[p]
        if "extends" in excl:
            cur = {k: v for k, v in cur.items() if k != "extends"}
        for k, v in cur.items():
            if k != "extends" and k not in excl and k not in out:
                out[k] = v
    return out


def mon_C18(case, res):
    out = []
    k = case["kind"]
    if k == "ext":
        if res["mutated"]:
            out.append(V("settings-not-modified-by-inheritance-resolution", 0))
        whole = case["whole"]
        for i, ((name, excl), o) in enumerate(zip(case["queries"], res["outs"])):
            want = nearest(whole, name, whole[name], excl)
            if want == "missing":
                if not (isinstance(o, E) and o.code == 16):
                    out.append(V("missing-parent-reported", i, name=name, got=o))
            elif want == "loop":
                if not (isinstance(o, E) and o.code == 18):
                    out.append(V("cycle-reported", i, name=name, got=o))
            else:
                if isinstance(o, E) or dict(o) != want:
                    out.append(V("own-keys-then-nearest-ancestor", i, name=name, excl=excl, got=o, want=want))
    elif k == "groups":
        if res.get("settings_untouched") is False:
            out.append(V("settings-not-modified-by-setup", 0))
        gs = case["groups"]
        # would the names be unique? (then the configuration is valid and must be accepted)
        names = []
        for g in gs:
            n = _n(g["spec"])
            p = g["prefix"] if g["prefix"] is not None else g["name"] + ("-" if n > 1 else "")
            lo = 0 if g["spec"][0] != "range" else g["spec"][1]
            names += [p + (str(lo + j) if n != 1 else "") for j in range(n)]
        extra = ["MA-0", "MA-1", "MB-5", "MB-6"] if case["which"] == "agents" else []
        valid = len(set(names)) == len(names) and all(_n(g["spec"]) >= 0 for g in gs)
        if res["error"] is not None:
            if valid:
                out.append(V("valid-count-or-range-rejected", 0, error=res["error"].text, names=names))
            return out
        if not valid:
            out.append(V("duplicate-names-accepted", 0, names=names))
            return out
        ents = res["entities"]
        mine = ents if case["which"] == "markets" else ents
        if [i for i, _ in mine] != list(range(len(mine))):
            out.append(V("ids-unique-and-consecutive", 0, ids=[i for i, _ in mine]))
        if [nm for _, nm in mine] != names:
            out.append(V("group-creates-exactly-that-many-entities-with-those-names", 0, got=[nm for _, nm in mine], want=names))
        if case["which"] == "agents":
            gm = res["groups_of_markets"]
            for g in gs:
                listed = ["MA", "MB"] if g["name"] != "G0" else ["MB"]
                want = sorted(sum([gm[x] for x in listed], []))
                for aid in res["agent_groups"].get(g["name"], []):
                    got = dict(res["access"])[aid]
                    if got != want:
                        out.append(V("agents-access-exactly-the-markets-of-listed-groups", 0, agent=aid, got=got, want=want))
    elif k == "random":
        v, form, jv = res["value"], case["form"], case["jv"]
        if form in ("pair", "uniform"):
            a, b = (jv if form == "pair" else jv["uniform"])
            if isinstance(v, E):
                out.append(V("valid-distribution-rejected", 0, jv=jv))
            elif a < b and 0 <= case["u"] < 1 and not (a <= v < b):
                out.append(V("uniform-returns-max" if v == b else "uniform-outside-support", 0, site="JsonRandom._next_uniform", jv=jv, value=v))
        elif form == "const" and v != jv["const"][0]:
            out.append(V("const-returns-its-value", 0, jv=jv, value=v))
        elif form == "scalar" and v != float(jv):
            out.append(V("scalar-returns-itself", 0, jv=jv, value=v))
        elif form == "expon" and not isinstance(v, E) and case["u"] > 0 and not (v >= 0):
            out.append(V("expon-outside-support", 0, jv=jv, value=v))
        elif form.startswith("bad") and not isinstance(v, E):
            out.append(V("malformed-distribution-accepted", 0, jv=jv, value=v))
    elif k == "session":
        ks, v = case["keys"], res["value"]
        both = ("maxHighFrequencyOrders" in ks and "maxHifreqOrders" in ks) or ("highFrequencySubmitRate" in ks and "hifreqSubmitRate" in ks)
        if both:
            if not isinstance(v, E):
                out.append(V("legacy-and-new-key-together-rejected", 0, keys=ks))
        elif isinstance(v, E):
            out.append(V("valid-session-rejected", 0, keys=ks))
        else:
            wm = ks.get("maxHighFrequencyOrders", ks.get("maxHifreqOrders", 1))
            wr = ks.get("highFrequencySubmitRate", ks.get("hifreqSubmitRate", 1.0))
            if v[0] != wm or Fraction(v[1]) != Fraction(wr):
                out.append(V("deprecated-spelling-sets-the-same-parameter", 0, keys=ks, got=v, want=[wm, wr]))
    elif k == "klass":
        v = res["value"]
        n_builtin = sum(res["spaces"]) + res["other_namespaces_with_name"]
        n = n_builtin + sum(1 for x in case["registered"] if x is None or x == case["name"])
        if n == 1 and v is not True:
            out.append(V("class-name-resolves-to-exactly-one-class", 0, name=case["name"], got=v))
        if n != 1 and v is True:
            out.append(V("ambiguous-or-unknown-class-name-accepted", 0, name=case["name"], candidates=n))
    return out


class SuiteC(engine.Suite):
    name = "C"
    imports = "Require Import Pams.Prelude Pams.Config."
    runner = "run_case_c"
    shard = 40
    SIZES = {"quick": 400, "thorough": 6000, "search": 100}

    def generate(self, seed, tier):
        n = self.SIZES.get(tier, 400)
        rng = random.Random(("C", seed, tier).__repr__())
        cases = []
        # systematic: every range of length 1..3 and count 1..3, with and without prefix
        if tier != "search":
            for which in ("markets", "agents"):
                for a in (0, 3):
                    for ln in (1, 2, 3):
                        for pf in (None, "X"):
                            cases.append({"kind": "groups", "which": which, "groups": [{"name": "G0", "spec": ["range", a, a + ln - 1], "prefix": pf}],
                                          "listed": [["G0"]]})
                for c in (1, 2, 3):
                    cases.append({"kind": "groups", "which": which, "groups": [{"name": "G0", "spec": ["count", c], "prefix": None}], "listed": [["G0"]]})
            cases.append({"kind": "random", "jv": [100.0, 200.0], "u": 1 - 2.0 ** -53, "g": 0.0, "form": "pair"})     # K1
        gens = [gen_ext, gen_ext, gen_ext, gen_groups, gen_groups, gen_random, gen_random, gen_session, gen_klass]
        for _ in range(n):
            cases.append(rng.choice(gens)(rng))
        return cases

    def run_impl(self, case):
        return run_case(case)

    def coq_term(self, case, res):
        try:
            return case_term(case, res)
        except Exception:  # noqa
            return None

    def owners(self, case, res, path, exp, model):
        return ["C18"]

    def monitors(self):
        return {"C18": mon_C18, "C07": lambda c, r: [v for v in mon_C18(c, r) if v["rule"].startswith("settings-not-modified")]}

    def nontrivial_key(self, case, res):
        if case["kind"] == "ext" and not any("extends" in o for o in case["whole"].values()):
            return None
        return hash(json.dumps(case, sort_keys=True, default=str))

    def describe(self, case, res):
        return {"case": case, "result": res}

    def stats(self, cases, results):
        kinds = collections.Counter(c["kind"] for c in cases)
        shapes = collections.Counter(c.get("shape") for c in cases if c["kind"] == "ext")
        errs = collections.Counter()
        depth = collections.Counter()
        for c, r in zip(cases, results):
            if c["kind"] == "ext":
                for o in r["outs"]:
                    errs["ok" if not isinstance(o, E) else str(o.code)] += 1
            if c["kind"] == "groups":
                for g in c["groups"]:
                    depth[f"{g['spec'][0]}:{_n(g['spec'])}"] += 1
        return {"key_rule": "distinct cases (inheritance graphs with at least one extends link)", "kinds": dict(kinds),
                "inheritance_shapes": dict(shapes), "extends_outcomes": dict(errs), "group_sizes": dict(depth)}
