(* Static prelude of the translated Logger (harness/py2coq_logger.py): the ten record classes of pams.logs.base; a log is (class, payload). *)
Require Import Pams.Prelude Pams.Match Pams.Market Pams.OrderPy.
Open Scope Z_scope.
Inductive logkind := KOrderLog | KCancelLog | KExpirationLog | KExecutionLog | KSimulationBeginLog | KSimulationEndLog
                   | KSessionBeginLog | KSessionEndLog | KMarketStepBeginLog | KMarketStepEndLog.
