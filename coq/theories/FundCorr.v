(* C12: the correlation table of pams.fundamentals.Fundamentals - a dict keyed by ORDERED pairs of market ids that is meant to hold one
   entry per UNORDERED pair.  This file is the static prelude of the translated units set_correlation / remove_correlation
   (harness/py2coq_corr.py): the meaning of the dict operations the translator accepts, the canonical-form invariant, and the
   specification the generated functions are proved against (coq/translated/CorrC12Proofs.v). *)
Require Import Pams.Prelude Pams.Match Pams.Market Pams.OrderPy.
Open Scope Z_scope.

(* an insertion-ordered dict with pair keys *)
Definition cdict := list ((Z * Z) * Q).
Definition keqb (a b : Z * Z) : bool := (fst a =? fst b) && (snd a =? snd b).
Fixpoint cget (k : Z * Z) (d : cdict) : option Q :=
  match d with [] => None | (k', v) :: r => if keqb k' k then Some v else cget k r end.
Definition chas (k : Z * Z) (d : cdict) : bool := match cget k d with Some _ => true | None => false end.
(* d[k] = v : in place when the key exists, appended otherwise *)
Fixpoint cset (k : Z * Z) (v : Q) (d : cdict) : cdict :=
  match d with
  | [] => [(k, v)]
  | (k', w) :: r => if keqb k' k then (k', v) :: r else (k', w) :: cset k v r
  end.
Fixpoint cdel (k : Z * Z) (d : cdict) : cdict :=
  match d with [] => [] | (k', w) :: r => if keqb k' k then r else (k', w) :: cdel k r end.
(* d.pop(k) : KeyError when the key is missing *)
Definition cpop (k : Z * Z) (d : cdict) : pres cdict := if chas k d then POk (cdel k d) else PErr PyKeyError.

(* what the table means: the correlation of an unordered pair *)
Definition pair_corr (d : cdict) (a b : Z) : option Q :=
  match cget (a, b) d with Some v => Some v | None => cget (b, a) d end.
Definition same_pair (x y a b : Z) : bool := ((x =? a) && (y =? b)) || ((x =? b) && (y =? a)).

(* canonical form: no pair is stored in both orders (each ordered key at most once is automatic for cget / cset / cdel) *)
Definition canon (d : cdict) : Prop := forall a b, chas (a, b) d = true -> chas (b, a) d = true -> a = b.

Lemma keqb_eq a b : keqb a b = true <-> a = b.
Proof.
  destruct a as [a1 a2], b as [b1 b2]. unfold keqb. simpl. rewrite andb_true_iff, !Z.eqb_eq. split; [intros [-> ->]; reflexivity|intros H; inversion H; auto].
Qed.
Lemma keqb_refl a : keqb a a = true. Proof. apply keqb_eq. reflexivity. Qed.
Lemma keqb_neq a b : keqb a b = false <-> a <> b.
Proof. split; [intros H C; apply keqb_eq in C; congruence|intros H; destruct (keqb a b) eqn:E; auto; apply keqb_eq in E; contradiction]. Qed.

Lemma cget_cset_same k v d : cget k (cset k v d) = Some v.
Proof. induction d as [|[k' w] r IH]; simpl; [rewrite keqb_refl; reflexivity|]. destruct (keqb k' k) eqn:E; simpl; rewrite E; auto. Qed.
Lemma cget_cset_other k k' v d : k <> k' -> cget k' (cset k v d) = cget k' d.
Proof.
  intros N. induction d as [|[k0 w] r IH]; simpl.
  - assert (keqb k k' = false) by (apply keqb_neq; exact N). rewrite H. reflexivity.
  - destruct (keqb k0 k) eqn:E; simpl.
    + apply keqb_eq in E. subst k0. assert (keqb k k' = false) by (apply keqb_neq; exact N). rewrite H. reflexivity.
    + destruct (keqb k0 k'); auto.
Qed.
Lemma cget_cdel_other k k' d : k <> k' -> cget k' (cdel k d) = cget k' d.
Proof.
  intros N. induction d as [|[k0 w] r IH]; simpl; auto. destruct (keqb k0 k) eqn:E; simpl.
  - apply keqb_eq in E. subst k0. assert (keqb k k' = false) by (apply keqb_neq; exact N). rewrite H. reflexivity.
  - destruct (keqb k0 k'); auto.
Qed.

Definition canon_full (d : cdict) : Prop := NoDup (map fst d) /\ canon d.

Lemma chas_in k d : chas k d = true <-> In k (map fst d).
Proof.
  unfold chas. induction d as [|[k' w] r IH]; simpl; [split; [discriminate|tauto]|].
  destruct (keqb k' k) eqn:E.
  - apply keqb_eq in E. subst. split; auto.
  - rewrite IH. apply keqb_neq in E. split; [auto|intros [H|H]; [contradiction|exact H]].
Qed.
Lemma chas_false_notin k d : chas k d = false <-> ~ In k (map fst d).
Proof. rewrite <- chas_in. destruct (chas k d); split; intros; try discriminate; auto. exfalso; auto. Qed.
Lemma chas_cget k d : chas k d = false <-> cget k d = None.
Proof. unfold chas. destruct (cget k d); split; intros; try discriminate; auto. Qed.

Lemma chas_cset k k' v d : chas k' (cset k v d) = keqb k k' || chas k' d.
Proof.
  unfold chas. destruct (keqb k k') eqn:E.
  - apply keqb_eq in E. subst. rewrite cget_cset_same. reflexivity.
  - apply keqb_neq in E. rewrite cget_cset_other by exact E. reflexivity.
Qed.
Lemma keys_cset k v d : map fst (cset k v d) = if chas k d then map fst d else map fst d ++ [k].
Proof.
  unfold chas. induction d as [|[k' w] r IH]; simpl; [reflexivity|]. destruct (keqb k' k) eqn:E; simpl; [reflexivity|].
  rewrite IH. destruct (cget k r); reflexivity.
Qed.
Lemma nodup_cset k v d : NoDup (map fst d) -> NoDup (map fst (cset k v d)).
Proof.
  intros N. rewrite keys_cset. destruct (chas k d) eqn:E; [exact N|]. apply chas_false_notin in E.
  clear - N E. induction (map fst d) as [|x l IH]; simpl; [constructor; [tauto|constructor]|].
  inversion N; subst. constructor.
  - intros C. apply in_app_iff in C. destruct C as [C|[C|[]]]; [contradiction|]. apply E. left. symmetry. exact C.
  - apply IH; auto. intros C. apply E. right. exact C.
Qed.

Lemma chas_cdel k k' d : NoDup (map fst d) -> chas k' (cdel k d) = negb (keqb k k') && chas k' d.
Proof.
  intros N. induction d as [|[k0 w] r IH]; simpl; [rewrite andb_false_r; reflexivity|]. inversion N as [|? ? Hn Nr]; subst.
  destruct (keqb k0 k) eqn:E.
  - apply keqb_eq in E. subst k0. unfold chas at 2. simpl. destruct (keqb k k') eqn:E2; simpl; [|reflexivity].
    apply keqb_eq in E2. subst k'. apply chas_false_notin. exact Hn.
  - unfold chas at 1 2. simpl. destruct (keqb k0 k') eqn:E2.
    + apply keqb_eq in E2. subst k'. assert (keqb k k0 = false) by (apply keqb_neq; intros C; subst; rewrite keqb_refl in E; discriminate).
      rewrite H. reflexivity.
    + apply IH. exact Nr.
Qed.
Lemma keys_cdel_incl k d x : In x (map fst (cdel k d)) -> In x (map fst d).
Proof. induction d as [|[k0 w] r IH]; simpl; auto. destruct (keqb k0 k); simpl; intuition. Qed.
Lemma nodup_cdel k d : NoDup (map fst d) -> NoDup (map fst (cdel k d)).
Proof.
  induction d as [|[k0 w] r IH]; simpl; intros N; auto. inversion N; subst. destruct (keqb k0 k); simpl; auto.
  constructor; [intros C; apply keys_cdel_incl in C; contradiction|auto].
Qed.
