(* Static prelude of the sixteenth translator (harness/py2coq_cancel.py): OrderBook.cancel, the one call Market._cancel_order makes into
   a book - if the order is still in the queue of its side it is removed (and remembered as it was, which is what the cancel log reads);
   if it already left - filled, expired or cancelled before - the book is unchanged. *)
Require Import Pams.Prelude Pams.Match Pams.Market Pams.OrderPy.
From RecordUpdate Require Import RecordSet.
Import RecordSetNotations.
Open Scope Z_scope.

Definition book_cancel (buy : bool) (m : market) (o : O) : market :=
  match find_id (oid o) (if buy then m_buys m else m_sells m) with
  | Some x =>
      (if buy then m <| m_buys := remove_id (oid o) (m_buys m) |> else m <| m_sells := remove_id (oid o) (m_sells m) |>)
        <| m_gone := m_gone m ++ [x] |>
  | None => m
  end.
