(* Bit-exact binary64 witnesses (vm_compute on Coq's primitive floats) for the two places where the exact-rational
   theorems and the float implementation part ways.  Only PrimFloat is imported (not Floats). *)
From Coq Require Import PrimFloat.
Open Scope float_scope.

(* K1 (C18, known finding): JsonRandom._next_uniform computes prng.random() * (max - min) + min.  With the largest value
   random() can return, 1 - 2^-53, and [100.0, 200.0] the result is exactly 200.0 = max, although the documented support
   is min <= x < max (over the rationals: Config.uniform_support). *)
Definition u_largest : float := 0x1.fffffffffffffp-1.
Example K1_uniform_can_return_max : PrimFloat.eqb (u_largest * (200 - 100) + 100) 200 = true.
Proof. vm_compute. reflexivity. Qed.
Example K1_draw_is_below_one : PrimFloat.ltb u_largest 1 = true.
Proof. vm_compute. reflexivity. Qed.

(* C19 hedge ("up to floating-point representation of the grid"): with tick 0.01 the nominally on-grid sell price 8516.37
   has a float quotient strictly above the integer 851637, so the engine's ceil moves it a full tick to 8516.38. *)
Example C19_decimal_tick_quotient_exceeds_level : PrimFloat.ltb 851637 (8516.37 / 0.01) = true.
Proof. vm_compute. reflexivity. Qed.
(* with a dyadic tick the same computation is exact *)
Example C19_dyadic_tick_quotient_exact : PrimFloat.eqb (8516.375 / 0.125) 68131 = true.
Proof. vm_compute. reflexivity. Qed.
