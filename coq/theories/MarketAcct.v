(* C04, first sentence: whole-lifetime volume accounting in the Level-M model.
   For every accepted order, at every moment of every history:
       accepted volume = (sum of its fills so far) + (volume resting now) + (volume reported at its FIRST terminal event),
   where at most one of the last two is non-zero.  Proved as an invariant over the record stream, for all operation lists. *)
Require Import Pams.Prelude Pams.Tick Pams.Match Pams.Market Pams.MatchQ Pams.MarketInv Pams.MarketExec Pams.MarketLife.
From RecordUpdate Require Import RecordSet.
Import RecordSetNotations.
Open Scope Z_scope.

(* ---------------- the ledger read off the record stream ---------------- *)
Fixpoint accepted (rs : list record) (i : Z) : option Z :=
  match rs with
  | [] => None
  | ROrder o :: r => if oid o =? i then Some (vol o) else accepted r i
  | _ :: r => accepted r i
  end.
Fixpoint filled (rs : list record) (i : Z) : Z :=
  match rs with
  | [] => 0
  | RExec _ _ _ _ bi si _ v :: r => (if (bi =? i) || (si =? i) then v else 0) + filled r i
  | _ :: r => filled r i
  end.
(* volume reported by the first cancellation / expiry record naming order i *)
Fixpoint term (rs : list record) (i : Z) : option Z :=
  match rs with
  | [] => None
  | Market.RCancel o _ :: r => if oid o =? i then Some (vol o) else term r i
  | RExpire o _ :: r => if oid o =? i then Some (vol o) else term r i
  | _ :: r => term r i
  end.
Definition tv (rs : list record) (i : Z) : Z := match term rs i with Some v => v | None => 0 end.

Lemma accepted_app a b i : accepted (a ++ b) i = match accepted a i with Some v => Some v | None => accepted b i end.
Proof. induction a as [|r a IH]; simpl; auto. destruct r; auto. destruct (oid o =? i); auto. Qed.
Lemma filled_app a b i : filled (a ++ b) i = filled a i + filled b i.
Proof. induction a as [|r a IH]; simpl; auto. destruct r; auto. rewrite IH. lia. Qed.
Lemma term_app a b i : term (a ++ b) i = match term a i with Some v => Some v | None => term b i end.
Proof. induction a as [|r a IH]; simpl; auto. destruct r; auto; destruct (oid o =? i); auto. Qed.

(* ---------------- the volume resting under an id ---------------- *)
Definition bvol (l : list O) (i : Z) : Z := match find_id i l with Some x => vol x | None => 0 end.
Definition rest_vol (m : market) (i : Z) : Z := bvol (m_buys m) i + bvol (m_sells m) i.

Lemma find_id_notin i (l : list O) : ~ In i (map (@oid Q) l) -> find_id i l = None.
Proof.
  induction l as [|x r IH]; simpl; intros H; auto. destruct (oid x =? i) eqn:E.
  - apply Z.eqb_eq in E. tauto.
  - apply IH. tauto.
Qed.

Lemma find_id_unique (l : list O) x : NoDup (map (@oid Q) l) -> In x l -> find_id (oid x) l = Some x.
Proof.
  induction l as [|y r IH]; simpl; intros N H; [tauto|]. inversion N as [|? ? Hn Nr]; subst.
  destruct H as [->|H]; [rewrite Z.eqb_refl; reflexivity|].
  destruct (oid y =? oid x) eqn:E; [|auto]. apply Z.eqb_eq in E. exfalso. apply Hn. rewrite E. apply in_map. exact H.
Qed.

Lemma find_id_insert o (l : list O) i : ~ In (oid o) (map (@oid Q) l) ->
  find_id i (insert o l) = if oid o =? i then Some o else find_id i l.
Proof.
  induction l as [|x r IH]; simpl; intros H.
  - reflexivity.
  - destruct (oltq o x); simpl.
    + reflexivity.
    + destruct (oid x =? i) eqn:E.
      * destruct (oid o =? i) eqn:E2; auto. apply Z.eqb_eq in E, E2. exfalso. apply H. left. congruence.
      * apply IH. tauto.
Qed.

Lemma find_id_remove (l : list O) i j : NoDup (map (@oid Q) l) ->
  find_id j (remove_id i l) = if j =? i then None else find_id j l.
Proof.
  induction l as [|x r IH]; simpl; intros N; [destruct (j =? i); reflexivity|]. inversion N as [|? ? Hn Nr]; subst.
  destruct (oid x =? i) eqn:E.
  - apply Z.eqb_eq in E. destruct (j =? i) eqn:E2.
    + apply Z.eqb_eq in E2. subst j. apply find_id_notin. congruence.
    + destruct (oid x =? j) eqn:E3; auto. apply Z.eqb_eq in E3. apply Z.eqb_neq in E2. congruence.
  - simpl. destruct (oid x =? j) eqn:E3.
    + apply Z.eqb_eq in E3. destruct (j =? i) eqn:E2; auto. apply Z.eqb_eq in E2. apply Z.eqb_neq in E. congruence.
    + apply IH. exact Nr.
Qed.

Lemma find_id_set_vol (l : list O) i nv j :
  find_id j (set_vol i nv l) = if j =? i then match find_id i l with Some x => Some (with_vol x nv) | None => None end else find_id j l.
Proof.
  induction l as [|x r IH]; simpl; [destruct (j =? i); reflexivity|].
  destruct (oid x =? i) eqn:E; simpl.
  - apply Z.eqb_eq in E. destruct (j =? i) eqn:E2.
    + apply Z.eqb_eq in E2. subst j. rewrite E, Z.eqb_refl. reflexivity.
    + destruct (oid x =? j) eqn:E3; auto. apply Z.eqb_eq in E3. apply Z.eqb_neq in E2. congruence.
  - destruct (oid x =? j) eqn:E3.
    + apply Z.eqb_eq in E3. destruct (j =? i) eqn:E2; auto. apply Z.eqb_eq in E2. apply Z.eqb_neq in E. congruence.
    + exact IH.
Qed.

Lemma find_id_filter (f : O -> bool) (l : list O) j : NoDup (map (@oid Q) l) ->
  find_id j (filter f l) = match find_id j l with Some x => if f x then Some x else None | None => None end.
Proof.
  induction l as [|x r IH]; simpl; intros N; auto. inversion N as [|? ? Hn Nr]; subst.
  destruct (f x) eqn:Fx; simpl; destruct (oid x =? j) eqn:E; auto.
  - rewrite Fx. reflexivity.
  - rewrite Fx. apply Z.eqb_eq in E. apply find_id_notin. intros C. apply Hn. rewrite E.
    apply in_map_iff in C. destruct C as [y [Ey Hy]]. apply filter_In in Hy. apply in_map_iff. exists y. tauto.
Qed.

Lemma find_id_app (a b : list O) j : find_id j (a ++ b) = match find_id j a with Some x => Some x | None => find_id j b end.
Proof. induction a as [|x r IH]; simpl; auto. destruct (oid x =? j); auto. Qed.

Lemma find_id_some_in i (l : list O) x : find_id i l = Some x -> In x l /\ oid x = i.
Proof. apply find_id_In. Qed.

(* ---------------- the records of a clock step ---------------- *)
Lemma term_expiries t (L : list O) j : term (map (fun o => RExpire o t) L) j = match find_id j L with Some x => Some (vol x) | None => None end.
Proof. induction L as [|x r IH]; simpl; auto. destruct (oid x =? j); auto. Qed.
Lemma accepted_expiries t (L : list O) j : accepted (map (fun o => RExpire o t) L) j = None.
Proof. induction L as [|x r IH]; simpl; auto. Qed.
Lemma filled_expiries t (L : list O) j : filled (map (fun o => RExpire o t) L) j = 0.
Proof. induction L as [|x r IH]; simpl; auto. Qed.

Lemma ids_ins_by_id o l k : In k (map (@oid Q) (ins_by_id o l)) <-> k = oid o \/ In k (map (@oid Q) l).
Proof.
  induction l as [|x r IH]; simpl; [intuition|]. destruct (oid o <? oid x); simpl; [intuition|]. rewrite IH. intuition.
Qed.
Lemma ins_by_id_NoDup o l : NoDup (map (@oid Q) l) -> ~ In (oid o) (map (@oid Q) l) -> NoDup (map (@oid Q) (ins_by_id o l)).
Proof.
  induction l as [|x r IH]; simpl; intros N H; [constructor; auto|]. inversion N as [|? ? Hn Nr]; subst.
  destruct (oid o <? oid x); simpl.
  - constructor; auto.
  - constructor; [|apply IH; tauto]. rewrite ids_ins_by_id. intros [C|C]; [apply H; left; auto|tauto].
Qed.
Lemma ids_by_id l k : In k (map (@oid Q) (by_id l)) <-> In k (map (@oid Q) l).
Proof. induction l as [|x r IH]; simpl; [tauto|]. rewrite ids_ins_by_id, IH. intuition. Qed.
Lemma by_id_NoDup l : NoDup (map (@oid Q) l) -> NoDup (map (@oid Q) (by_id l)).
Proof.
  induction l as [|x r IH]; simpl; intros N; [constructor|]. inversion N as [|? ? Hn Nr]; subst.
  apply ins_by_id_NoDup; auto. rewrite ids_by_id. exact Hn.
Qed.

Lemma filter_ids_NoDup (f : O -> bool) (l : list O) : NoDup (map (@oid Q) l) -> NoDup (map (@oid Q) (filter f l)).
Proof.
  induction l as [|x r IH]; simpl; intros N; auto. inversion N as [|? ? Hn Nr]; subst.
  destruct (f x); simpl; auto. constructor; auto. intros C. apply Hn. eapply in_ids_filter; eauto.
Qed.

Lemma find_id_none_notin i (l : list O) : find_id i l = None -> ~ In i (map (@oid Q) l).
Proof. apply find_id_none_ids. Qed.

(* looking an id up in the id-sorted list of expired orders = looking it up in the book and asking whether it expired *)
Lemma find_id_by_id_filter (f : O -> bool) (l : list O) j : NoDup (map (@oid Q) l) ->
  find_id j (by_id (filter f l)) = match find_id j l with Some x => if f x then Some x else None | None => None end.
Proof.
  intros N. pose proof (filter_ids_NoDup f l N) as NF. pose proof (by_id_NoDup _ NF) as NB.
  destruct (find_id j l) as [x|] eqn:F.
  - apply find_id_some_in in F. destruct F as [Hx Ex]. destruct (f x) eqn:Fx.
    + subst j. apply find_id_unique; auto. apply In_by_id. apply filter_In. auto.
    + apply find_id_notin. rewrite ids_by_id. intros C. apply in_map_iff in C. destruct C as [y [Ey Hy]].
      apply filter_In in Hy. destruct Hy as [Hy Fy].
      assert (y = x) by (apply (ids_inj l); auto; congruence). subst y. congruence.
  - apply find_id_notin. rewrite ids_by_id. intros C. apply (find_id_none_notin _ _ F). eapply in_ids_filter; eauto.
Qed.

(* ---------------- the accounting invariant ---------------- *)
Record acct (m : market) (rs : list record) : Prop := {
  ac_life : life_ok m;
  (* the identity *)
  ac_eq : forall i v0, accepted rs i = Some v0 -> v0 = filled rs i + rest_vol m i + tv rs i;
  (* an order that still rests was accepted and has no terminal event yet *)
  ac_rest : forall i, rest_vol m i <> 0 -> accepted rs i <> None /\ term rs i = None;
  (* an order that left the book without a terminal event left it completely filled *)
  ac_gone : forall o, In o (m_gone m) -> term rs (oid o) = None -> vol o = 0;
  (* ids not handed out yet appear nowhere *)
  ac_fresh : forall i, m_next m <= i -> accepted rs i = None /\ filled rs i = 0 /\ term rs i = None /\ rest_vol m i = 0
}.

Lemma bvol_notin (l : list O) i : ~ In i (map (@oid Q) l) -> bvol l i = 0.
Proof. intros H. unfold bvol. rewrite find_id_notin; auto. Qed.

Lemma side_ids_lt side n t id (l : list O) i : side_ok side n t id l -> In i (map (@oid Q) l) -> i < n.
Proof.
  intros [_ E _] H. apply in_map_iff in H. destruct H as [x [<- Hx]]. rewrite Forall_forall in E. destruct (E _ Hx) as [_ [Hlt _]]. exact Hlt.
Qed.

Lemma acct_init id tk mp0 : acct (init_market id tk mp0) [].
Proof.
  constructor; simpl.
  - apply life_ok_init.
  - discriminate.
  - intros i H. exfalso. apply H. reflexivity.
  - tauto.
  - intros. repeat split; reflexivity.
Qed.

Lemma bvol_pos_in (l : list O) i : bvol l i <> 0 -> In i (map (@oid Q) l).
Proof.
  unfold bvol. destruct (find_id i l) as [x|] eqn:F; [|tauto]. intros _. apply find_id_some_in in F. destruct F as [Hx <-]. apply in_map. exact Hx.
Qed.

(* ---------------- add ---------------- *)
Lemma acct_add m rs ag mk buy p v ttlv m' r :
  acct m rs -> 0 < v -> (forall k, ttlv = Some k -> 0 < k) ->
  add_order m ag mk buy p v ttlv = Ok (m', r) -> acct m' (rs ++ [r]).
Proof.
  intros [L Eq Rs Gn Fr] Hv Hk H.
  pose proof (add_order_life _ _ _ _ _ _ _ _ _ L Hv Hk H) as L'.
  destruct (add_order_next _ _ _ _ _ _ _ _ _ H) as [Hn [Ht [o [-> [Ho [Hvo [_ [_ [_ [_ [_ [_ Hbk]]]]]]]]]]]].
  destruct L as [[SB SS] _].
  assert (NB : ~ In (oid o) (map (@oid Q) (m_buys m))) by (intros C; apply (side_ids_lt _ _ _ _ _ _ SB) in C; lia).
  assert (NS : ~ In (oid o) (map (@oid Q) (m_sells m))) by (intros C; apply (side_ids_lt _ _ _ _ _ _ SS) in C; lia).
  assert (RV : forall i, rest_vol m' i = if oid o =? i then v else rest_vol m i).
  { intros i. unfold rest_vol, bvol. destruct buy; destruct Hbk as [E1 E2]; rewrite E1, E2.
    - rewrite find_id_insert by exact NB. destruct (oid o =? i) eqn:E; auto. apply Z.eqb_eq in E. subst i.
      rewrite (find_id_notin _ _ NS). lia.
    - rewrite find_id_insert by exact NS. destruct (oid o =? i) eqn:E; auto. apply Z.eqb_eq in E. subst i.
      rewrite (find_id_notin _ _ NB). lia. }
  assert (Gn' : m_gone m' = m_gone m).
  { revert H. unfold add_order. destruct (m_time m <? 0); [discriminate|]. destruct (negb (mk =? m_id m)); [discriminate|].
    intros H; inversion H; subst. destruct buy; cbn; rewrite ump_gone; reflexivity. }
  destruct (Fr (oid o) ltac:(lia)) as [FA [FF [FT FR]]].
  constructor; auto.
  - intros i v0. rewrite accepted_app, filled_app. unfold tv. rewrite term_app. simpl. rewrite RV.
    destruct (oid o =? i) eqn:E.
    + apply Z.eqb_eq in E. subst i. rewrite FA, FF, FT. intros A. inversion A. lia.
    + destruct (accepted rs i) eqn:A; [|discriminate]. intros A'. inversion A'; subst.
      specialize (Eq _ _ A). unfold tv in Eq. destruct (term rs i); lia.
  - intros i. rewrite RV, accepted_app, term_app. simpl. destruct (oid o =? i) eqn:E.
    + apply Z.eqb_eq in E. subst i. rewrite FA, FT. intros _. split; [discriminate|reflexivity].
    + intros R. destruct (Rs _ R) as [A T]. rewrite T. destruct (accepted rs i); [split; [discriminate|reflexivity]|tauto].
  - rewrite Gn'. intros g Hg. rewrite term_app. simpl. destruct (term rs (oid g)) eqn:T; [discriminate|]. intros _. apply Gn; auto.
  - intros i Hi. rewrite Hn in Hi. destruct (Fr i ltac:(lia)) as [A [F [T R]]].
    rewrite accepted_app, filled_app, term_app, RV, A, F, T. simpl.
    assert (oid o =? i = false) by (apply Z.eqb_neq; lia). rewrite H0. repeat split; auto.
Qed.

(* ---------------- cancel ---------------- *)
Lemma acct_cancel m rs i m' r : acct m rs -> cancel_order m i = Ok (m', r) -> acct m' (rs ++ [r]).
Proof.
  intros [L Eq Rs Gn Fr] H. pose proof (cancel_order_life _ _ _ _ L H) as L'.
  destruct L as [[SB SS] [Cr _]]. pose proof (so_nodup _ _ _ _ _ SB) as NB. pose proof (so_nodup _ _ _ _ _ SS) as NS.
  revert H. unfold cancel_order. destruct (m_time m <? 0); [discriminate|].
  destruct (find_id i (m_buys m)) as [o|] eqn:Fb; [|destruct (find_id i (m_sells m)) as [o|] eqn:Fs; [|destruct (find_id i (m_gone m)) as [o|] eqn:Fg; [|discriminate]]];
    intros H; inversion H; subst; clear H.
  - (* resting buy *)
    pose proof (find_id_some_in _ _ _ Fb) as [Ib Eo].
    assert (Ns : find_id i (m_sells m) = None).
    { apply find_id_notin. intros C. apply in_map_iff in C. destruct C as [s [Es Is]]. apply (Cr o s Ib Is). congruence. }
    assert (RV : forall j, rest_vol (update_market_price (m <| m_buys := remove_id i (m_buys m) |> <| m_gone := m_gone m ++ [o] |>)) j
                 = if j =? i then 0 else rest_vol m j).
    { intros j. unfold rest_vol, bvol. rewrite ump_buys, ump_sells. cbn. rewrite find_id_remove by exact NB.
      destruct (j =? i) eqn:E; auto. apply Z.eqb_eq in E. subst j. rewrite Ns. reflexivity. }
    assert (R0 : rest_vol m i = vol o) by (unfold rest_vol, bvol; rewrite Fb, Ns; lia).
    assert (Pos : vol o <> 0).
    { destruct SB as [_ E _]. rewrite Forall_forall in E. destruct (E _ Ib) as [_ [_ [Hp _]]]. unfold O in *. lia. }
    destruct (Rs i ltac:(rewrite R0; exact Pos)) as [Ai Ti].
    constructor; auto.
    + intros j v0. rewrite accepted_app, filled_app. unfold tv. rewrite term_app, RV. simpl. rewrite Eo.
      destruct (accepted rs j) eqn:A; [|discriminate]. intros A'; injection A' as <-. specialize (Eq _ _ A). unfold tv in Eq.
      rewrite (Z.eqb_sym i j). destruct (j =? i) eqn:E.
      * apply Z.eqb_eq in E. subst j. rewrite Ti in *. lia.
      * destruct (term rs j); lia.
    + intros j. rewrite RV, accepted_app, term_app. simpl. rewrite Eo, (Z.eqb_sym i j). destruct (j =? i); [tauto|].
      intros R. destruct (Rs _ R) as [A T]. rewrite T. destruct (accepted rs j); [split; [discriminate|reflexivity]|tauto].
    + rewrite ump_gone. cbn. intros g Hg. rewrite term_app. simpl. rewrite Eo. apply in_app_iff in Hg.
      destruct (term rs (oid g)) eqn:T; [discriminate|]. destruct Hg as [Hg|[<-|[]]].
      * destruct (i =? oid g); [discriminate|]. intros _. apply Gn; auto.
      * rewrite Eo, Z.eqb_refl. discriminate.
    + rewrite ump_next. cbn. intros j Hj. destruct (Fr j Hj) as [A [F [T R]]].
      rewrite accepted_app, filled_app, term_app, RV, A, F, T. simpl. rewrite Eo.
      assert (i < m_next m) by (eapply side_ids_lt; [exact SB|]; rewrite <- Eo; apply in_map; exact Ib).
      assert (E1 : i =? j = false) by (apply Z.eqb_neq; lia). assert (E2 : j =? i = false) by (apply Z.eqb_neq; lia).
      rewrite E1, E2. repeat split; auto.
  - (* resting sell *)
    pose proof (find_id_some_in _ _ _ Fs) as [Is Eo].
    assert (RV : forall j, rest_vol (update_market_price (m <| m_sells := remove_id i (m_sells m) |> <| m_gone := m_gone m ++ [o] |>)) j
                 = if j =? i then 0 else rest_vol m j).
    { intros j. unfold rest_vol, bvol. rewrite ump_buys, ump_sells. cbn. rewrite find_id_remove by exact NS.
      destruct (j =? i) eqn:E; auto. apply Z.eqb_eq in E. subst j. rewrite Fb. reflexivity. }
    assert (R0 : rest_vol m i = vol o) by (unfold rest_vol, bvol; rewrite Fb, Fs; lia).
    assert (Pos : vol o <> 0).
    { destruct SS as [_ E _]. rewrite Forall_forall in E. destruct (E _ Is) as [_ [_ [Hp _]]]. unfold O in *. lia. }
    destruct (Rs i ltac:(rewrite R0; exact Pos)) as [Ai Ti].
    constructor; auto.
    + intros j v0. rewrite accepted_app, filled_app. unfold tv. rewrite term_app, RV. simpl. rewrite Eo.
      destruct (accepted rs j) eqn:A; [|discriminate]. intros A'; injection A' as <-. specialize (Eq _ _ A). unfold tv in Eq.
      rewrite (Z.eqb_sym i j). destruct (j =? i) eqn:E.
      * apply Z.eqb_eq in E. subst j. rewrite Ti in *. lia.
      * destruct (term rs j); lia.
    + intros j. rewrite RV, accepted_app, term_app. simpl. rewrite Eo, (Z.eqb_sym i j). destruct (j =? i); [tauto|].
      intros R. destruct (Rs _ R) as [A T]. rewrite T. destruct (accepted rs j); [split; [discriminate|reflexivity]|tauto].
    + rewrite ump_gone. cbn. intros g Hg. rewrite term_app. simpl. rewrite Eo. apply in_app_iff in Hg.
      destruct (term rs (oid g)) eqn:T; [discriminate|]. destruct Hg as [Hg|[<-|[]]].
      * destruct (i =? oid g); [discriminate|]. intros _. apply Gn; auto.
      * rewrite Eo, Z.eqb_refl. discriminate.
    + rewrite ump_next. cbn. intros j Hj. destruct (Fr j Hj) as [A [F [T R]]].
      rewrite accepted_app, filled_app, term_app, RV, A, F, T. simpl. rewrite Eo.
      assert (i < m_next m) by (eapply side_ids_lt; [exact SS|]; rewrite <- Eo; apply in_map; exact Is).
      assert (E1 : i =? j = false) by (apply Z.eqb_neq; lia). assert (E2 : j =? i = false) by (apply Z.eqb_neq; lia).
      rewrite E1, E2. repeat split; auto.
  - (* the order already left the book: the cancel is acknowledged with the order as it left *)
    pose proof (find_id_some_in _ _ _ Fg) as [Ig Eo].
    assert (RV : forall j, rest_vol (update_market_price m) j = rest_vol m j).
    { intros j. unfold rest_vol. rewrite ump_buys, ump_sells. reflexivity. }
    assert (R0 : rest_vol m i = 0) by (unfold rest_vol, bvol; rewrite Fb, Fs; lia).
    constructor; auto.
    + intros j v0. rewrite accepted_app, filled_app. unfold tv. rewrite term_app, RV. simpl. rewrite Eo.
      destruct (accepted rs j) eqn:A; [|discriminate]. intros A'; injection A' as <-. specialize (Eq _ _ A). unfold tv in Eq.
      destruct (term rs j) eqn:T; [lia|]. destruct (i =? j) eqn:E; [|lia]. apply Z.eqb_eq in E. subst j.
      rewrite (Gn o Ig) by (rewrite Eo; exact T). lia.
    + intros j. rewrite RV, accepted_app, term_app. simpl. rewrite Eo. intros R. destruct (Rs _ R) as [A T]. rewrite T.
      destruct (i =? j) eqn:E; [apply Z.eqb_eq in E; subst j; tauto|].
      destruct (accepted rs j); [split; [discriminate|reflexivity]|tauto].
    + rewrite ump_gone. intros g Hg. rewrite term_app. simpl. destruct (term rs (oid g)) eqn:T; [discriminate|]. intros _. apply Gn; auto.
    + rewrite ump_next. intros j Hj. destruct (Fr j Hj) as [A [F [T R]]].
      rewrite accepted_app, filled_app, term_app, RV, A, F, T. simpl. rewrite Eo.
      assert (i < m_next m).
      { destruct L' as [_ [_ [_ G]]]. unfold gone_ok in G. rewrite ump_gone, ump_next, Forall_forall in G. rewrite <- Eo. apply G; auto. }
      assert (E1 : i =? j = false) by (apply Z.eqb_neq; lia). rewrite E1. repeat split; auto.
Qed.

(* ---------------- clock step ---------------- *)
Lemma acct_tick m rs f : acct m rs -> acct (fst (tick m f)) (rs ++ snd (tick m f)).
Proof.
  intros [L Eq Rs Gn Fr]. pose proof (tick_life m f L) as L'.
  destruct L as [[SB SS] [Cr _]]. pose proof (so_nodup _ _ _ _ _ SB) as NB. pose proof (so_nodup _ _ _ _ _ SS) as NS.
  set (t := m_time m + 1).
  assert (X : forall j, (find_id j (m_buys m) = None \/ find_id j (m_sells m) = None)).
  { intros j. destruct (find_id j (m_buys m)) as [x|] eqn:B; auto. destruct (find_id j (m_sells m)) as [y|] eqn:S; auto.
    exfalso. apply find_id_some_in in B, S. destruct B as [Hx Ex], S as [Hy Ey]. apply (Cr x y Hx Hy). congruence. }
  assert (RV : forall j, rest_vol (fst (tick m f)) j =
             (match find_id j (m_buys m) with Some x => if expired t x then 0 else vol x | None => 0 end) +
             (match find_id j (m_sells m) with Some x => if expired t x then 0 else vol x | None => 0 end)).
  { intros j. unfold rest_vol, bvol. rewrite tick_buys, tick_sells. fold t. rewrite !find_id_filter by assumption.
    destruct (find_id j (m_buys m)) as [x|]; destruct (find_id j (m_sells m)) as [y|];
      try destruct (expired t x); try destruct (expired t y); reflexivity. }
  assert (TR : forall j, term (snd (tick m f)) j =
             match find_id j (m_buys m) with
             | Some x => if expired t x then Some (vol x) else None
             | None => match find_id j (m_sells m) with Some y => if expired t y then Some (vol y) else None | None => None end
             end).
  { intros j. rewrite tick_records. fold t. rewrite term_expiries, find_id_app, !find_id_by_id_filter by assumption.
    destruct (X j) as [B|S].
    - rewrite B. destruct (find_id j (m_sells m)) as [y|]; auto. destruct (expired t y); auto.
    - rewrite S. destruct (find_id j (m_buys m)) as [x|]; auto. destruct (expired t x); auto. }
  assert (AC : forall j, accepted (snd (tick m f)) j = None) by (intros; rewrite tick_records; apply accepted_expiries).
  assert (FI : forall j, filled (snd (tick m f)) j = 0) by (intros; rewrite tick_records; apply filled_expiries).
  assert (R0 : forall j, rest_vol m j = (match find_id j (m_buys m) with Some x => vol x | None => 0 end) +
                                        (match find_id j (m_sells m) with Some x => vol x | None => 0 end)) by reflexivity.
  constructor; auto.
  - intros j v0. rewrite accepted_app, filled_app, FI. unfold tv. rewrite term_app, RV, TR.
    destruct (accepted rs j) eqn:A; [|rewrite AC; discriminate]. intros A'; injection A' as <-.
    specialize (Eq _ _ A). unfold tv in Eq. specialize (Rs j). rewrite R0 in Eq, Rs.
    destruct (X j) as [B|S].
    + rewrite B in *. destruct (find_id j (m_sells m)) as [y|] eqn:S.
      * destruct (expired t y).
        -- assert (Py : vol y <> 0).
           { apply find_id_some_in in S. destruct S as [Hy _]. destruct SS as [_ E _]. rewrite Forall_forall in E.
             destruct (E _ Hy) as [_ [_ [Hp _]]]. unfold O in *. lia. }
           destruct (Rs ltac:(lia)) as [_ T]. rewrite T in *. lia.
        -- destruct (term rs j); lia.
      * destruct (term rs j); lia.
    + rewrite S in *. destruct (find_id j (m_buys m)) as [x|] eqn:B.
      * destruct (expired t x).
        -- assert (Px : vol x <> 0).
           { apply find_id_some_in in B. destruct B as [Hx _]. destruct SB as [_ E _]. rewrite Forall_forall in E.
             destruct (E _ Hx) as [_ [_ [Hp _]]]. unfold O in *. lia. }
           destruct (Rs ltac:(lia)) as [_ T]. rewrite T in *. lia.
        -- destruct (term rs j); lia.
      * destruct (term rs j); lia.
  - intros j. rewrite RV, accepted_app, term_app, TR. intros R. specialize (Rs j). rewrite R0 in Rs.
    destruct (find_id j (m_buys m)) as [x|] eqn:B; destruct (find_id j (m_sells m)) as [y|] eqn:S;
      try destruct (expired t x) eqn:Ex; try destruct (expired t y) eqn:Ey; try lia;
      (assert (R' : (match (Some 0) with Some _ => True | None => True end)) by exact I);
      destruct Rs as [A T]; try (destruct (X j) as [C|C]; congruence);
      try (rewrite T; destruct (accepted rs j); [split; [discriminate|reflexivity]|tauto]).
    all: try (apply find_id_some_in in B; destruct B as [Hx _]; destruct SB as [_ E _]; rewrite Forall_forall in E;
              destruct (E _ Hx) as [_ [_ [Hp _]]]; unfold O in *; lia).
    all: try (apply find_id_some_in in S; destruct S as [Hy _]; destruct SS as [_ E _]; rewrite Forall_forall in E;
              destruct (E _ Hy) as [_ [_ [Hp _]]]; unfold O in *; lia).
  - rewrite tick_gone. fold t. intros g Hg. rewrite term_app, TR. destruct (term rs (oid g)) eqn:T; [discriminate|].
    apply in_app_iff in Hg. destruct Hg as [Hg|Hg]; [intros _; apply Gn; auto|].
    apply in_app_iff in Hg. destruct Hg as [Hg|Hg]; apply In_by_id, filter_In in Hg; destruct Hg as [Hg Eg].
    + rewrite (find_id_unique _ _ NB Hg), Eg. discriminate.
    + destruct (X (oid g)) as [B|S]; [|rewrite (find_id_unique _ _ NS Hg) in S; discriminate].
      rewrite B, (find_id_unique _ _ NS Hg), Eg. discriminate.
  - rewrite tick_next. intros j Hj. destruct (Fr j Hj) as [A [F [T R]]].
    rewrite accepted_app, filled_app, term_app, RV, TR, A, F, T, AC, FI.
    assert (B : find_id j (m_buys m) = None).
    { apply find_id_notin. intros C. apply (side_ids_lt _ _ _ _ _ _ SB) in C. lia. }
    assert (S : find_id j (m_sells m) = None).
    { apply find_id_notin. intros C. apply (side_ids_lt _ _ _ _ _ _ SS) in C. lia. }
    rewrite B, S. repeat split; auto.
Qed.

(* ---------------- fills ---------------- *)
Lemma dec_vol_effect i v (l g l' g' : list O) : NoDup (map (@oid Q) l) ->
  dec_vol i v l g = Ok (l', g') ->
  exists o, find_id i l = Some o /\ 0 <= vol o - v /\
            (forall j, bvol l' j = if j =? i then vol o - v else bvol l j) /\
            (forall x, In x g' -> In x g \/ vol x = 0).
Proof.
  intros N. unfold dec_vol. destruct (find_id i l) as [o|] eqn:F; [|discriminate].
  destruct (vol o - v =? 0) eqn:E0.
  - apply Z.eqb_eq in E0. intros H; inversion H; subst. exists o. split; auto. split; [lia|]. split.
    + intros j. unfold bvol. rewrite find_id_remove by exact N. destruct (j =? i); [lia|reflexivity].
    + intros x Hx. apply in_app_iff in Hx. destruct Hx as [Hx|[<-|[]]]; auto.
  - destruct (vol o - v <? 0) eqn:E1; [discriminate|]. apply Z.ltb_ge in E1. intros H; inversion H; subst. exists o.
    split; auto. split; [lia|]. split; auto.
    intros j. unfold bvol. rewrite find_id_set_vol, F. destruct (j =? i); reflexivity.
Qed.

Lemma acct_fill p m rs fl m' r : acct m rs -> apply_fill p m fl = Ok (m', r) -> acct m' (rs ++ [r]).
Proof.
  intros [L Eq Rs Gn Fr] H. pose proof (apply_fill_life _ _ _ _ _ L H) as L'.
  destruct (apply_fill_frame _ _ _ _ _ H) as [Hn _].
  destruct L as [[SB SS] [Cr _]]. pose proof (so_nodup _ _ _ _ _ SB) as NB. pose proof (so_nodup _ _ _ _ _ SS) as NS.
  revert H. unfold apply_fill. destruct fl as [v b s]. destruct (negb (m_running m)); [discriminate|].
  destruct (v <=? 0) eqn:Ev; [discriminate|]. apply Z.leb_gt in Ev.
  destruct (dec_vol (oid b) v (m_buys m) (m_gone m)) as [[bs g1]|] eqn:E1; [|discriminate]. simpl.
  destruct (dec_vol (oid s) v (m_sells m) g1) as [[ss g2]|] eqn:E2; [|discriminate]. simpl.
  intros H; inversion H; subst m' r; clear H.
  destruct (dec_vol_effect _ _ _ _ _ _ NB E1) as [ob [Fb [Pb [Vb Gb]]]].
  destruct (dec_vol_effect _ _ _ _ _ _ NS E2) as [os [Fs [Ps [Vs Gs]]]].
  set (bi := oid b) in *. set (si := oid s) in *.
  pose proof (find_id_some_in _ _ _ Fb) as [Ib Eb]. pose proof (find_id_some_in _ _ _ Fs) as [Is Es].
  assert (Ne : bi <> si) by (intros C; apply (Cr ob os Ib Is); congruence).
  assert (Sb : bvol (m_sells m) bi = 0).
  { apply bvol_notin. intros C. apply in_map_iff in C. destruct C as [y [Ey Hy]]. apply (Cr ob y Ib Hy). congruence. }
  assert (Bs : bvol (m_buys m) si = 0).
  { apply bvol_notin. intros C. apply in_map_iff in C. destruct C as [y [Ey Hy]]. apply (Cr y os Hy Is). congruence. }
  assert (Rb : rest_vol m bi = vol ob) by (unfold rest_vol; rewrite Sb; unfold bvol; rewrite Fb; lia).
  assert (Rss : rest_vol m si = vol os) by (unfold rest_vol; rewrite Bs; unfold bvol; rewrite Fs; lia).
  match goal with |- acct (update_market_price ?mm) _ => set (m1 := mm) end.
  assert (RV : forall j, rest_vol (update_market_price m1) j =
                         (if j =? bi then vol ob - v else bvol (m_buys m) j) + (if j =? si then vol os - v else bvol (m_sells m) j)).
  { intros j. unfold rest_vol. rewrite ump_buys, ump_sells. unfold m1. cbn. rewrite Vb, Vs. reflexivity. }
  assert (Pob : 0 < vol ob).
  { destruct SB as [_ E _]. rewrite Forall_forall in E. destruct (E _ Ib) as [_ [_ [Hp _]]]. exact Hp. }
  assert (Pos : 0 < vol os).
  { destruct SS as [_ E _]. rewrite Forall_forall in E. destruct (E _ Is) as [_ [_ [Hp _]]]. exact Hp. }
  assert (Lb : bi < m_next m) by (eapply side_ids_lt; [exact SB|]; rewrite <- Eb; apply in_map; exact Ib).
  assert (Ls : si < m_next m) by (eapply side_ids_lt; [exact SS|]; rewrite <- Es; apply in_map; exact Is).
  unfold O in *.
  constructor; auto.
  - intros j v0. rewrite accepted_app, filled_app. unfold tv. rewrite term_app, RV. simpl.
    destruct (accepted rs j) eqn:A; [|discriminate]. intros A'; injection A' as <-. specialize (Eq _ _ A). unfold tv in Eq.
    rewrite (Z.eqb_sym bi j), (Z.eqb_sym si j).
    assert (T' : match term rs j with Some v1 => Some v1 | None => None end = term rs j) by (destruct (term rs j); reflexivity).
    rewrite T'. clear T'.
    destruct (j =? bi) eqn:Jb; [apply Z.eqb_eq in Jb; subst j|apply Z.eqb_neq in Jb].
    + assert (E : bi =? si = false) by (apply Z.eqb_neq; exact Ne). rewrite E. simpl. rewrite Rb in Eq. rewrite Sb. lia.
    + destruct (j =? si) eqn:Js; [apply Z.eqb_eq in Js; subst j|].
      * simpl. rewrite Rss in Eq. rewrite Bs. lia.
      * simpl. unfold rest_vol in Eq. lia.
  - intros j. rewrite RV, accepted_app, term_app. simpl. intros R.
    assert (R' : rest_vol m j <> 0).
    { destruct (j =? bi) eqn:Jb; [apply Z.eqb_eq in Jb; subst j; rewrite Rb; lia|].
      destruct (j =? si) eqn:Js; [apply Z.eqb_eq in Js; subst j; rewrite Rss; lia|]. exact R. }
    destruct (Rs _ R') as [A T]. rewrite T. destruct (accepted rs j); [split; [discriminate|reflexivity]|tauto].
  - rewrite ump_gone. unfold m1. cbn. intros g Hg. rewrite term_app. simpl.
    destruct (term rs (oid g)) eqn:T; [discriminate|]. intros _.
    destruct (Gs _ Hg) as [Hg1|Z0]; [|exact Z0]. destruct (Gb _ Hg1) as [Hg0|Z0]; [|exact Z0]. apply Gn; auto.
  - rewrite ump_next. unfold m1. cbn. intros j Hj. destruct (Fr j Hj) as [A [F [T R]]].
    rewrite accepted_app, filled_app, term_app, RV, A, F, T. simpl.
    assert (E1' : bi =? j = false) by (apply Z.eqb_neq; lia). assert (E2' : si =? j = false) by (apply Z.eqb_neq; lia).
    assert (E3' : j =? bi = false) by (apply Z.eqb_neq; lia). assert (E4' : j =? si = false) by (apply Z.eqb_neq; lia).
    rewrite E1', E2', E3', E4'. simpl. repeat split; auto.
Qed.

Lemma acct_fills p fs : forall m rs m' logs, acct m rs -> apply_fills p m fs = Ok (m', logs) -> acct m' (rs ++ logs).
Proof.
  induction fs as [|f r IH]; simpl; intros m rs m' logs A H.
  - inversion H; subst. rewrite app_nil_r. exact A.
  - destruct (apply_fill p m f) as [[m1 x]|] eqn:E1; [|discriminate]. simpl in H.
    destruct (apply_fills p m1 r) as [[m2 xs]|] eqn:E2; [|discriminate]. simpl in H. inversion H; subst.
    pose proof (acct_fill _ _ _ _ _ _ A E1) as A1. specialize (IH _ _ _ _ A1 E2). rewrite <- app_assoc in IH. exact IH.
Qed.

Lemma acct_execution m rs m' logs : acct m rs -> execution m = Ok (m', logs) -> acct m' (rs ++ logs).
Proof.
  intros A. unfold execution. destruct (negb (executable m)).
  - intros H; inversion H; subst. rewrite app_nil_r. exact A.
  - destruct (run_walk m) as [[p|] fs]; [|discriminate].
    destruct (apply_fills p m fs) as [[m1 lg]|] eqn:E; [|discriminate]. simpl.
    destruct (executable m1); [discriminate|]. intros H; inversion H; subst. eapply acct_fills; eauto.
Qed.

(* ---------------- every operation, every history ---------------- *)
Theorem acct_step m rs o m' recs : acct m rs -> valid_op o -> step_rec m o = Ok (m', recs) -> acct m' (rs ++ recs).
Proof.
  intros A Hv. destruct o; cbn [step_rec]; try discriminate.
  - destruct (add_order m ag mk buy p v ttlv) as [[m1 r]|] eqn:E; [|discriminate]. simpl.
    intros H; inversion H; subst. destruct Hv as [Hv Hk]. eapply acct_add; eauto. intros k ->. exact Hk.
  - destruct (cancel_order m i) as [[m1 r]|] eqn:E; [|discriminate]. simpl.
    intros H; inversion H; subst. eapply acct_cancel; eauto.
  - intros H. eapply acct_execution; eauto.
  - pose proof (acct_tick m rs f A) as T. revert T. destruct (tick m f) as [m1 rs1]. cbn [fst snd].
    intros T H. inversion H; subst. exact T.
  - intros H; inversion H; subst. rewrite app_nil_r. destruct A as [L Eq Rs Gn Fr]. constructor; auto.
  - intros H; inversion H; subst. rewrite app_nil_r. exact A.
  - intros H; inversion H; subst. rewrite app_nil_r. exact A.
  - intros H; inversion H; subst. rewrite app_nil_r. exact A.
  - intros H; inversion H; subst. rewrite app_nil_r. exact A.
Qed.

Theorem acct_steps ops : forall m rs, acct m rs -> Forall valid_op ops -> acct (final_state m ops) (rs ++ trace m ops).
Proof.
  induction ops as [|o r IH]; simpl; intros m rs A Hv.
  - rewrite app_nil_r. exact A.
  - inversion Hv; subst. unfold step. destruct (step_rec m o) as [[m' recs]|] eqn:E; simpl; auto.
    rewrite app_assoc. apply IH; auto. eapply acct_step; eauto.
Qed.

(* NOTHING IS LOST.  From market setup, for every list of valid operations (orders with any price kind and time-to-live,
   cancels of resting / partly filled / already filled / already expired / unknown orders, matching rounds, clock steps,
   switching execution on and off, rejected operations included): for every accepted order, the accepted volume equals
   the sum of all its fills, plus what still rests in the book, plus the volume reported by its first terminal event;
   an order that still rests has had no terminal event. *)
Theorem nothing_lost id tk mp0 ops : Forall valid_op ops ->
  let m := final_state (init_market id tk mp0) ops in
  let rs := trace (init_market id tk mp0) ops in
  forall i v0, accepted rs i = Some v0 ->
    v0 = filled rs i + rest_vol m i + tv rs i /\ (rest_vol m i <> 0 -> term rs i = None) /\ 0 <= rest_vol m i.
Proof.
  intros Hv m rs i v0 A.
  pose proof (acct_steps ops _ [] (acct_init id tk mp0) Hv) as [L Eq Rs Gn Fr]. simpl in *. fold m rs in L, Eq, Rs.
  split; [apply Eq; exact A|]. split; [intros R; apply (Rs _ R)|].
  destruct L as [[SB SS] _]. unfold rest_vol, bvol.
  assert (G : forall side (l : list O), side_ok side (m_next m) (m_time m) (m_id m) l -> 0 <= match find_id i l with Some x => vol x | None => 0 end).
  { intros side l [_ E _]. destruct (find_id i l) as [x|] eqn:F; [|lia]. apply find_id_some_in in F. destruct F as [Hx _].
    rewrite Forall_forall in E. destruct (E _ Hx) as [_ [_ [Hp _]]]. unfold O in *. lia. }
  pose proof (G _ _ SB). pose proof (G _ _ SS). lia.
Qed.

(* after the first terminal event nothing more is ever filled and nothing rests: the fills of an order whose first
   terminal event reported volume tv sum to exactly accepted - tv, in every continuation *)
Corollary terminal_volume_is_final id tk mp0 ops : Forall valid_op ops ->
  let m := final_state (init_market id tk mp0) ops in
  let rs := trace (init_market id tk mp0) ops in
  forall i v0 t, accepted rs i = Some v0 -> term rs i = Some t -> rest_vol m i = 0 /\ filled rs i = v0 - t.
Proof.
  intros Hv m rs i v0 t A T. destruct (nothing_lost id tk mp0 ops Hv i v0 A) as [E [R _]]. fold m rs in E, R.
  assert (R0 : rest_vol m i = 0).
  { destruct (Z.eq_dec (rest_vol m i) 0) as [Z0|NZ]; auto. specialize (R NZ). congruence. }
  split; auto. unfold tv in E. rewrite T in E. lia.
Qed.

(* non-vacuity: partial fill then cancel; full fill then cancel (reported volume 0); expiry of a partly filled order *)
Example acct_example :
  let ops := [OTick (100#1); ORun true; OTick (100#1);
              OAdd 1 0 false (Some (100#1)) 5 (Some 1);      (* id 0: sell 5, ttl 1 *)
              OAdd 2 0 true (Some (100#1)) 2 None;           (* id 1: buy 2  -> fills id 0 by 2 *)
              OExec; OCancel 1;                              (* cancel of the fully filled order: reported volume 0 *)
              OAdd 2 0 true (Some (99#1)) 7 None;            (* id 2: buy 7, rests *)
              OTick (100#1); OTick (100#1);                  (* id 0 expires with 3 left *)
              OCancel 2; OCancel 0] in
  let m := final_state (init_market 0 (1#1) (100#1)) ops in
  let rs := trace (init_market 0 (1#1) (100#1)) ops in
  (accepted rs 0, filled rs 0, term rs 0, rest_vol m 0) = (Some 5, 2, Some 3, 0) /\
  (accepted rs 1, filled rs 1, term rs 1, rest_vol m 1) = (Some 2, 2, Some 0, 0) /\
  (accepted rs 2, filled rs 2, term rs 2, rest_vol m 2) = (Some 7, 0, Some 7, 0).
Proof. vm_compute. repeat split. Qed.
