(* Instance of the abstract matching theory at exact rationals (the price type of the model). *)
Require Import Pams.Prelude Pams.Match Pams.Market.
From Coq Require Import Sorted Lqa.
Open Scope Z_scope.

Lemma qltb_irrefl a : qltb a a = false.
Proof. apply qltb_ge. apply Qle_refl. Qed.
Lemma qltb_trans a b c : qltb a b = true -> qltb b c = true -> qltb a c = true.
Proof. rewrite !qltb_lt. apply Qlt_trans. Qed.
Lemma qeqb_spec a b : qeqb a b = true <-> (qltb a b = false /\ qltb b a = false).
Proof.
  rewrite qeqb_eq, !qltb_ge. split.
  - intros H. rewrite H. split; apply Qle_refl.
  - intros [H1 H2]. apply Qle_antisym; auto.
Qed.
Lemma qeqb_lt_l a b c : qeqb a b = true -> qltb b c = true -> qltb a c = true.
Proof. rewrite qeqb_eq, !qltb_lt. intros -> H. exact H. Qed.
Lemma qeqb_lt_r a b c : qeqb b c = true -> qltb a b = true -> qltb a c = true.
Proof. rewrite qeqb_eq, !qltb_lt. intros <- H. exact H. Qed.

Ltac qhyps := first [apply qltb_irrefl | apply qltb_trans | apply qeqb_spec | apply qeqb_lt_l | apply qeqb_lt_r].

Definition sortedq (l : list O) : Prop := StronglySorted (fun a b => oltq a b = true) l.
Definition bbookq := bbook Q qltb qeqb.
Definition sbookq := sbook Q qltb qeqb.
Definition withinq := within Q qltb.

Lemma oltq_irrefl a : oltq a a = false.
Proof. apply olt_irrefl; qhyps. Qed.
Lemma oltq_trans a b c : isbuy a = isbuy b -> isbuy b = isbuy c ->
  oltq a b = true -> oltq b c = true -> oltq a c = true.
Proof. apply olt_trans; qhyps. Qed.
Lemma oltq_asym a b : isbuy a = isbuy b -> oltq a b = true -> oltq b a = false.
Proof. apply olt_asym; qhyps. Qed.
Lemma oltq_total a b : oid a <> oid b -> isbuy a = isbuy b -> oltq a b = true \/ oltq b a = true.
Proof. apply olt_total; qhyps. Qed.

Lemma walkq_price_within_limits fuel bs ss :
  bbookq bs -> sbookq ss ->
  let r := walk Q qltb fuel None None bs ss None [] in
  match fst r with
  | Some p => Forall (withinq p) (snd r)
  | None => Forall (mm Q) (snd r)
  end.
Proof.
  apply walk_price_within_limits; qhyps.
Qed.

Lemma oltq_ranking a b :
  oltq a b = true <->
  match price a, price b with
  | None, Some _ => True
  | Some _, None => False
  | None, None => placed a < placed b \/ (placed a = placed b /\ oid a < oid b)
  | Some pa, Some pb =>
      (if isbuy a then qltb pb pa = true else qltb pa pb = true) \/
      (qeqb pa pb = true /\ (placed a < placed b \/ (placed a = placed b /\ oid a < oid b)))
  end.
Proof. apply olt_ranking; qhyps. Qed.

Lemma sorted_head_min x l y : sortedq (x :: l) -> In y l -> oltq x y = true.
Proof. intros H Hy. inversion H as [|? ? _ Hx]; subst. rewrite Forall_forall in Hx. auto. Qed.
