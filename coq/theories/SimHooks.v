(* C13 (run level, order phase): user-written event hooks (probe events) are invoked exactly once per matching occurrence.
   The stream of [before-order / before-cancel probe calls, acceptances, agent callbacks, after-order / after-cancel / after-fill
   probe calls] of a whole run is, record by record, what the records born in the markets call for, given the hook table fixed at
   setup:   accepted order  ->  its before-hooks (time = acceptance time), the acceptance, the owner's callback, its after-hooks;
            accepted cancel ->  the same with the cancel hooks;
            fill            ->  buyer's and seller's callbacks, then the after-execution hooks;
   each hook list being: the hooks of that kind and phase registered for every time, then those registered for this time, in
   registration order, each exactly once. *)
Require Import Pams.Prelude Pams.Tick Pams.Match Pams.Market Pams.MatchQ Pams.MarketInv Pams.MarketSeries Pams.MarketLife
               Pams.Sim Pams.SimLift Pams.SimInv Pams.SimClock Pams.SimMarks.
From RecordUpdate Require Import RecordSet.
Import RecordSetNotations.
Open Scope Z_scope.

(* ---------------- what is fixed at setup ---------------- *)
Definition kinds (s : sim) : list (Z * evkind) := map (fun e => (es_id e, es_kind e)) (s_events s).
Definition static (s : sim) : list hook * list (Z * evkind) := (s_hooks s, kinds s).

Fixpoint kind_of (i : Z) (l : list (Z * evkind)) : option evkind :=
  match l with [] => None | (k, v) :: r => if k =? i then Some v else kind_of i r end.
Definition isp (K : list (Z * evkind)) (h : hook) : bool :=
  match kind_of (h_ev h) K with Some (KProbe _) => true | _ => false end.

Lemma find_event_kind i l : kind_of i (map (fun e => (es_id e, es_kind e)) l) = option_map es_kind (find_event i l).
Proof. induction l as [|e r IH]; simpl; auto. destruct (es_id e =? i); auto. Qed.

Lemma is_probe_isp s h : is_probe s h = isp (kinds s) h.
Proof.
  unfold is_probe, isp, kinds. rewrite find_event_kind. destruct (find_event (h_ev h) (s_events s)) as [e|]; simpl; auto.
Qed.

Lemma upd_event_kinds i f l : (forall e, es_id (f e) = es_id e /\ es_kind (f e) = es_kind e) ->
  map (fun e => (es_id e, es_kind e)) (upd_event i f l) = map (fun e => (es_id e, es_kind e)) l.
Proof.
  intros Hf. unfold upd_event. rewrite map_map. apply map_ext. intros e. destruct (es_id e =? i); auto.
  destruct (Hf e) as [-> ->]. reflexivity.
Qed.

Definition hooksl (H : list hook) (k : hkind) (before : bool) (t : Z) : list hook :=
  filter (fun h => hook_matches k before h && match h_times h with None => true | Some _ => false end) H ++
  filter (fun h => hook_matches k before h && match h_times h with None => false | Some l => memz t l end) H.
Lemma hooks_for_hooksl s k b t : hooks_for s k b t = hooksl (s_hooks s) k b t.
Proof. reflexivity. Qed.

(* ---------------- the projected stream ---------------- *)
Inductive utok := UProbe (ev : Z) (k : hkind) (before : bool) | UAcc (r : record) | UCb (a kind : Z) (r : record).
Definition u_of (e : event) : list utok :=
  match e with
  | EvProbe ev k before _ _ _ => if order_phase k then [UProbe ev k before] else []
  | EvCallback a k r _ _ _ => [UCb a k r]
  | EvTruth r _ => match r with ROrder _ | Market.RCancel _ _ => [UAcc r] | _ => [] end
  | _ => []
  end.
Definition ustream (l : list event) : list utok := flat_map u_of l.
Local Arguments ustream : simpl never.
Lemma ustream_app a b : ustream (a ++ b) = ustream a ++ ustream b. Proof. apply flat_map_app. Qed.
Lemma ustream_one e : ustream [e] = u_of e. Proof. unfold ustream. simpl. apply app_nil_r. Qed.

Section Expected.
Variable H0 : list hook.
Variable K0 : list (Z * evkind).
Definition probes (k : hkind) (before : bool) (t : Z) : list utok :=
  map (fun h => UProbe (h_ev h) k before) (filter (isp K0) (hooksl H0 k before t)).
Definition expu (r : record) : list utok :=
  match r with
  | ROrder o => probes HOrder true (placed o) ++ [UAcc r; UCb (Match.agent o) 1 r] ++ probes HOrder false (placed o)
  | Market.RCancel o ct => probes HCancel true ct ++ [UAcc r; UCb (Match.agent o) 2 r] ++ probes HCancel false ct
  | RExec _ t ba sa _ _ _ _ => [UCb ba 3 r; UCb sa 3 r] ++ probes HExec false t
  | RExpire _ _ => []
  end.
Definition expectedu (rs : list record) : list utok := flat_map expu rs.
Lemma expectedu_app a b : expectedu (a ++ b) = expectedu a ++ expectedu b. Proof. apply flat_map_app. Qed.
End Expected.

(* ---------------- "going from s to s' adds X to the stream and T to the born records" ---------------- *)
Definition quiet_pending (s : sim) : Prop := ustream (s_pending s) = [] /\ truths (s_pending s) = [].
Definition adds (X : list utok) (T : list record) (s s' : sim) : Prop :=
  static s' = static s /\ (quiet_pending s -> quiet_pending s') /\ (ok s' = true -> ok s = true) /\
  (ok s' = true -> quiet_pending s ->
     ustream (events_of s') = ustream (events_of s) ++ X /\ truths (events_of s') = truths (events_of s) ++ T).

Lemma adds_refl s : adds [] [] s s.
Proof. split; [reflexivity|]. split; auto. split; auto. intros _ _. rewrite !app_nil_r. auto. Qed.

Lemma adds_trans X1 T1 X2 T2 a b c : adds X1 T1 a b -> adds X2 T2 b c -> adds (X1 ++ X2) (T1 ++ T2) a c.
Proof.
  intros [S1 [Q1 [O1 A1]]] [S2 [Q2 [O2 A2]]]. split; [congruence|]. split; [auto|]. split; [auto|].
  intros Oc Qa. destruct (A2 Oc (Q1 Qa)) as [U2 R2]. destruct (A1 (O2 Oc) Qa) as [U1 R1].
  rewrite U2, U1, R2, R1, !app_assoc. auto.
Qed.

Lemma adds_failed X T s s' : static s' = static s -> (quiet_pending s -> quiet_pending s') -> ok s' = false -> adds X T s s'.
Proof. intros S Q O. split; auto. split; auto. split; intros C; congruence. Qed.

Lemma static_fail s e : static (fail s e) = static s.
Proof. unfold static, kinds, fail. destruct (s_err s); reflexivity. Qed.

Lemma ok_of_fail' s e : ok (fail s e) = false.
Proof. unfold fail, ok. destruct (s_err s) eqn:E; cbn; rewrite ?E; reflexivity. Qed.

Lemma adds_fail X T s e : adds X T s (fail s e).
Proof.
  apply adds_failed; [apply static_fail| |apply ok_of_fail'].
  unfold quiet_pending. destruct (fail_fields s e) as [_ [-> _]]. auto.
Qed.

(* same trace, same pending, same static part, errors only grow *)
Lemma adds_same s s' : s_trace s' = s_trace s -> s_pending s' = s_pending s -> static s' = static s ->
  (ok s' = true -> ok s = true) -> adds [] [] s s'.
Proof.
  intros T Pd S O. split; auto. unfold quiet_pending, events_of. rewrite T, Pd. split; auto. split; auto.
  intros _ _. rewrite !app_nil_r. auto.
Qed.

Lemma adds_emit s e : adds (u_of e) (truth_of e) s (emit s e).
Proof.
  split; [reflexivity|]. split; [auto|]. split; [auto|]. intros _ _. unfold events_of, emit. cbn.
  rewrite ustream_app, truths_app, ustream_one, truths_one. auto.
Qed.

Lemma adds_log s r extra : adds (u_of (EvTruth r extra)) [r] s (log_event s r extra).
Proof.
  split; [reflexivity|]. split.
  - intros [Q1 Q2]. unfold quiet_pending, log_event, write, emit. cbn. rewrite ustream_app, truths_app, Q1, Q2, ustream_one, truths_one. auto.
  - split; [auto|]. intros _ _. unfold events_of, log_event, write, emit. cbn.
    rewrite ustream_app, truths_app, ustream_one, truths_one. auto.
Qed.

(* ---------------- the hook-firing functions add exactly their probe calls ---------------- *)
Definition probes_s (s : sim) (k : hkind) (before : bool) (l : list hook) : list utok :=
  map (fun h => UProbe (h_ev h) k before) (filter (isp (kinds s)) l).

Lemma static_kinds s s' : static s' = static s -> kinds s' = kinds s.
Proof. unfold static. intros H. inversion H. auto. Qed.

Lemma adds_static X T s s' : adds X T s s' -> static s' = static s.
Proof. intros [S _]. exact S. Qed.

Lemma fold_not_ok {A} (f : sim -> A -> sim) (l : list A) :
  (forall s x, ok s = false -> f s x = s) -> forall s, ok s = false -> fold_left f l s = s.
Proof. intros H. induction l as [|a r IH]; simpl; intros s O; auto. rewrite (H s a O). apply IH. exact O. Qed.

(* fire_simple: probes of the given kind, in dispatch order *)
Lemma fire_simple_adds_list k before mkid extra (l : list hook) : forall s,
  adds (if order_phase k then probes_s s k before l else []) [] s
       (fold_left (fun s h => if ok s && is_probe s h then emit s (ev_probe s (h_ev h) k before mkid extra) else s) l s).
Proof.
  induction l as [|h r IH]; intros s; cbn [fold_left].
  - unfold probes_s. simpl. destruct (order_phase k); apply adds_refl.
  - destruct (ok s) eqn:O; cbn [andb].
    2:{ rewrite fold_not_ok; [|intros s0 x O0; rewrite O0; reflexivity|exact O].
        apply adds_failed; auto. }
    rewrite is_probe_isp. unfold probes_s. cbn [filter]. destruct (isp (kinds s) h) eqn:Ih.
    + set (s1 := emit s (ev_probe s (h_ev h) k before mkid extra)).
      assert (A1 : adds (if order_phase k then [UProbe (h_ev h) k before] else []) [] s s1).
      { pose proof (adds_emit s (ev_probe s (h_ev h) k before mkid extra)) as G. cbn [ev_probe u_of truth_of] in G.
        destruct (order_phase k); exact G. }
      specialize (IH s1). assert (Ks : kinds s1 = kinds s) by reflexivity. unfold probes_s in IH. rewrite Ks in IH.
      pose proof (adds_trans _ _ _ _ _ _ _ A1 IH) as G. cbn [app] in G.
      destruct (order_phase k); cbn [map app] in *; exact G.
    + exact (IH s).
Qed.

Lemma fire_simple_adds s k before t mkid extra :
  adds (if order_phase k then probes_s s k before (hooks_for s k before t) else []) [] s (fire_simple s k before t mkid extra).
Proof. unfold fire_simple. apply fire_simple_adds_list. Qed.

(* kinds are never changed by the built-in events' own bookkeeping *)
Lemma static_halt_after s e mkid : static (halt_after_execution s e mkid) = static s.
Proof.
  unfold halt_after_execution. destruct (es_kind e); auto.
  destruct (find_mkt mkid (s_markets s)) as [x|]; [|apply static_fail].
  destruct (mprice_at x 0); [|apply static_fail]. destruct (mprice_at x (mtime x)); [|apply static_fail].
  destruct (negb _); auto. destruct (_ && _); auto.
  unfold static, kinds. cbn. f_equal. apply upd_event_kinds. intros e0. split; reflexivity.
Qed.

Lemma adds_halt_after s e mkid : adds [] [] s (halt_after_execution s e mkid).
Proof.
  destruct (halt_after_fields s e mkid) as [T [Pd _]].
  apply adds_same; auto; [apply static_halt_after|]. destruct (keeps_halt_after s e mkid) as [_ O]. exact O.
Qed.

(* fire_exec_after: the after-execution probes, whatever the trading-halt hooks in between do *)
Lemma fire_exec_after_adds_list mkid extra (l : list hook) : forall s,
  adds (probes_s s HExec false l) [] s
       (fold_left (fun s h =>
                     if negb (ok s) then s else
                     match find_event (h_ev h) (s_events s) with
                     | None => s
                     | Some e => match es_kind e with
                                 | KProbe _ => emit s (ev_probe s (h_ev h) HExec false mkid extra)
                                 | KHalt _ _ _ => halt_after_execution s e mkid
                                 | _ => s
                                 end
                     end) l s).
Proof.
  induction l as [|h r IH]; intros s; cbn [fold_left].
  - apply adds_refl.
  - destruct (ok s) eqn:O; cbn [negb].
    2:{ rewrite fold_not_ok; [|intros s0 x O0; rewrite O0; reflexivity|exact O]. apply adds_failed; auto. }
    unfold probes_s. cbn [filter]. unfold isp at 1. unfold kinds at 1. rewrite find_event_kind.
    destruct (find_event (h_ev h) (s_events s)) as [e|] eqn:Fe; cbn [option_map].
    2:{ exact (IH s). }
    destruct (es_kind e) eqn:Ek; try exact (IH s).
    + (* halt rule *)
      pose proof (adds_halt_after s e mkid) as A1. specialize (IH (halt_after_execution s e mkid)).
      unfold probes_s in IH. rewrite (static_kinds _ _ (static_halt_after s e mkid)) in IH.
      exact (adds_trans _ _ _ _ _ _ _ A1 IH).
    + (* probe *)
      set (s1 := emit s (ev_probe s (h_ev h) HExec false mkid extra)).
      pose proof (adds_emit s (ev_probe s (h_ev h) HExec false mkid extra)) as A1. cbn [ev_probe u_of truth_of order_phase] in A1.
      specialize (IH s1). assert (Ks : kinds s1 = kinds s) by reflexivity. unfold probes_s in IH. rewrite Ks in IH.
      exact (adds_trans _ _ _ _ _ _ _ A1 IH).
Qed.

Lemma fire_exec_after_adds s t mkid extra :
  adds (probes_s s HExec false (hooks_for s HExec false t)) [] s (fire_exec_after s t mkid extra).
Proof. unfold fire_exec_after. apply fire_exec_after_adds_list. Qed.

(* before-order hooks: probes are called, a mistake shock / price limit may rewrite the pending order, nothing else *)
Lemma static_before_order_effect s h r : static (fst (before_order_effect s h r)) = static s.
Proof.
  unfold before_order_effect. destruct r as [tag ag mk buy p v ttlv|]; [|reflexivity].
  destruct (find_event (h_ev h) (s_events s)) as [e|]; [|reflexivity].
  destruct (es_kind e); try reflexivity.
  - destruct (negb (mk =? target)); [reflexivity|]. destruct (es_spent e); [reflexivity|].
    destruct (find_mkt mk (s_markets s)) as [x|]; [|apply static_fail].
    destruct (mprice_at x (mtime x)); [|apply static_fail]. cbn [fst].
    unfold static, kinds. cbn. f_equal. apply upd_event_kinds. intros e0. split; reflexivity.
  - destruct (negb (memz mk targets)); [reflexivity|].
    destruct (find_mkt mk (s_markets s)) as [x|]; [|apply static_fail].
    destruct (mprice_at x 0); [|apply static_fail]. destruct p; reflexivity.
Qed.

Lemma before_order_effect_new s h tag ag mk buy p v ttlv :
  exists buy' p' v' ttlv', snd (before_order_effect s h (RNew tag ag mk buy p v ttlv)) = RNew tag ag mk buy' p' v' ttlv'.
Proof.
  unfold before_order_effect. destruct (find_event (h_ev h) (s_events s)) as [e|]; [|cbn; eauto 8].
  destruct (es_kind e); cbn; eauto 8.
  - destruct (negb (mk =? target)); cbn; eauto 8. destruct (es_spent e); cbn; eauto 8.
    destruct (find_mkt mk (s_markets s)) as [x|]; cbn; eauto 8. destruct (mprice_at x (mtime x)); cbn; eauto 8.
  - destruct (negb (memz mk targets)); cbn; eauto 8.
    destruct (find_mkt mk (s_markets s)) as [x|]; cbn; eauto 8.
    destruct (mprice_at x 0); cbn; eauto 8. destruct p; cbn; eauto 8.
Qed.

Lemma before_order_effect_adds s h tag ag mk buy p v ttlv :
  adds (if isp (kinds s) h then [UProbe (h_ev h) HOrder true] else []) [] s
       (fst (before_order_effect s h (RNew tag ag mk buy p v ttlv))).
Proof.
  unfold isp, kinds. rewrite find_event_kind. unfold before_order_effect.
  destruct (find_event (h_ev h) (s_events s)) as [e|] eqn:Fe; cbn [option_map fst]; [|apply adds_refl].
  destruct (es_kind e) eqn:Ek; cbn [fst]; try apply adds_refl.
  - destruct (negb (mk =? target)); [apply adds_refl|]. destruct (es_spent e); [apply adds_refl|].
    destruct (find_mkt mk (s_markets s)) as [x|]; [|apply adds_fail].
    destruct (mprice_at x (mtime x)); [|apply adds_fail]. cbn [fst].
    apply adds_same; auto. unfold static, kinds. cbn. f_equal. apply upd_event_kinds. intros e0. split; reflexivity.
  - destruct (negb (memz mk targets)); [apply adds_refl|].
    destruct (find_mkt mk (s_markets s)) as [x|]; [|apply adds_fail].
    destruct (mprice_at x 0); [|apply adds_fail]. destruct p; apply adds_refl.
  - pose proof (adds_emit s (ev_probe s (h_ev h) HOrder true mk [VZ ag; VB buy; voq p; VZ v; voz ttlv])) as G.
    cbn [ev_probe u_of truth_of order_phase] in G. exact G.
Qed.

Lemma fob_fold_not_ok (l : list hook) : forall acc : sim * request, ok (fst acc) = false ->
  fold_left (fun (acc : sim * request) h => if ok (fst acc) then before_order_effect (fst acc) h (snd acc) else acc) l acc = acc.
Proof. induction l as [|h r IH]; simpl; intros acc Oa; auto. rewrite Oa. apply IH. exact Oa. Qed.

Lemma fire_order_before_adds_list (l : list hook) : forall s tag ag mk buy p v ttlv,
  let res := fold_left (fun (acc : sim * request) h => if ok (fst acc) then before_order_effect (fst acc) h (snd acc) else acc)
                       l (s, RNew tag ag mk buy p v ttlv) in
  adds (probes_s s HOrder true l) [] s (fst res) /\
  exists buy' p' v' ttlv', snd res = RNew tag ag mk buy' p' v' ttlv'.
Proof.
  induction l as [|h r IH]; intros s tag ag mk buy p v ttlv; cbn [fold_left fst snd].
  - split; [apply adds_refl|eauto 8].
  - destruct (ok s) eqn:O.
    2:{ rewrite fob_fold_not_ok by exact O. cbn [fst snd]. split; [apply adds_failed; auto|eauto 8]. }
    pose proof (before_order_effect_adds s h tag ag mk buy p v ttlv) as A1.
    destruct (before_order_effect_new s h tag ag mk buy p v ttlv) as [b1 [p1 [v1 [t1 E1]]]].
    destruct (before_order_effect s h (RNew tag ag mk buy p v ttlv)) as [s1 r1] eqn:Eb. cbn [fst snd] in *. subst r1.
    destruct (IH s1 tag ag mk b1 p1 v1 t1) as [A2 R2]. cbv zeta in A2, R2.
    split; [|exact R2].
    pose proof (adds_trans _ _ _ _ _ _ _ A1 A2) as G.
    unfold probes_s in *. cbn [filter]. rewrite (static_kinds _ _ (adds_static _ _ _ _ A1)) in G.
    destruct (isp (kinds s) h); cbn [map app] in *; exact G.
Qed.

Lemma fire_order_before_adds s tag ag mk buy p v ttlv t :
  adds (probes_s s HOrder true (hooks_for s HOrder true t)) [] s (fst (fire_order_before s (RNew tag ag mk buy p v ttlv) t)) /\
  exists buy' p' v' ttlv', snd (fire_order_before s (RNew tag ag mk buy p v ttlv) t) = RNew tag ag mk buy' p' v' ttlv'.
Proof. unfold fire_order_before. apply fire_order_before_adds_list. Qed.

(* ---------------- one request ---------------- *)
(* [good s s']: what was added to the stream between s and s' is exactly what the records born in between call for *)
Definition good (s s' : sim) : Prop :=
  exists T, adds (expectedu (s_hooks s) (kinds s) T) T s s'.

Lemma good_refl s : good s s. Proof. exists []. apply adds_refl. Qed.

Lemma good_trans a b c : good a b -> good b c -> good a c.
Proof.
  intros [T1 A1] [T2 A2]. exists (T1 ++ T2). rewrite expectedu_app.
  pose proof (adds_static _ _ _ _ A1) as S. unfold static in S.
  pose proof (f_equal fst S) as Sh. pose proof (f_equal snd S) as Sk. cbn [fst snd] in Sh, Sk. rewrite Sh, Sk in A2.
  exact (adds_trans _ _ _ _ _ _ _ A1 A2).
Qed.

Lemma good_of_adds0 s s' : adds [] [] s s' -> good s s'.
Proof. intros A. exists []. exact A. Qed.

Lemma adds_guard X T s f : adds X T s (f s) -> adds X T s (guard s f).
Proof. intros A. unfold guard. destruct (ok s) eqn:O; auto. apply adds_failed; auto. Qed.

Lemma find_agent_id'' i l a : find_agent i l = Some a -> a_id a = i.
Proof.
  induction l as [|y r IH]; simpl; [discriminate|]. destruct (a_id y =? i) eqn:E; auto.
  intros H; inversion H; subst. apply Z.eqb_eq. exact E.
Qed.

Lemma callback_adds s aid kind r mkid : adds [UCb aid kind r] [] s (callback s aid kind r mkid).
Proof.
  unfold callback. destruct (find_agent aid (s_agents s)) as [a|] eqn:Fa; [|apply adds_fail].
  destruct (find_mkt mkid (s_markets s)); [|apply adds_fail]. rewrite (find_agent_id'' _ _ _ Fa).
  pose proof (adds_emit s (EvCallback aid kind r (holdings_ov a) (cur_switch s) (m_running (mk_m m)))) as G. exact G.
Qed.

Lemma adds_logs_fills rs : forall s, forallb is_fill rs = true -> adds [] rs s (fold_left (fun s r => log_event s r []) rs s).
Proof.
  induction rs as [|r rest IH]; simpl; intros s F; [apply adds_refl|].
  apply andb_true_iff in F. destruct F as [Fr Fm].
  pose proof (adds_log s r []) as A1. assert (U : u_of (EvTruth r []) = []) by (destruct r; try discriminate; reflexivity).
  rewrite U in A1. exact (adds_trans _ _ _ _ _ _ _ A1 (IH _ Fm)).
Qed.

Lemma adds_logs_expiries rs : forall s, forallb (fun r => negb (is_fill r)) rs = true ->
  (forall r, In r rs -> exists o t, r = RExpire o t) ->
  adds [] rs s (fold_left (fun s r => log_event s r []) rs s).
Proof.
  induction rs as [|r rest IH]; simpl; intros s F E; [apply adds_refl|].
  apply andb_true_iff in F. destruct F as [Fr Fm].
  pose proof (adds_log s r []) as A1. destruct (E r (or_introl eq_refl)) as [o [t ->]]. cbn [u_of] in A1.
  exact (adds_trans _ _ _ _ _ _ _ A1 (IH _ Fm (fun r0 H0 => E r0 (or_intror H0)))).
Qed.

Section WithStatic.
Variable H0 : list hook.
Variable K0 : list (Z * evkind).

Lemma probes_s_static s k before t : s_hooks s = H0 -> kinds s = K0 ->
  probes_s s k before (hooks_for s k before t) = probes H0 K0 k before t.
Proof. intros <- <-. reflexivity. Qed.

(* the notification of one fill *)
Lemma notify_fill_adds s mkid r : s_hooks s = H0 -> kinds s = K0 -> is_fill r = true ->
  adds (expu H0 K0 r) [] s (notify_fill s mkid r).
Proof.
  intros Hh Hk F. destruct r; try discriminate. cbn [expu]. unfold notify_fill.
  set (r := RExec mk time bagent sagent bid sid p v).
  pose proof (adds_guard _ _ s (fun s => callback s bagent 3 r mkid) (callback_adds s bagent 3 r mkid)) as A1.
  set (s1 := guard s _) in *.
  pose proof (adds_guard _ _ s1 (fun s => callback s sagent 3 r mkid) (callback_adds s1 sagent 3 r mkid)) as A2.
  set (s2 := guard s1 _) in *.
  pose proof (adds_guard _ _ s2 (fun s => fire_exec_after s time mkid [VZ bid; VZ sid]) (fire_exec_after_adds s2 time mkid [VZ bid; VZ sid])) as A3.
  pose proof (adds_static _ _ _ _ A1) as S1. pose proof (adds_static _ _ _ _ A2) as S2.
  assert (E2 : s_hooks s2 = H0 /\ kinds s2 = K0).
  { unfold static in S1, S2. inversion S1. inversion S2. split; congruence. }
  destruct E2 as [E2h E2k]. rewrite (probes_s_static s2 HExec false time E2h E2k) in A3.
  pose proof (adds_trans _ _ _ _ _ _ _ (adds_trans _ _ _ _ _ _ _ A1 A2) A3) as G. cbn [app] in G. exact G.
Qed.

Lemma notify_all_adds mkid : forall logs s, s_hooks s = H0 -> kinds s = K0 -> forallb is_fill logs = true ->
  adds (expectedu H0 K0 logs) [] s (fold_left (fun s r => notify_fill s mkid r) logs s).
Proof.
  induction logs as [|r rest IH]; cbn [fold_left forallb]; intros s Hh Hk F; [apply adds_refl|].
  apply andb_true_iff in F. destruct F as [Fr Fm].
  pose proof (notify_fill_adds s mkid r Hh Hk Fr) as A1.
  pose proof (adds_static _ _ _ _ A1) as S1. unfold static in S1.
  pose proof (f_equal fst S1) as S1h. pose proof (f_equal snd S1) as S1k. cbn [fst snd] in S1h, S1k.
  specialize (IH (notify_fill s mkid r) (eq_trans S1h Hh) (eq_trans S1k Hk) Fm).
  change (expectedu H0 K0 (r :: rest)) with (expu H0 K0 r ++ expectedu H0 K0 rest).
  exact (adds_trans _ _ _ _ _ _ _ A1 IH).
Qed.

(* a matching round *)
Lemma run_round_adds s mkid : s_hooks s = H0 -> kinds s = K0 -> exists T, adds (expectedu H0 K0 T) T s (run_round s mkid).
Proof.
  intros Hh Hk. unfold run_round. destruct (cur_switch s) eqn:Sw; simpl; [|exists []; apply adds_refl].
  destruct (find_mkt mkid (s_markets s)) as [x|] eqn:Fx; [|exists []; apply adds_fail].
  pose proof (adds_emit s (EvRound mkid (m_running (mk_m x)) (s_cur s))) as A0. cbn [u_of truth_of] in A0.
  set (s0 := emit s _) in *.
  destruct (execution (mk_m x)) as [[m' logs]|e] eqn:Ex.
  2:{ exists []. exact (adds_trans _ _ _ _ _ _ _ A0 (adds_fail [] [] s0 e)). }
  pose proof (execution_records _ _ _ Ex) as Fl.
  exists logs.
  assert (A1 : adds [] logs s0 (do_fills s0 mkid m' logs)).
  { unfold do_fills.
    assert (B1 : adds [] [] s0 (set_market s0 mkid m')) by (apply adds_same; auto).
    pose proof (adds_logs_fills logs (set_market s0 mkid m') Fl) as B2.
    pose proof (adds_trans _ _ _ _ _ _ _ B1 B2) as B3. cbn [app] in B3.
    set (sl := fold_left (fun s r => log_event s r []) logs (set_market s0 mkid m')) in *.
    assert (B4 : adds [] [] sl (sl <| s_agents := fold_left apply_fill_holdings logs (s_agents sl) |>)) by (apply adds_same; auto).
    pose proof (adds_trans _ _ _ _ _ _ _ B3 B4) as B5. cbn [app] in B5. rewrite app_nil_r in B5. exact B5. }
  assert (E1 : s_hooks (do_fills s0 mkid m' logs) = H0 /\ kinds (do_fills s0 mkid m' logs) = K0).
  { pose proof (adds_static _ _ _ _ A1) as S1. unfold static in S1.
    pose proof (f_equal fst S1) as S1h. pose proof (f_equal snd S1) as S1k. cbn [fst snd] in S1h, S1k.
    split; [rewrite S1h; exact Hh|rewrite S1k; exact Hk]. }
  destruct E1 as [E1h E1k].
  pose proof (notify_all_adds mkid logs _ E1h E1k Fl) as A2.
  pose proof (adds_trans _ _ _ _ _ _ _ (adds_trans _ _ _ _ _ _ _ A0 A1) A2) as G. cbn [app] in G. rewrite app_nil_r in G. exact G.
Qed.
End WithStatic.

(* ---------------- times seen by the hooks of one request ---------------- *)
Lemma find_mkt_In' i l x : find_mkt i l = Some x -> In x l.
Proof.
  induction l as [|y r IH]; simpl; [discriminate|]. destruct (m_id (mk_m y) =? i); [intros H; inversion H; auto|auto].
Qed.

Lemma find_mkt_key i l x : find_mkt i l = Some x -> In (i, mtime x) (map key l).
Proof.
  intros F. pose proof (find_mkt_id _ _ _ F) as E. apply find_mkt_In' in F. apply in_map_iff. exists x. split; auto.
  unfold key, mkid. rewrite E. reflexivity.
Qed.

Lemma keeps_find_time s s' i x x' : NoDup (map fst (keys s)) -> keeps s s' ->
  find_mkt i (s_markets s) = Some x -> find_mkt i (s_markets s') = Some x' -> mtime x' = mtime x.
Proof.
  intros N [K _] F F'. apply find_mkt_key in F, F'. fold (keys s) in F. fold (keys s') in F'. rewrite K in F'.
  clear - N F F'. induction (keys s) as [|[j t] r IH]; simpl in *; [tauto|]. inversion N as [|? ? Hn Nr]; subst.
  destruct F as [E|F], F' as [E'|F'].
  - congruence.
  - inversion E; subst. exfalso. apply Hn. apply in_map_iff. exists (i, mtime x'). auto.
  - inversion E'; subst. exfalso. apply Hn. apply in_map_iff. exists (i, mtime x). auto.
  - auto.
Qed.

Lemma keeps_fire_order_before s r t : keeps s (fst (fire_order_before s r t)).
Proof. apply (fire_order_before_pres (keeps s) (fail_any _ (F_fail s)) (F_emit s) (F_spent s)). apply keeps_refl. Qed.


Lemma adds_weaken_failed X T X' T' s s' : adds X T s s' -> ok s' = false -> adds X' T' s s'.
Proof. intros [S [Q _]] O. apply adds_failed; auto. Qed.

Lemma adds_then_fail X T s s' e X' T' : adds X T s s' -> adds X' T' s (fail s' e).
Proof.
  intros A. pose proof (adds_trans _ _ _ _ _ _ _ A (adds_fail [] [] s' e)) as G.
  eapply adds_weaken_failed; [exact G|apply ok_of_fail'].
Qed.

Lemma static_split s s' : static s' = static s -> s_hooks s' = s_hooks s /\ kinds s' = kinds s.
Proof. unfold static. intros H. split; [exact (f_equal fst H)|exact (f_equal snd H)]. Qed.

(* ONE REQUEST (market ids distinct): the stream grows by exactly what the records born while handling it call for *)
Theorem handle_request_good s r : NoDup (map fst (keys s)) -> good s (handle_request s r).
Proof.
  intros N. unfold good. set (H0 := s_hooks s). set (K0 := kinds s).
  unfold handle_request. destruct (ok s) eqn:O; simpl; [|exists []; apply adds_refl].
  destruct (find_mkt (req_market r) (s_markets s)) as [x|] eqn:Fx; [|exists []; apply adds_fail].
  destruct r as [tag ag mk buy p v ttlv|tag ag mk].
  - (* ---- a new order ---- *)
    cbn [req_market] in *.
    destruct (fire_order_before_adds s tag ag mk buy p v ttlv (mtime x)) as [A1 [b1 [p1 [v1 [t1 R1]]]]].
    pose proof (keeps_fire_order_before s (RNew tag ag mk buy p v ttlv) (mtime x)) as K1.
    destruct (fire_order_before s (RNew tag ag mk buy p v ttlv) (mtime x)) as [s1 r'] eqn:Ef. cbn [fst snd] in *. subst r'.
    destruct (static_split _ _ (adds_static _ _ _ _ A1)) as [S1h S1k].
    destruct (ok s1) eqn:O1; simpl; [|exists []; eapply adds_weaken_failed; eauto].
    destruct (find_mkt mk (s_markets s1)) as [x1|] eqn:Fx1; [|exists []; eapply adds_then_fail; eauto].
    destruct (assoc tag (s_tags s1)); [exists []; eapply adds_then_fail; eauto|].
    destruct (add_order (mk_m x1) ag mk b1 p1 v1 t1) as [[m' rc]|e] eqn:Ea; [|exists []; eapply adds_then_fail; eauto].
    destruct (add_order_next _ _ _ _ _ _ _ _ _ Ea) as [_ [Tm [o [Er [_ [_ [Po [_ [Eag _]]]]]]]]]. subst rc.
    pose proof (keeps_find_time s s1 mk x x1 N K1 Fx Fx1) as Tx. unfold mtime in Tx.
    (* acceptance *)
    assert (A2 : adds [UAcc (ROrder o)] [ROrder o] s1 (do_accept_order s1 mk x1 m' (ROrder o) tag)).
    { unfold do_accept_order.
      match goal with |- adds _ _ _ (log_event ?s0 ?r0 ?ex) =>
        assert (B1 : adds [] [] s1 s0) by (apply adds_same; auto); pose proof (adds_log s0 r0 ex) as B2 end.
      cbn [u_of] in B2. exact (adds_trans _ _ _ _ _ _ _ B1 B2). }
    set (s2 := do_accept_order s1 mk x1 m' (ROrder o) tag) in *.
    pose proof (callback_adds s2 ag 1 (ROrder o) mk) as A3. set (s3 := callback s2 ag 1 (ROrder o) mk) in *.
    pose proof (adds_guard _ _ s3 (fun s => fire_simple s HOrder false (m_time m') mk [VZ (Match.oid o)])
                  (fire_simple_adds s3 HOrder false (m_time m') mk [VZ (Match.oid o)])) as A4. cbn [order_phase] in A4.
    set (s4 := guard s3 _) in *.
    pose proof (adds_trans _ _ _ _ _ _ _ (adds_trans _ _ _ _ _ _ _ (adds_trans _ _ _ _ _ _ _ A1 A2) A3) A4) as A14.
    destruct (static_split _ _ (adds_static _ _ _ _ A14)) as [S4h S4k].
    destruct (static_split _ _ (adds_static _ _ _ _ (adds_trans _ _ _ _ _ _ _ (adds_trans _ _ _ _ _ _ _ A1 A2) A3))) as [S3h S3k].
    assert (A5 : exists T, adds (expectedu H0 K0 T) T s4 (guard s4 (fun s => run_round s mk))).
    { destruct (run_round_adds H0 K0 s4 mk S4h S4k) as [T AT]. exists T. apply adds_guard. exact AT. }
    destruct A5 as [T A5]. exists (ROrder o :: T).
    pose proof (adds_trans _ _ _ _ _ _ _ A14 A5) as G.
    change (expectedu H0 K0 (ROrder o :: T)) with (expu H0 K0 (ROrder o) ++ expectedu H0 K0 T). cbn [expu].
    rewrite (probes_s_static H0 K0 s HOrder true (mtime x) eq_refl eq_refl) in G.
    rewrite (probes_s_static H0 K0 s3 HOrder false (m_time m') S3h S3k) in G.
    assert (Et1 : mtime x = placed o) by (unfold mtime; rewrite Po; symmetry; exact Tx).
    assert (Et2 : m_time m' = placed o) by (rewrite Tm, Po; reflexivity).
    rewrite Et1, Et2 in G. rewrite Eag. cbn [app] in G. rewrite <- !app_assoc in G. cbn [app] in G.
    rewrite <- !app_assoc. cbn [app]. exact G.
  - (* ---- a cancel ---- *)
    cbn [req_market] in *.
    set (oidv := match assoc tag (s_tags s) with Some (_, i) => Some i | None => None end).
    pose proof (fire_simple_adds s HCancel true (mtime x) mk [voz oidv]) as A1. cbn [order_phase] in A1.
    pose proof (keeps_fire_simple s HCancel true (mtime x) mk [voz oidv]) as K1.
    set (s1 := fire_simple s HCancel true (mtime x) mk [voz oidv]) in *.
    destruct (static_split _ _ (adds_static _ _ _ _ A1)) as [S1h S1k].
    destruct (ok s1) eqn:O1; simpl; [|exists []; eapply adds_weaken_failed; eauto].
    unfold oidv. destruct (assoc tag (s_tags s)) as [[mm i]|]; [|exists []; eapply adds_then_fail; eauto].
    destruct (find_mkt mk (s_markets s1)) as [x1|] eqn:Fx1; [|exists []; eapply adds_then_fail; eauto].
    destruct (cancel_order (mk_m x1) i) as [[m' rc]|e] eqn:Ec; [|exists []; eapply adds_then_fail; eauto].
    pose proof (cancel_order_time _ _ _ _ Ec) as Tm.
    assert (Er : exists o, rc = Market.RCancel o (m_time (mk_m x1))).
    { revert Ec. unfold cancel_order. destruct (m_time (mk_m x1) <? 0); [discriminate|].
      destruct (find_id i (m_buys (mk_m x1))); [|destruct (find_id i (m_sells (mk_m x1))); [|destruct (find_id i (m_gone (mk_m x1))); [|discriminate]]];
        intros H; inversion H; subst; eauto. }
    destruct Er as [o ->]. cbn [rec_owner].
    pose proof (keeps_find_time s s1 mk x x1 N K1 Fx Fx1) as Tx. unfold mtime in Tx.
    assert (A2 : adds [UAcc (Market.RCancel o (m_time (mk_m x1)))] [Market.RCancel o (m_time (mk_m x1))] s1
                      (do_accept_cancel s1 mk m' (Market.RCancel o (m_time (mk_m x1))))).
    { unfold do_accept_cancel.
      match goal with |- adds _ _ _ (log_event ?s0 ?r0 ?ex) =>
        assert (B1 : adds [] [] s1 s0) by (apply adds_same; auto); pose proof (adds_log s0 r0 ex) as B2 end.
      cbn [u_of] in B2. exact (adds_trans _ _ _ _ _ _ _ B1 B2). }
    set (rc := Market.RCancel o (m_time (mk_m x1))) in *.
    set (s2 := do_accept_cancel s1 mk m' rc) in *.
    pose proof (callback_adds s2 (Match.agent o) 2 rc mk) as A3. set (s3 := callback s2 (Match.agent o) 2 rc mk) in *.
    pose proof (adds_guard _ _ s3 (fun s => fire_simple s HCancel false (m_time m') mk [VZ i])
                  (fire_simple_adds s3 HCancel false (m_time m') mk [VZ i])) as A4. cbn [order_phase] in A4.
    set (s4 := guard s3 _) in *.
    pose proof (adds_trans _ _ _ _ _ _ _ (adds_trans _ _ _ _ _ _ _ (adds_trans _ _ _ _ _ _ _ A1 A2) A3) A4) as A14.
    destruct (static_split _ _ (adds_static _ _ _ _ A14)) as [S4h S4k].
    destruct (static_split _ _ (adds_static _ _ _ _ (adds_trans _ _ _ _ _ _ _ (adds_trans _ _ _ _ _ _ _ A1 A2) A3))) as [S3h S3k].
    destruct (run_round_adds H0 K0 s4 mk S4h S4k) as [T AT].
    pose proof (adds_guard _ _ s4 (fun s => run_round s mk) AT) as A5.
    exists (rc :: T).
    pose proof (adds_trans _ _ _ _ _ _ _ A14 A5) as G.
    change (expectedu H0 K0 (rc :: T)) with (expu H0 K0 rc ++ expectedu H0 K0 T). unfold rc at 1. cbn [expu]. fold rc.
    rewrite (probes_s_static H0 K0 s HCancel true (mtime x) eq_refl eq_refl) in G.
    rewrite (probes_s_static H0 K0 s3 HCancel false (m_time m') S3h S3k) in G.
    assert (Et1 : mtime x = m_time (mk_m x1)) by (unfold mtime; symmetry; exact Tx).
    rewrite Et1, Tm in G. cbn [app] in G. rewrite <- !app_assoc in G. cbn [app] in G.
    rewrite <- !app_assoc. cbn [app]. exact G.
Qed.

(* ---------------- the whole run ---------------- *)
Lemma keeps_handle_request s r : keeps s (handle_request s r).
Proof.
  apply (handle_request_pres (keeps s) (fail_any _ (F_fail s)) (fail_exec_any _ (F_fail s)) (F_emit s) (F_callback s) (F_accept_order s) (F_accept_cancel s) (F_round s)
           (F_fills s) (F_spent s) (F_halt_after s)).
  apply keeps_refl.
Qed.

Lemma expectedu_expiries H K rs : (forall r, In r rs -> exists o t, r = RExpire o t) -> expectedu H K rs = [].
Proof.
  induction rs as [|r rest IH]; intros E; [reflexivity|].
  change (expectedu H K (r :: rest)) with (expu H K r ++ expectedu H K rest).
  destruct (E r (or_introl eq_refl)) as [o [t ->]]. cbn [expu app]. apply IH. intros r0 H0. apply E. right. exact H0.
Qed.

Lemma static_halt_before s e x : static (halt_before_step s e x) = static s.
Proof.
  unfold halt_before_step. destruct (es_kind e); auto. destruct (_ && _); auto.
  destruct (es_halted e) as [[hm hs]|]; auto. destruct (negb _); auto.
  destruct (hs =? s_cur s); unfold static, kinds; cbn; f_equal; apply upd_event_kinds; intros e0; split; reflexivity.
Qed.

Lemma static_shock s e x : static (shock_before_step s e x) = static s.
Proof.
  unfold shock_before_step. destruct (es_kind e); auto. destruct (negb _); [apply static_fail|].
  destruct (negb _); [apply static_fail|]. destruct (geto _ _); [reflexivity|apply static_fail].
Qed.

Section Run.
Variable s0 : sim.
Let P (s : sim) : Prop := NoDup (mids s) /\ good s0 s.

Lemma P_step s s' : keeps s s' -> good s s' -> P s -> P s'.
Proof. intros K G [N G0]. split; [rewrite (keeps_mids _ _ K); exact N|eapply good_trans; eauto]. Qed.

Lemma G_fail : forall s e, P s -> P (fail s e).
Proof. intros s e. apply P_step; [apply keeps_fail|apply good_of_adds0, adds_fail]. Qed.
Lemma G_probe_u : forall s ev k before mkid extra, order_phase k = false -> P s -> P (emit s (ev_probe s ev k before mkid extra)).
Proof.
  intros s ev k before mkid extra Hk. apply P_step; [apply keeps_same; reflexivity|].
  apply good_of_adds0. pose proof (adds_emit s (ev_probe s ev k before mkid extra)) as G. cbn [ev_probe u_of truth_of] in G. rewrite Hk in G. exact G.
Qed.
Lemma G_step : forall s kind mkid x, find_mkt mkid (s_markets s) = Some x -> P s -> P (emit s (ev_step s kind x)).
Proof. intros s kind mkid x _. apply P_step; [apply keeps_same; reflexivity|]. apply good_of_adds0. exact (adds_emit s (ev_step s kind x)). Qed.
Lemma G_boundary : forall s e, boundary_event e -> P s -> P (flush (write s e)).
Proof.
  intros s e He. apply P_step; [apply keeps_same; reflexivity|]. apply good_of_adds0.
  assert (Ue : u_of e = [] /\ truth_of e = []) by (destruct e; simpl in He; try contradiction; auto). destruct Ue as [Ue Te].
  split; [reflexivity|]. split; [intros _; split; reflexivity|]. split; [auto|].
  intros _ [Q1 Q2]. unfold events_of, flush, write. cbn.
  rewrite rev_app_distr, !rev_involutive, !ustream_app, !truths_app, Q1, Q2, ustream_one, truths_one, Ue, Te, !app_nil_r. auto.
Qed.
Lemma G_tick_all : forall s, P s -> P (tick_all s).
Proof.
  intros s [N G0]. split; [rewrite tick_all_mids; auto|].
  revert G0. generalize s. apply (tick_all_pres (good s0)).
  - intros s1 e G1. eapply good_trans; [exact G1|apply good_of_adds0, adds_fail].
  - intros s1 x f m' recs _ Et G1. eapply good_trans; [exact G1|]. exists recs.
    assert (Er : forall r, In r recs -> exists o t, r = RExpire o t).
    { pose proof (tick_records (mk_m x) f) as R. rewrite Et in R. cbn [snd] in R. rewrite R. intros r Hr.
      apply in_map_iff in Hr. destruct Hr as [o [<- _]]. eauto. }
    rewrite (expectedu_expiries _ _ _ Er). unfold do_tick.
    assert (B1 : adds [] [] s1 (set_market s1 (m_id (mk_m x)) m')) by (apply adds_same; auto).
    pose proof (adds_logs_expiries recs (set_market s1 (m_id (mk_m x)) m') (tick_records_kind _ _ _ _ Et) Er) as B2.
    exact (adds_trans _ _ _ _ _ _ _ B1 B2).
Qed.
Lemma G_pop_perm : forall s, P s -> P (fst (pop_perm s)).
Proof.
  intros s. apply P_step; [apply keeps_pop_perm|]. apply good_of_adds0.
  unfold pop_perm. destruct (s_tape s) as [|[l|q] r]; simpl; try apply adds_fail. apply adds_same; auto.
Qed.
Lemma G_pop_draw : forall s, P s -> P (fst (pop_draw s)).
Proof.
  intros s. apply P_step; [apply keeps_pop_draw|]. apply good_of_adds0.
  unfold pop_draw. destruct (s_tape s) as [|[l|q] r]; simpl; try apply adds_fail. apply adds_same; auto.
Qed.
Lemma G_consult : forall s aid, P s -> P (fst (consult s aid)).
Proof.
  intros s aid. apply P_step; [apply keeps_consult|]. apply good_of_adds0.
  unfold consult. destruct (s_batches s) as [|[a b] r]; simpl; [apply adds_fail|].
  destruct (a =? aid); simpl; [|apply adds_fail].
  assert (B1 : adds [] [] s (s <| s_batches := r |>)) by (apply adds_same; auto).
  pose proof (adds_emit (s <| s_batches := r |>) (EvConsult aid (Z.of_nat (length b)))) as B2. cbn [u_of truth_of] in B2.
  exact (adds_trans _ _ _ _ _ _ _ B1 B2).
Qed.
Lemma G_halt_before : forall s e x, In e (s_events s) -> find_mkt (m_id (mk_m x)) (s_markets s) = Some x -> P s -> P (halt_before_step s e x).
Proof.
  intros s e x _ Fx. pose proof (keeps_halt_before s e x Fx) as K. apply P_step; [exact K|]. apply good_of_adds0.
  destruct (halt_before_fields s e x) as [T [Pd _]]. apply adds_same; auto; [apply static_halt_before|apply K].
Qed.
Lemma G_shock : forall s e x, find_mkt (m_id (mk_m x)) (s_markets s) = Some x -> P s -> P (shock_before_step s e x).
Proof.
  intros s e x Fx. pose proof (keeps_shock s e x Fx) as K. apply P_step; [exact K|]. apply good_of_adds0.
  destruct (shock_fields s e x) as [T [Pd _]]. apply adds_same; auto; [apply static_shock|apply K].
Qed.
Lemma G_set_cur : forall s sid, P s -> P (s <| s_cur := sid |>).
Proof. intros s sid. apply P_step; [apply keeps_same; reflexivity|]. apply good_of_adds0, adds_same; auto. Qed.
Lemma G_begin_iteration : forall s, P s -> P (begin_iteration s).
Proof. intros s. apply P_step; [apply keeps_begin_iteration|]. apply good_of_adds0, adds_same; auto. Qed.
Lemma G_request : forall s r, P s -> P (handle_request s r).
Proof.
  intros s r H. pose proof H as [N _]. revert H. apply P_step; [apply keeps_handle_request|].
  apply handle_request_good. rewrite <- mids_keys. exact N.
Qed.
End Run.

(* EXACTLY ONCE PER MATCHING OCCURRENCE (order phase).  For every configuration with distinct market ids, every hook table, every
   tape of runner decisions, every agent behaviour and every fundamental path: in a run that ends without exception the stream of
   hook calls of user-written events around orders, cancels and fills, interleaved with the acceptances and the agent callbacks,
   is exactly what the records born in the markets call for. *)
Theorem hooks_fire_exactly_at_their_occurrences c tape batches funds : NoDup (map mc_id (c_markets c)) ->
  let s0 := init_sim c tape batches funds in
  let s := run c tape batches funds in
  ok s = true -> ustream (events_of s) = expectedu (s_hooks s0) (kinds s0) (truths (events_of s)).
Proof.
  intros N s0 s O.
  assert (I0 : mids s0 = map mc_id (c_markets c)) by (unfold s0, mids, init_sim; cbn; rewrite map_map; reflexivity).
  assert (H : NoDup (mids s) /\ good s0 s).
  { apply (run_upk (fun s => NoDup (mids s) /\ good s0 s) (fail_any _ (G_fail s0)) (G_probe_u s0) (G_step s0) (G_boundary s0) (G_tick_all s0)
             (G_pop_perm s0) (G_pop_draw s0) (G_consult s0) (G_halt_before s0) (G_shock s0) (G_set_cur s0) (G_begin_iteration s0)
             (G_request s0)).
    split; [change (NoDup (mids s0)); rewrite I0; exact N|apply good_refl]. }
  destruct H as [_ [T [_ [_ [_ A]]]]].
  assert (Q0 : quiet_pending s0) by (split; reflexivity).
  destruct (A O Q0) as [U R].
  assert (E0 : events_of s0 = []) by reflexivity. rewrite E0 in U, R. cbn [app] in U, R.
  change (ustream []) with (@nil utok) in U. change (truths []) with (@nil record) in R. cbn [app] in U, R.
  rewrite U, R. reflexivity.
Qed.

(* non-vacuity: one probe event with six hooks (order before: always; order after: at time 0; cancel before: at time 1;
   after execution: always, and at time 7; market step before: always).  Two orders at time 0 that trade, a cancel at time 1. *)
Example hooks_example :
  let c := mkCfg [mkMC 0 (1#1) (100#1) None 1] [mkAC 0 false (1000#1) [(0, 10)]; mkAC 1 false (1000#1) [(0, 10)]]
                 [mkSC 0 2 true true 2 1 (0#1)]
                 [mkEC 5 0 true (KProbe [mkHS HOrder true None None false; mkHS HOrder false (Some [0]) None false;
                                         mkHS HCancel true (Some [1]) None false; mkHS HExec false None None false;
                                         mkHS HExec false (Some [7]) None false; mkHS HMarket true None None false])] in
  let tape := [TPerm [0; 1]; TPerm [0; 1]; TDraw (1#2); TDraw (1#2); TPerm [0; 1]; TPerm [0]; TDraw (1#2)]%nat in
  let batches := [(0, [RNew 1 0 0 false (Some (100#1)) 5 None]); (1, [RNew 2 1 0 true (Some (100#1)) 2 None]);
                  (0, [Sim.RCancel 1 0 0]); (1, [])] in
  let funds := [(0, 0, 100#1); (0, 1, 100#1); (0, 2, 100#1)] in
  let s := run c tape batches funds in
  ok s = true /\
  map (fun u => match u with UProbe ev k b => (ev, hkind_code k, b) | UAcc _ => (-1, 0, false) | UCb a k _ => (-2, a * 10 + k, false) end)
      (ustream (events_of s)) =
  [(5, 1, true); (-1, 0, false); (-2, 1, false); (5, 1, false);          (* order of agent 0: before, accepted, told, after *)
   (5, 1, true); (-1, 0, false); (-2, 11, false); (5, 1, false);         (* order of agent 1 *)
   (-2, 13, false); (-2, 3, false); (5, 3, false);                       (* the fill: buyer 1, seller 0, after-execution hook (once) *)
   (5, 2, true); (-1, 0, false); (-2, 2, false)].                        (* the cancel at time 1 *)
Proof. vm_compute. split; reflexivity. Qed.
