(* Lifting an invariant over a whole run of the Level-S model.
   If a predicate on simulation states is preserved by each ATOMIC update of the model (an event is
   emitted, an order / cancel is accepted, a round's fills are applied, the clock ticks, a built-in event
   acts, a tape item is consumed, the run fails), then it is preserved by every function of the runner and
   hence holds at the end of [run] for every configuration, every tape of runner decisions, every agent
   behaviour and every delivered fundamental path. *)
Require Import Pams.Prelude Pams.Tick Pams.Match Pams.Market Pams.Sim.
From RecordUpdate Require Import RecordSet.
Import RecordSetNotations.
Open Scope Z_scope.

(* events that are neither a logger delivery, nor a ground-truth record, nor an agent callback, nor a market-step record *)
Definition obs_event (e : event) : Prop :=
  match e with
  | EvConsult _ _ | EvProbe _ _ _ _ _ _ => True
  | _ => False
  end.
(* ... callbacks included: the events that carry no record to the logger and no ground truth *)
Definition quiet_event (e : event) : Prop :=
  match e with
  | EvConsult _ _ | EvProbe _ _ _ _ _ _ | EvStep _ _ | EvCallback _ _ _ _ _ _ => True
  | _ => False
  end.
Lemma obs_quiet e : obs_event e -> quiet_event e.
Proof. destruct e; simpl; auto. Qed.
Definition boundary_event (e : event) : Prop :=
  match e with EvSimBegin | EvSimEnd | EvSessBegin _ _ | EvSessEnd _ _ => True | _ => False end.

Lemma fold_left_pres {A} (P : sim -> Prop) (f : sim -> A -> sim) (l : list A) :
  (forall s x, P s -> P (f s x)) -> forall s, P s -> P (fold_left f l s).
Proof. intros H. induction l as [|a r IH]; simpl; auto. Qed.

(* inside a round on market mkid: either the session's execution switch is still on, or the market has been
   stopped (only a trading halt switches execution off during a round, and it stops the market it acts on) *)
Definition round_ctx (mkid : Z) (s : sim) : Prop :=
  cur_switch s = true \/ (forall x, find_mkt mkid (s_markets s) = Some x -> m_running (mk_m x) = false).

Lemma find_event_In i l e : find_event i l = Some e -> In e l.
Proof.
  induction l as [|y r IH]; simpl; [discriminate|]. destruct (es_id y =? i).
  - intros H; injection H as ->. auto.
  - auto.
Qed.

Lemma find_mkt_id i l x : find_mkt i l = Some x -> m_id (mk_m x) = i.
Proof.
  induction l as [|y r IH]; simpl; [discriminate|]. destruct (m_id (mk_m y) =? i) eqn:E; auto.
  intros H; inversion H; subst. apply Z.eqb_eq in E. auto.
Qed.

Lemma find_mkt_upd_same i f l x : find_mkt i l = Some x -> m_id (mk_m (f x)) = i -> find_mkt i (upd_mkt i f l) = Some (f x).
Proof.
  induction l as [|y r IH]; simpl; [discriminate|]. destruct (m_id (mk_m y) =? i) eqn:E.
  - intros H Hi. injection H as ->. simpl. rewrite Hi, Z.eqb_refl. reflexivity.
  - intros H Hi. simpl. rewrite E. auto.
Qed.

Lemma log_events_fields (rs : list record) : forall s,
  s_sessions (fold_left (fun s r => log_event s r []) rs s) = s_sessions s /\
  s_cur (fold_left (fun s r => log_event s r []) rs s) = s_cur s.
Proof. induction rs as [|r rest IH]; simpl; intros s; auto. destruct (IH (log_event s r [])) as [A B]. rewrite A, B. auto. Qed.

Lemma round_ctx_ext mkid s s' :
  s_markets s' = s_markets s -> s_sessions s' = s_sessions s -> s_cur s' = s_cur s -> round_ctx mkid s -> round_ctx mkid s'.
Proof. unfold round_ctx, cur_switch. intros -> -> ->. auto. Qed.

Lemma round_ctx_fail mkid s e : round_ctx mkid s -> round_ctx mkid (fail s e).
Proof. apply round_ctx_ext; unfold fail; destruct (s_err s); reflexivity. Qed.

Lemma round_ctx_emit mkid s e : round_ctx mkid s -> round_ctx mkid (emit s e).
Proof. apply round_ctx_ext; reflexivity. Qed.

Lemma round_ctx_callback mkid s a k r m : round_ctx mkid s -> round_ctx mkid (callback s a k r m).
Proof.
  intros H. unfold callback. destruct (find_agent a (s_agents s)); [|apply round_ctx_fail; auto].
  destruct (find_mkt m (s_markets s)); [apply round_ctx_emit|apply round_ctx_fail]; auto.
Qed.

Lemma round_ctx_halt mkid s e : round_ctx mkid s -> round_ctx mkid (halt_after_execution s e mkid).
Proof.
  intros H. unfold halt_after_execution. destruct (es_kind e); auto.
  destruct (find_mkt mkid (s_markets s)) as [x|] eqn:Fx; [|apply round_ctx_fail; auto].
  destruct (mprice_at x 0); [|apply round_ctx_fail; auto].
  destruct (mprice_at x (mtime x)); [|apply round_ctx_fail; auto].
  destruct (negb (m_running (mk_m x))); auto.
  destruct (_ && _); auto.
  right. cbn. intros y Hy.
  rewrite (find_mkt_upd_same mkid (fun z => z <| mk_m := (mk_m x) <| m_running := false |> |>) _ x Fx) in Hy.
  - inversion Hy; subst. reflexivity.
  - cbn. apply (find_mkt_id _ _ _ Fx).
Qed.

Lemma round_ctx_fire_exec_after mkid s t extra : round_ctx mkid s -> round_ctx mkid (fire_exec_after s t mkid extra).
Proof.
  intros H. unfold fire_exec_after. generalize (hooks_for s HExec false t). intros l0. revert s H.
  induction l0 as [|h r IH]; simpl; intros s H; auto. apply IH.
  destruct (negb (ok s)); auto. destruct (find_event (h_ev h) (s_events s)) as [e|]; auto.
  destruct (es_kind e); auto; try (apply round_ctx_halt; auto); try (apply round_ctx_emit; auto).
Qed.

Lemma round_ctx_guard mkid s f : (forall s, round_ctx mkid s -> round_ctx mkid (f s)) -> round_ctx mkid s -> round_ctx mkid (guard s f).
Proof. intros Hf H. unfold guard. destruct (ok s); auto. Qed.

Lemma round_ctx_notify mkid s r : round_ctx mkid s -> round_ctx mkid (notify_fill s mkid r).
Proof.
  intros H. unfold notify_fill. destruct r; auto.
  apply round_ctx_guard; [intros; apply round_ctx_fire_exec_after; auto|].
  apply round_ctx_guard; [intros; apply round_ctx_callback; auto|].
  apply round_ctx_guard; [intros; apply round_ctx_callback; auto|]. exact H.
Qed.

Lemma step_from_quiet (P : sim -> Prop) :
  (forall s e, quiet_event e -> P s -> P (emit s e)) ->
  forall s kind mkid x, find_mkt mkid (s_markets s) = Some x -> P s -> P (emit s (ev_step s kind x)).
Proof. intros H s kind mkid x _ Hs. apply H; auto. exact I. Qed.

(* a callback either emits one callback event or (unknown agent / market) fails the run *)
Lemma callback_from_emit (P : sim -> Prop) :
  (forall s e, P s -> P (fail s e)) ->
  (forall s a kind r hold sw run, P s -> P (emit s (EvCallback a kind r hold sw run))) ->
  forall s aid kind r mkid, P s -> P (callback s aid kind r mkid).
Proof.
  intros Hf He s aid kind r mkid H. unfold callback. destruct (find_agent aid (s_agents s)); [|apply Hf; auto].
  destruct (find_mkt mkid (s_markets s)); [|apply Hf; auto]. apply He; auto.
Qed.

Definition order_phase (k : hkind) : bool := match k with HOrder | HCancel | HExec => true | _ => false end.

(* the errors that are NOT internal assertions of the matching engine *)
Definition plain_err (e : err) : bool :=
  match e with EAssertWalk | EAssertPrice | EAssertPost | EAssertNegVolume => false | _ => true end.

Lemma add_order_err_plain m ag mk buy p v ttlv e : add_order m ag mk buy p v ttlv = Err e -> plain_err e = true.
Proof. unfold add_order. destruct (m_time m <? 0); [intros H; inversion H; reflexivity|]. destruct (negb (mk =? m_id m)); [intros H; inversion H; reflexivity|discriminate]. Qed.
Lemma cancel_order_err_plain m i e : cancel_order m i = Err e -> plain_err e = true.
Proof.
  unfold cancel_order. destruct (m_time m <? 0); [intros H; inversion H; reflexivity|].
  destruct (find_id i (m_buys m)); [discriminate|]. destruct (find_id i (m_sells m)); [discriminate|].
  destruct (find_id i (m_gone m)); [discriminate|]. intros H; inversion H; reflexivity.
Qed.

Section LiftK.
Variable P : sim -> Prop.
Hypothesis H_fail : forall s e, plain_err e = true -> P s -> P (fail s e).
(* the one place where an error of the matching engine can surface: a round's call of Market._execution *)
Hypothesis H_fail_exec : forall s mkid x e,
  find_mkt mkid (s_markets s) = Some x -> cur_switch s = true -> execution (mk_m x) = Err e ->
  P (emit s (EvRound mkid (m_running (mk_m x)) (s_cur s))) -> P (fail (emit s (EvRound mkid (m_running (mk_m x)) (s_cur s))) e).
Hypothesis H_probe_o : forall s ev k before mkid extra, order_phase k = true -> P s -> P (emit s (ev_probe s ev k before mkid extra)).
Hypothesis H_callback : forall s aid kind r mkid, P s -> P (callback s aid kind r mkid).
Hypothesis H_boundary : forall s e, boundary_event e -> P s -> P (flush (write s e)).
Hypothesis H_accept_order : forall s mkid x ag mk buy p v ttlv m' rc tag,
  find_mkt mkid (s_markets s) = Some x -> add_order (mk_m x) ag mk buy p v ttlv = Ok (m', rc) ->
  P s -> P (do_accept_order s mkid x m' rc tag).
Hypothesis H_accept_cancel : forall s mkid x i m' rc,
  find_mkt mkid (s_markets s) = Some x -> cancel_order (mk_m x) i = Ok (m', rc) ->
  P s -> P (do_accept_cancel s mkid m' rc).
Hypothesis H_round : forall s mkid x,
  find_mkt mkid (s_markets s) = Some x -> cur_switch s = true ->
  P s -> P (emit s (EvRound mkid (m_running (mk_m x)) (s_cur s))).
Hypothesis H_fills : forall s mkid x m' logs,
  find_mkt mkid (s_markets s) = Some x -> execution (mk_m x) = Ok (m', logs) -> cur_switch s = true ->
  (exists tr, s_trace s = EvRound mkid (m_running (mk_m x)) (s_cur s) :: tr) ->
  P s -> P (do_fills s mkid m' logs).
Hypothesis H_tick_all : forall s, P s -> P (tick_all s).
Hypothesis H_pop_perm : forall s, P s -> P (fst (pop_perm s)).
Hypothesis H_pop_draw : forall s, P s -> P (fst (pop_draw s)).
Hypothesis H_consult : forall s aid, P s -> P (fst (consult s aid)).
Hypothesis H_spent : forall s eid, P s ->
  P (s <| s_events := upd_event eid (fun e => e <| es_spent := true |>) (s_events s) |>).
Hypothesis H_halt_after : forall s e mkid, In e (s_events s) -> round_ctx mkid s -> P s -> P (halt_after_execution s e mkid).
Hypothesis H_halt_before : forall s e x, In e (s_events s) -> find_mkt (m_id (mk_m x)) (s_markets s) = Some x -> P s -> P (halt_before_step s e x).
Hypothesis H_shock : forall s e x, find_mkt (m_id (mk_m x)) (s_markets s) = Some x -> P s -> P (shock_before_step s e x).
Hypothesis H_set_cur : forall s sid, P s -> P (s <| s_cur := sid |>).
Hypothesis H_begin_iteration : forall s, P s -> P (begin_iteration s).

Lemma guard_k s f : (forall s, P s -> P (f s)) -> P s -> P (guard s f).
Proof. intros H Hs. unfold guard. destruct (ok s); auto. Qed.

Lemma callback_k s aid kind r mkid : P s -> P (callback s aid kind r mkid).
Proof. apply H_callback. Qed.

Lemma before_order_effect_k s h r : P s -> P (fst (before_order_effect s h r)).
Proof.
  intros H. unfold before_order_effect. destruct r as [tag ag mk buy p v ttlv|]; [|exact H].
  destruct (find_event (h_ev h) (s_events s)) as [e|]; [|exact H].
  destruct (es_kind e); try exact H.
  - destruct (negb (mk =? target)); [exact H|]. destruct (es_spent e); [exact H|].
    destruct (find_mkt mk (s_markets s)) as [x|]; [|apply H_fail; auto].
    destruct (mprice_at x (mtime x)); [|apply H_fail; auto]. simpl. apply H_spent. exact H.
  - destruct (negb (memz mk targets)); [exact H|].
    destruct (find_mkt mk (s_markets s)) as [x|]; [|apply H_fail; auto].
    destruct (mprice_at x 0); [|apply H_fail; auto]. destruct p; exact H.
  - simpl. apply H_probe_o; auto.
Qed.

Lemma fire_order_before_k s r t : P s -> P (fst (fire_order_before s r t)).
Proof.
  intros H. unfold fire_order_before.
  generalize (hooks_for s HOrder true t). intros l.
  assert (G : forall l acc, P (fst acc) ->
            P (fst (fold_left (fun (acc : sim * request) h =>
                                 if ok (fst acc) then before_order_effect (fst acc) h (snd acc) else acc) l acc))).
  { clear H. intros l0. induction l0 as [|h r0 IH]; simpl; intros acc Ha; auto.
    apply IH. destruct (ok (fst acc)); auto. apply before_order_effect_k; auto. }
  apply G. exact H.
Qed.

Lemma fire_simple_k s k before t mkid extra : order_phase k = true -> P s -> P (fire_simple s k before t mkid extra).
Proof.
  intros Hk H. unfold fire_simple. apply fold_left_pres; auto.
  intros s0 h H0. destruct (ok s0 && is_probe s0 h); auto.
Qed.

Lemma fire_exec_after_k s t mkid extra : round_ctx mkid s -> P s -> P (fire_exec_after s t mkid extra).
Proof.
  intros C H. unfold fire_exec_after. generalize (hooks_for s HExec false t). intros l0. revert s C H.
  induction l0 as [|h r IH]; simpl; intros s C H; auto.
  destruct (negb (ok s)) eqn:Ok; [apply IH; auto|].
  destruct (find_event (h_ev h) (s_events s)) as [e|] eqn:Fe; [|apply IH; auto].
  apply find_event_In in Fe.
  destruct (es_kind e); try (apply IH; auto; fail).
  all: apply IH; [first [apply round_ctx_halt; auto; fail|apply round_ctx_emit; auto]|first [apply H_halt_after; auto; fail|apply H_probe_o; auto]].
Qed.

Lemma notify_fill_k s mkid r : round_ctx mkid s -> P s -> P (notify_fill s mkid r).
Proof.
  intros C H. unfold notify_fill. destruct r; auto.
  assert (C1 : round_ctx mkid (guard s (fun s => callback s bagent 3 (RExec mk time bagent sagent bid sid p v) mkid))).
  { apply round_ctx_guard; auto. intros; apply round_ctx_callback; auto. }
  assert (H1 : P (guard s (fun s => callback s bagent 3 (RExec mk time bagent sagent bid sid p v) mkid))).
  { apply guard_k; auto; intros; apply callback_k; auto. }
  set (s1 := guard s _) in *.
  assert (C2 : round_ctx mkid (guard s1 (fun s => callback s sagent 3 (RExec mk time bagent sagent bid sid p v) mkid))).
  { apply round_ctx_guard; auto. intros; apply round_ctx_callback; auto. }
  assert (H2 : P (guard s1 (fun s => callback s sagent 3 (RExec mk time bagent sagent bid sid p v) mkid))).
  { apply guard_k; auto; intros; apply callback_k; auto. }
  set (s2 := guard s1 _) in *.
  unfold guard at 1. destruct (ok s2); auto. apply fire_exec_after_k; auto.
Qed.

Lemma round_ctx_do_fills mkid s m' logs : cur_switch s = true -> round_ctx mkid (do_fills s mkid m' logs).
Proof.
  intros Sw. left. unfold do_fills.
  destruct (log_events_fields logs (set_market s mkid m')) as [Se C]. unfold cur_switch in *. cbn. rewrite Se, C. exact Sw.
Qed.

Lemma run_round_k s mkid : P s -> P (run_round s mkid).
Proof.
  intros H. unfold run_round. destruct (cur_switch s) eqn:Sw; simpl; auto.
  destruct (find_mkt mkid (s_markets s)) as [x|] eqn:Fx; [|apply H_fail; auto].
  destruct (execution (mk_m x)) as [[m' logs]|e] eqn:Ex; [|eapply H_fail_exec; eauto; eapply H_round; eauto].
  assert (G : forall l s0, round_ctx mkid s0 -> P s0 ->
              P (fold_left (fun s r => notify_fill s mkid r) l s0) ).
  { induction l as [|r rest IH]; simpl; intros s0 C0 H0; auto.
    apply IH; [apply round_ctx_notify; auto|apply notify_fill_k; auto]. }
  apply G.
  - apply round_ctx_do_fills. exact Sw.
  - eapply H_fills; [exact Fx|exact Ex|exact Sw|eexists; reflexivity|eapply H_round; eauto].
Qed.

Lemma handle_request_k s r : P s -> P (handle_request s r).
Proof.
  intros H. unfold handle_request. destruct (negb (ok s)); auto.
  destruct (find_mkt (req_market r) (s_markets s)) as [x|] eqn:Fx; [|apply H_fail; auto].
  destruct r as [tag ag mk buy p v ttlv|tag ag mk].
  - pose proof (fire_order_before_k s (RNew tag ag mk buy p v ttlv) (mtime x) H) as H1.
    destruct (fire_order_before s (RNew tag ag mk buy p v ttlv) (mtime x)) as [s1 r']. simpl in H1.
    destruct (negb (ok s1)); auto.
    destruct r' as [tag' ag' mk' buy' p' v' ttlv'|]; [|apply H_fail; auto].
    destruct (find_mkt (req_market (RNew tag ag mk buy p v ttlv)) (s_markets s1)) as [x1|] eqn:Fx1; [|apply H_fail; auto].
    destruct (assoc tag' (s_tags s1)); [apply H_fail; auto|].
    destruct (add_order (mk_m x1) ag' mk' buy' p' v' ttlv') as [[m' rc]|e] eqn:Ea; [|apply H_fail; auto; eapply add_order_err_plain; eauto].
    apply guard_k; [intros; apply run_round_k; auto|].
    apply guard_k; [intros; apply fire_simple_k; auto|].
    apply callback_k. eapply H_accept_order; eauto.
  - cbn [req_market] in *.
    pose proof (fire_simple_k s HCancel true (mtime x) mk
                  [voz match assoc tag (s_tags s) with Some (_, i) => Some i | None => None end] eq_refl H) as H1.
    set (s1 := fire_simple s HCancel true (mtime x) mk _) in *.
    destruct (negb (ok s1)); auto.
    destruct (assoc tag (s_tags s)) as [[mm i]|]; [|apply H_fail; auto].
    destruct (find_mkt mk (s_markets s1)) as [x1|] eqn:Fx1; [|apply H_fail; auto].
    destruct (cancel_order (mk_m x1) i) as [[m' rc]|e] eqn:Ec; [|apply H_fail; auto; eapply cancel_order_err_plain; eauto].
    apply guard_k; [intros; apply run_round_k; auto|].
    apply guard_k; [intros; apply fire_simple_k; auto|].
    apply callback_k. eapply H_accept_cancel; eauto.
Qed.

End LiftK.

(* ---- the same lemmas with ONE hypothesis for all consult / probe events (any hook kind) ---- *)
Section Lift.
Variable P : sim -> Prop.
Hypothesis H_fail : forall s e, plain_err e = true -> P s -> P (fail s e).
Hypothesis H_fail_exec : forall s mkid x e,
  find_mkt mkid (s_markets s) = Some x -> cur_switch s = true -> execution (mk_m x) = Err e ->
  P (emit s (EvRound mkid (m_running (mk_m x)) (s_cur s))) -> P (fail (emit s (EvRound mkid (m_running (mk_m x)) (s_cur s))) e).
Hypothesis H_emit : forall s e, obs_event e -> P s -> P (emit s e).
Hypothesis H_callback : forall s aid kind r mkid, P s -> P (callback s aid kind r mkid).
Hypothesis H_accept_order : forall s mkid x ag mk buy p v ttlv m' rc tag,
  find_mkt mkid (s_markets s) = Some x -> add_order (mk_m x) ag mk buy p v ttlv = Ok (m', rc) ->
  P s -> P (do_accept_order s mkid x m' rc tag).
Hypothesis H_accept_cancel : forall s mkid x i m' rc,
  find_mkt mkid (s_markets s) = Some x -> cancel_order (mk_m x) i = Ok (m', rc) ->
  P s -> P (do_accept_cancel s mkid m' rc).
Hypothesis H_round : forall s mkid x,
  find_mkt mkid (s_markets s) = Some x -> cur_switch s = true ->
  P s -> P (emit s (EvRound mkid (m_running (mk_m x)) (s_cur s))).
Hypothesis H_fills : forall s mkid x m' logs,
  find_mkt mkid (s_markets s) = Some x -> execution (mk_m x) = Ok (m', logs) -> cur_switch s = true ->
  (exists tr, s_trace s = EvRound mkid (m_running (mk_m x)) (s_cur s) :: tr) ->
  P s -> P (do_fills s mkid m' logs).
Hypothesis H_spent : forall s eid, P s ->
  P (s <| s_events := upd_event eid (fun e => e <| es_spent := true |>) (s_events s) |>).
Hypothesis H_halt_after : forall s e mkid, In e (s_events s) -> round_ctx mkid s -> P s -> P (halt_after_execution s e mkid).
Hypothesis H_halt_before : forall s e x, In e (s_events s) -> find_mkt (m_id (mk_m x)) (s_markets s) = Some x -> P s -> P (halt_before_step s e x).
Hypothesis H_shock : forall s e x, find_mkt (m_id (mk_m x)) (s_markets s) = Some x -> P s -> P (shock_before_step s e x).

Let HPo : forall s ev k before mkid extra, order_phase k = true -> P s -> P (emit s (ev_probe s ev k before mkid extra)) :=
  fun s ev k before mkid extra _ H => H_emit s (ev_probe s ev k before mkid extra) I H.

Lemma fire_order_before_pres s r t : P s -> P (fst (fire_order_before s r t)).
Proof. apply (fire_order_before_k P H_fail HPo H_spent). Qed.
Lemma fire_simple_pres s k before t mkid extra : P s -> P (fire_simple s k before t mkid extra).
Proof.
  intros H. unfold fire_simple. apply fold_left_pres; auto.
  intros s0 h H0. destruct (ok s0 && is_probe s0 h); auto. apply H_emit; simpl; auto.
Qed.
Lemma fire_exec_after_pres s t mkid extra : round_ctx mkid s -> P s -> P (fire_exec_after s t mkid extra).
Proof. apply (fire_exec_after_k P HPo H_halt_after). Qed.
Lemma fire_market_pres s before mkid : P s -> P (fire_market s before mkid).
Proof.
  intros H. unfold fire_market. destruct (find_mkt mkid (s_markets s)) as [x0|]; auto.
  apply fold_left_pres; auto. intros s0 h H0. destruct (negb (ok s0)); auto.
  destruct (find_mkt mkid (s_markets s0)) as [x|] eqn:Fx; auto.
  destruct (find_event (h_ev h) (s_events s0)) as [e|] eqn:Fe; auto.
  apply find_event_In in Fe.
  destruct (negb (market_filter h x)); auto.
  assert (Fx' : find_mkt (m_id (mk_m x)) (s_markets s0) = Some x).
  { clear - Fx. induction (s_markets s0) as [|y r IH]; simpl in *; [discriminate|].
    destruct (m_id (mk_m y) =? mkid) eqn:E.
    - inversion Fx; subst. rewrite Z.eqb_refl. reflexivity.
    - specialize (IH Fx). destruct (m_id (mk_m y) =? m_id (mk_m x)) eqn:E2; auto.
      (* the first market with x's id: x itself was found later under mkid, so ids equal mkid *)
      exfalso. clear IH. revert Fx. induction r as [|z r' IHr]; simpl; [discriminate|].
      destruct (m_id (mk_m z) =? mkid) eqn:E3.
      + intros F; inversion F; subst. apply Z.eqb_eq in E2, E3. rewrite E2 in E. rewrite E3 in E. rewrite Z.eqb_refl in E. discriminate.
      + auto. }
  destruct (es_kind e); auto.
  - destruct before; auto.
  - destruct before; auto.
  - apply H_emit; simpl; auto.
Qed.
Lemma notify_fill_pres s mkid r : round_ctx mkid s -> P s -> P (notify_fill s mkid r).
Proof. apply (notify_fill_k P HPo H_callback H_halt_after). Qed.
Lemma handle_request_pres s r : P s -> P (handle_request s r).
Proof. apply (handle_request_k P H_fail H_fail_exec HPo H_callback H_accept_order H_accept_cancel H_round H_fills H_spent H_halt_after). Qed.
End Lift.

Definition fail_any (P : sim -> Prop) (H : forall s e, P s -> P (fail s e)) : forall s e, plain_err e = true -> P s -> P (fail s e) :=
  fun s e _ => H s e.
Definition fail_exec_any (P : sim -> Prop) (H : forall s e, P s -> P (fail s e)) :
  forall s mkid x e, find_mkt mkid (s_markets s) = Some x -> cur_switch s = true -> execution (mk_m x) = Err e ->
  P (emit s (EvRound mkid (m_running (mk_m x)) (s_cur s))) -> P (fail (emit s (EvRound mkid (m_running (mk_m x)) (s_cur s))) e) :=
  fun s mkid x e _ _ _ => H _ e.

(* ---- everything above one request (hook probes split by phase): the same lifting with the preservation by [handle_request] as a hypothesis, so that a
   predicate which is only restored at the end of a request (e.g. "every record has been told to its parties") lifts too ---- *)
Section UpperK.
Variable P : sim -> Prop.
Hypothesis H_fail : forall s e, plain_err e = true -> P s -> P (fail s e).
Hypothesis H_probe_u : forall s ev k before mkid extra, order_phase k = false -> P s -> P (emit s (ev_probe s ev k before mkid extra)).
Hypothesis H_step : forall s kind mkid x, find_mkt mkid (s_markets s) = Some x -> P s -> P (emit s (ev_step s kind x)).
Hypothesis H_boundary : forall s e, boundary_event e -> P s -> P (flush (write s e)).
Hypothesis H_tick_all : forall s, P s -> P (tick_all s).
Hypothesis H_pop_perm : forall s, P s -> P (fst (pop_perm s)).
Hypothesis H_pop_draw : forall s, P s -> P (fst (pop_draw s)).
Hypothesis H_consult : forall s aid, P s -> P (fst (consult s aid)).
Hypothesis H_halt_before : forall s e x, In e (s_events s) -> find_mkt (m_id (mk_m x)) (s_markets s) = Some x -> P s -> P (halt_before_step s e x).
Hypothesis H_shock : forall s e x, find_mkt (m_id (mk_m x)) (s_markets s) = Some x -> P s -> P (shock_before_step s e x).
Hypothesis H_set_cur : forall s sid, P s -> P (s <| s_cur := sid |>).
Hypothesis H_begin_iteration : forall s, P s -> P (begin_iteration s).
Hypothesis handle_request_pres : forall s r, P s -> P (handle_request s r).

Lemma fire_simple_u s k before t mkid extra : order_phase k = false -> P s -> P (fire_simple s k before t mkid extra).
Proof.
  intros Hk H. unfold fire_simple. apply fold_left_pres; auto.
  intros s0 h H0. destruct (ok s0 && is_probe s0 h); auto.
Qed.

Lemma fire_market_u s before mkid : P s -> P (fire_market s before mkid).
Proof.
  intros H. unfold fire_market. destruct (find_mkt mkid (s_markets s)) as [x0|]; auto.
  apply fold_left_pres; auto. intros s0 h H0. destruct (negb (ok s0)); auto.
  destruct (find_mkt mkid (s_markets s0)) as [x|] eqn:Fx; auto.
  destruct (find_event (h_ev h) (s_events s0)) as [e|] eqn:Fe; auto.
  apply find_event_In in Fe.
  destruct (negb (market_filter h x)); auto.
  assert (Fx' : find_mkt (m_id (mk_m x)) (s_markets s0) = Some x).
  { rewrite (find_mkt_id _ _ _ Fx). exact Fx. }
  destruct (es_kind e); auto; destruct before; auto.
Qed.

Lemma collect_k ags : forall s cap n acc, P s -> P (fst (collect s ags cap n acc)).
Proof.
  induction ags as [|a rest IH]; simpl; intros s cap n acc H; auto.
  destruct (negb (ok s)); simpl; auto. destruct (n >=? cap); simpl; auto.
  pose proof (H_consult s (a_id a) H) as H1. destruct (consult s (a_id a)) as [s1 b]. simpl in H1.
  destruct (negb (ok s1)); simpl; auto.
  destruct b as [|r0 b']; [apply IH; auto|].
  destruct (spoofed (a_id a) (r0 :: b')); simpl; [apply H_fail; auto|apply IH; auto].
Qed.

Lemma hft_phase_k ags : forall s cap n, P s -> P (hft_phase s ags cap n).
Proof.
  induction ags as [|a rest IH]; simpl; intros s cap n H; auto.
  destruct (negb (ok s)); auto. destruct (n >=? cap); auto.
  pose proof (H_consult s (a_id a) H) as H1. destruct (consult s (a_id a)) as [s1 b]. simpl in H1.
  destruct (negb (ok s1)); auto.
  destruct b as [|r0 b']; [apply IH; auto|].
  destruct (spoofed (a_id a) (r0 :: b')); [apply H_fail; auto|].
  apply IH. apply fold_left_pres; auto; intros; apply handle_request_pres; auto.
Qed.

Lemma handle_batch_k s b : P s -> P (handle_batch s b).
Proof.
  intros H. unfold handle_batch. destruct (negb (ok s)); auto.
  assert (H1 : P (fold_left handle_request b s)) by (apply fold_left_pres; auto; intros; apply handle_request_pres; auto).
  destruct (negb (ok (fold_left handle_request b s))); auto.
  destruct (cur_sess (fold_left handle_request b s)) as [se|]; [|apply H_fail; auto].
  pose proof (H_pop_draw _ H1) as H2. destruct (pop_draw (fold_left handle_request b s)) as [s2 x]. simpl in H2.
  destruct (negb (ok s2)); auto. destruct (qltb (se_rate se) x); auto.
  pose proof (H_pop_perm _ H2) as H3. destruct (pop_perm s2) as [s3 p]. simpl in H3.
  destruct (negb (ok s3)); auto. apply hft_phase_k; auto.
Qed.

Lemma update_markets_upk s : P s -> P (update_markets s).
Proof.
  intros H. unfold update_markets. destruct (cur_sess s) as [se|]; [|apply H_fail; auto].
  pose proof (H_pop_perm _ H) as H1. destruct (pop_perm s) as [s1 p]. simpl in H1.
  destruct (negb (ok s1)); auto.
  pose proof (collect_k (permute (filter (fun a => negb (a_hft a)) (s_agents s1)) p) s1 (se_maxn se) 0 [] H1) as H2.
  destruct (collect s1 _ (se_maxn se) 0 []) as [s2 local]. simpl in H2.
  destruct (negb (ok s2)); auto.
  pose proof (H_pop_perm _ H2) as H3. destruct (pop_perm s2) as [s3 p2]. simpl in H3.
  destruct (negb (ok s3)); auto. apply fold_left_pres; auto. intros; apply handle_batch_k; auto.
Qed.

Lemma step_begin_k s mkid : P s -> P (step_begin s mkid).
Proof.
  intros H. unfold step_begin. destruct (negb (ok s)); auto.
  pose proof (fire_market_u s true mkid H) as H1. destruct (negb (ok (fire_market s true mkid))); auto.
  destruct (find_mkt mkid (s_markets (fire_market s true mkid))) eqn:Fx; auto. eapply H_step; eauto.
Qed.

Lemma step_end_k s mkid : P s -> P (step_end s mkid).
Proof.
  intros H. unfold step_end. destruct (negb (ok s)); auto. apply fire_market_u.
  destruct (find_mkt mkid (s_markets s)) eqn:Fx; auto. eapply H_step; eauto.
Qed.

Lemma one_step_k s : P s -> P (one_step s).
Proof.
  intros H. unfold one_step. destruct (negb (ok s)); auto.
  assert (H1 : P (fold_left step_begin (mids s) s)) by (apply fold_left_pres; auto; intros; apply step_begin_k; auto).
  set (s1 := fold_left step_begin (mids s) s) in *. destruct (negb (ok s1)); auto.
  assert (H2 : P (match cur_sess s1 with
                  | Some se => if se_place se then update_markets s1 else s1
                  | None => fail s1 EOther end)).
  { destruct (cur_sess s1) as [se|]; [|apply H_fail; auto]. destruct (se_place se); auto. apply update_markets_upk; auto. }
  set (s2 := match cur_sess s1 with Some se => _ | None => _ end) in *. destruct (negb (ok s2)); auto.
  assert (H3 : P (fold_left step_end (mids s2) s2)) by (apply fold_left_pres; auto; intros; apply step_end_k; auto).
  destruct (negb (ok (fold_left step_end (mids s2) s2))); auto.
Qed.

Lemma iterate_k n : forall s, P s -> P (iterate n s).
Proof. induction n as [|k IH]; simpl; intros s H; auto. apply IH. apply one_step_k; auto. Qed.

Lemma run_session_k s se0 : P s -> P (run_session s se0).
Proof.
  intros H. unfold run_session. destruct (negb (ok s)); auto.
  assert (H0 : P (s <| s_cur := se_id se0 |>)) by (apply H_set_cur; auto).
  set (s0 := s <| s_cur := se_id se0 |>) in *.
  pose proof (fire_simple_u s0 HSession true (se_start se0) (-1) [VZ (se_id se0); VZ (se_start se0)] eq_refl H0) as H1.
  set (s1 := fire_simple s0 HSession true _ _ _) in *. destruct (negb (ok s1)); auto.
  assert (H2 : P (begin_iteration (flush (write s1 (EvSessBegin (se_id se0) (clock s1)))))).
  { apply H_begin_iteration. apply H_boundary; simpl; auto. }
  pose proof (iterate_k (Z.to_nat (se_steps se0)) _ H2) as H3.
  set (s3 := iterate _ _) in *. destruct (negb (ok s3)); auto.
  pose proof (fire_simple_u s3 HSession false (se_start se0 + se_steps se0 - 1) (-1)
                [VZ (se_id se0); VZ (se_start se0 + se_steps se0 - 1)] eq_refl H3) as H4.
  set (s4 := fire_simple s3 HSession false _ _ _) in *. destruct (negb (ok s4)); auto.
  apply H_boundary; simpl; auto.
Qed.

(* the whole run: from the initial state to the end, for every configuration and all input tapes *)
Theorem run_upk c tape batches funds : P (init_sim c tape batches funds) -> P (run c tape batches funds).
Proof.
  intros H. unfold run.
  assert (H1 : P (tick_all (flush (write (init_sim c tape batches funds) EvSimBegin)))).
  { apply H_tick_all. apply H_boundary; simpl; auto. }
  set (s1 := tick_all _) in *.
  assert (H2 : P (fold_left run_session (s_sessions s1) s1)).
  { apply fold_left_pres; auto. intros; apply run_session_k; auto. }
  destruct (negb (ok (fold_left run_session (s_sessions s1) s1))); auto. apply H_boundary; simpl; auto.
Qed.

End UpperK.

(* the same with one hypothesis for all consult / probe events *)
Section Upper.
Variable P : sim -> Prop.
Hypothesis H_fail : forall s e, P s -> P (fail s e).
Hypothesis H_emit : forall s e, obs_event e -> P s -> P (emit s e).
Hypothesis H_step : forall s kind mkid x, find_mkt mkid (s_markets s) = Some x -> P s -> P (emit s (ev_step s kind x)).
Hypothesis H_boundary : forall s e, boundary_event e -> P s -> P (flush (write s e)).
Hypothesis H_tick_all : forall s, P s -> P (tick_all s).
Hypothesis H_pop_perm : forall s, P s -> P (fst (pop_perm s)).
Hypothesis H_pop_draw : forall s, P s -> P (fst (pop_draw s)).
Hypothesis H_consult : forall s aid, P s -> P (fst (consult s aid)).
Hypothesis H_halt_before : forall s e x, In e (s_events s) -> find_mkt (m_id (mk_m x)) (s_markets s) = Some x -> P s -> P (halt_before_step s e x).
Hypothesis H_shock : forall s e x, find_mkt (m_id (mk_m x)) (s_markets s) = Some x -> P s -> P (shock_before_step s e x).
Hypothesis H_set_cur : forall s sid, P s -> P (s <| s_cur := sid |>).
Hypothesis H_begin_iteration : forall s, P s -> P (begin_iteration s).
Hypothesis handle_request_pres : forall s r, P s -> P (handle_request s r).

Let HP : forall s ev k before mkid extra, order_phase k = false -> P s -> P (emit s (ev_probe s ev k before mkid extra)) :=
  fun s ev k before mkid extra _ H => H_emit s (ev_probe s ev k before mkid extra) I H.

Lemma update_markets_up s : P s -> P (update_markets s).
Proof. apply (update_markets_upk P (fail_any P H_fail) H_pop_perm H_pop_draw H_consult handle_request_pres). Qed.
Lemma step_begin_pres s mkid : P s -> P (step_begin s mkid).
Proof. apply (step_begin_k P HP H_step H_halt_before H_shock). Qed.
Lemma step_end_pres s mkid : P s -> P (step_end s mkid).
Proof. apply (step_end_k P HP H_step H_halt_before H_shock). Qed.
Theorem run_up c tape batches funds : P (init_sim c tape batches funds) -> P (run c tape batches funds).
Proof.
  apply (run_upk P (fail_any P H_fail) HP H_step H_boundary H_tick_all H_pop_perm H_pop_draw H_consult H_halt_before H_shock H_set_cur
           H_begin_iteration handle_request_pres).
Qed.
End Upper.

(* the original one-piece lifting: every atomic update preserves P => the whole run does *)
Section Whole.
Variable P : sim -> Prop.
Hypothesis H_fail : forall s e, P s -> P (fail s e).
Hypothesis H_emit : forall s e, obs_event e -> P s -> P (emit s e).
Hypothesis H_callback : forall s aid kind r mkid, P s -> P (callback s aid kind r mkid).
Hypothesis H_step : forall s kind mkid x, find_mkt mkid (s_markets s) = Some x -> P s -> P (emit s (ev_step s kind x)).
Hypothesis H_boundary : forall s e, boundary_event e -> P s -> P (flush (write s e)).
Hypothesis H_accept_order : forall s mkid x ag mk buy p v ttlv m' rc tag,
  find_mkt mkid (s_markets s) = Some x -> add_order (mk_m x) ag mk buy p v ttlv = Ok (m', rc) ->
  P s -> P (do_accept_order s mkid x m' rc tag).
Hypothesis H_accept_cancel : forall s mkid x i m' rc,
  find_mkt mkid (s_markets s) = Some x -> cancel_order (mk_m x) i = Ok (m', rc) ->
  P s -> P (do_accept_cancel s mkid m' rc).
Hypothesis H_round : forall s mkid x,
  find_mkt mkid (s_markets s) = Some x -> cur_switch s = true ->
  P s -> P (emit s (EvRound mkid (m_running (mk_m x)) (s_cur s))).
Hypothesis H_fills : forall s mkid x m' logs,
  find_mkt mkid (s_markets s) = Some x -> execution (mk_m x) = Ok (m', logs) -> cur_switch s = true ->
  (exists tr, s_trace s = EvRound mkid (m_running (mk_m x)) (s_cur s) :: tr) ->
  P s -> P (do_fills s mkid m' logs).
Hypothesis H_tick_all : forall s, P s -> P (tick_all s).
Hypothesis H_pop_perm : forall s, P s -> P (fst (pop_perm s)).
Hypothesis H_pop_draw : forall s, P s -> P (fst (pop_draw s)).
Hypothesis H_consult : forall s aid, P s -> P (fst (consult s aid)).
Hypothesis H_spent : forall s eid, P s ->
  P (s <| s_events := upd_event eid (fun e => e <| es_spent := true |>) (s_events s) |>).
Hypothesis H_halt_after : forall s e mkid, In e (s_events s) -> round_ctx mkid s -> P s -> P (halt_after_execution s e mkid).
Hypothesis H_halt_before : forall s e x, In e (s_events s) -> find_mkt (m_id (mk_m x)) (s_markets s) = Some x -> P s -> P (halt_before_step s e x).
Hypothesis H_shock : forall s e x, find_mkt (m_id (mk_m x)) (s_markets s) = Some x -> P s -> P (shock_before_step s e x).
Hypothesis H_set_cur : forall s sid, P s -> P (s <| s_cur := sid |>).
Hypothesis H_begin_iteration : forall s, P s -> P (begin_iteration s).

Let HR := handle_request_pres P (fail_any P H_fail) (fail_exec_any P H_fail) H_emit H_callback H_accept_order H_accept_cancel H_round H_fills H_spent H_halt_after.

Lemma update_markets_pres s : P s -> P (update_markets s).
Proof. apply (update_markets_up P H_fail H_pop_perm H_pop_draw H_consult HR). Qed.

Theorem run_pres c tape batches funds : P (init_sim c tape batches funds) -> P (run c tape batches funds).
Proof.
  apply (run_up P H_fail H_emit H_step H_boundary H_tick_all H_pop_perm H_pop_draw H_consult H_halt_before H_shock H_set_cur
           H_begin_iteration HR).
Qed.
End Whole.

(* the one-piece lifting with the error sites told apart: plain errors anywhere, engine errors only from a round's execution *)
Section WholeE.
Variable P : sim -> Prop.
Hypothesis H_fail : forall s e, plain_err e = true -> P s -> P (fail s e).
Hypothesis H_fail_exec : forall s mkid x e,
  find_mkt mkid (s_markets s) = Some x -> cur_switch s = true -> execution (mk_m x) = Err e ->
  P (emit s (EvRound mkid (m_running (mk_m x)) (s_cur s))) -> P (fail (emit s (EvRound mkid (m_running (mk_m x)) (s_cur s))) e).
Hypothesis H_emit : forall s e, obs_event e -> P s -> P (emit s e).
Hypothesis H_callback : forall s aid kind r mkid, P s -> P (callback s aid kind r mkid).
Hypothesis H_step : forall s kind mkid x, find_mkt mkid (s_markets s) = Some x -> P s -> P (emit s (ev_step s kind x)).
Hypothesis H_boundary : forall s e, boundary_event e -> P s -> P (flush (write s e)).
Hypothesis H_accept_order : forall s mkid x ag mk buy p v ttlv m' rc tag,
  find_mkt mkid (s_markets s) = Some x -> add_order (mk_m x) ag mk buy p v ttlv = Ok (m', rc) ->
  P s -> P (do_accept_order s mkid x m' rc tag).
Hypothesis H_accept_cancel : forall s mkid x i m' rc,
  find_mkt mkid (s_markets s) = Some x -> cancel_order (mk_m x) i = Ok (m', rc) ->
  P s -> P (do_accept_cancel s mkid m' rc).
Hypothesis H_round : forall s mkid x,
  find_mkt mkid (s_markets s) = Some x -> cur_switch s = true ->
  P s -> P (emit s (EvRound mkid (m_running (mk_m x)) (s_cur s))).
Hypothesis H_fills : forall s mkid x m' logs,
  find_mkt mkid (s_markets s) = Some x -> execution (mk_m x) = Ok (m', logs) -> cur_switch s = true ->
  (exists tr, s_trace s = EvRound mkid (m_running (mk_m x)) (s_cur s) :: tr) ->
  P s -> P (do_fills s mkid m' logs).
Hypothesis H_tick_all : forall s, P s -> P (tick_all s).
Hypothesis H_pop_perm : forall s, P s -> P (fst (pop_perm s)).
Hypothesis H_pop_draw : forall s, P s -> P (fst (pop_draw s)).
Hypothesis H_consult : forall s aid, P s -> P (fst (consult s aid)).
Hypothesis H_spent : forall s eid, P s ->
  P (s <| s_events := upd_event eid (fun e => e <| es_spent := true |>) (s_events s) |>).
Hypothesis H_halt_after : forall s e mkid, In e (s_events s) -> round_ctx mkid s -> P s -> P (halt_after_execution s e mkid).
Hypothesis H_halt_before : forall s e x, In e (s_events s) -> find_mkt (m_id (mk_m x)) (s_markets s) = Some x -> P s -> P (halt_before_step s e x).
Hypothesis H_shock : forall s e x, find_mkt (m_id (mk_m x)) (s_markets s) = Some x -> P s -> P (shock_before_step s e x).
Hypothesis H_set_cur : forall s sid, P s -> P (s <| s_cur := sid |>).
Hypothesis H_begin_iteration : forall s, P s -> P (begin_iteration s).

Let HPu : forall s ev k before mkid extra, order_phase k = false -> P s -> P (emit s (ev_probe s ev k before mkid extra)) :=
  fun s ev k before mkid extra _ H => H_emit s (ev_probe s ev k before mkid extra) I H.
Let HR := handle_request_pres P H_fail H_fail_exec H_emit H_callback H_accept_order H_accept_cancel H_round H_fills H_spent H_halt_after.

Lemma update_markets_pres_e s : P s -> P (update_markets s).
Proof. apply (update_markets_upk P H_fail H_pop_perm H_pop_draw H_consult HR). Qed.

Theorem run_pres_e c tape batches funds : P (init_sim c tape batches funds) -> P (run c tape batches funds).
Proof.
  apply (run_upk P H_fail HPu H_step H_boundary H_tick_all H_pop_perm H_pop_draw H_consult H_halt_before H_shock H_set_cur
           H_begin_iteration HR).
Qed.
End WholeE.


(* the clock step of all markets from the single-market step *)
Lemma tick_all_pres (P : sim -> Prop) :
  (forall s e, P s -> P (fail s e)) ->
  (forall s x f m' recs, find_mkt (m_id (mk_m x)) (s_markets s) = Some x -> tick (mk_m x) f = (m', recs) ->
     P s -> P (do_tick s (m_id (mk_m x)) m' recs)) ->
  forall s, P s -> P (tick_all s).
Proof.
  intros Hf Ht s H. unfold tick_all.
  assert (G : forall l s, P s -> P (fold_left tick_market l s)).
  { intros l. apply fold_left_pres. intros s0 x H0. unfold tick_market. destruct (negb (ok s0)); auto.
    destruct (find_mkt (m_id (mk_m x)) (s_markets s0)) as [y|] eqn:Fy; auto.
    assert (Ey : m_id (mk_m y) = m_id (mk_m x)).
    { clear - Fy. induction (s_markets s0) as [|z r IH]; simpl in *; [discriminate|].
      destruct (m_id (mk_m z) =? m_id (mk_m x)) eqn:E; auto. inversion Fy; subst. apply Z.eqb_eq in E. auto. }
    match goal with |- P (match ?fv with Some _ => _ | None => _ end) => destruct fv as [f|] end; [|apply Hf; auto].
    destruct (tick (mk_m y) f) as [m' recs] eqn:Et. rewrite <- Ey in *. eapply Ht; eauto. }
  apply G. apply G. exact H.
Qed.

(* the same with plain errors only (the clock can only fail with a missing fundamental value) *)
Lemma tick_all_pres_e (P : sim -> Prop) :
  (forall s e, plain_err e = true -> P s -> P (fail s e)) ->
  (forall s x f m' recs, find_mkt (m_id (mk_m x)) (s_markets s) = Some x -> tick (mk_m x) f = (m', recs) ->
     P s -> P (do_tick s (m_id (mk_m x)) m' recs)) ->
  forall s, P s -> P (tick_all s).
Proof.
  intros Hf Ht s H. unfold tick_all.
  assert (G : forall l s, P s -> P (fold_left tick_market l s)).
  { intros l. apply fold_left_pres. intros s0 x H0. unfold tick_market. destruct (negb (ok s0)); auto.
    destruct (find_mkt (m_id (mk_m x)) (s_markets s0)) as [y|] eqn:Fy; auto.
    assert (Ey : m_id (mk_m y) = m_id (mk_m x)) by (eapply find_mkt_id; eauto).
    match goal with |- P (match ?fv with Some _ => _ | None => _ end) => destruct fv as [f|] end; [|apply Hf; auto].
    destruct (tick (mk_m y) f) as [m' recs] eqn:Et. rewrite <- Ey in *. eapply Ht; eauto. }
  apply G. apply G. exact H.
Qed.
