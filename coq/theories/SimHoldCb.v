(* C05 / C11 (run level): what an agent sees when it is called back.  Every callback of a run carries the holdings of the called
   agent at that moment, and these are the endowment folded with ALL fills born before the callback - in particular with every
   fill of the round being notified (they are all born before the round's first notification). *)
Require Import Pams.Prelude Pams.Tick Pams.Match Pams.Market Pams.Sim Pams.SimLift Pams.SimInv.
From RecordUpdate Require Import RecordSet.
Import RecordSetNotations.
Open Scope Z_scope.

Definition is_cb (e : event) : bool := match e with EvCallback _ _ _ _ _ _ => true | _ => false end.
Definition no_cb (l : list event) : Prop := Forall (fun e => is_cb e = false) l.

(* newest-first trace: each callback's holdings are computed from the fills below it *)
Definition cb_ok (a0 : list agent) (tr : list event) : Prop :=
  forall pre a k r hold sw run post, tr = pre ++ EvCallback a k r hold sw run :: post ->
    exists ag, find_agent a (fold_left apply_fill_holdings (fills (rev post)) a0) = Some ag /\ hold = holdings_ov ag.

Lemma cb_ok_cons a0 e tr : is_cb e = false -> cb_ok a0 tr -> cb_ok a0 (e :: tr).
Proof.
  intros He H pre a k r hold sw run post E. destruct pre as [|x pre]; simpl in E; inversion E; subst.
  - discriminate.
  - eapply H; eauto.
Qed.

Lemma cb_ok_app a0 l tr : no_cb l -> cb_ok a0 tr -> cb_ok a0 (l ++ tr).
Proof. induction l as [|x r IH]; simpl; intros N H; auto. inversion N; subst. apply cb_ok_cons; auto. Qed.

Lemma cb_ok_cb a0 tr a k r ag sw run :
  find_agent a (fold_left apply_fill_holdings (fills (rev tr)) a0) = Some ag -> cb_ok a0 tr ->
  cb_ok a0 (EvCallback a k r (holdings_ov ag) sw run :: tr).
Proof.
  intros F H pre a' k' r' hold sw' run' post E. destruct pre as [|x pre]; simpl in E; inversion E; subst.
  - exists ag. auto.
  - eapply H; eauto.
Qed.

Definition hcb (a0 : list agent) (s : sim) : Prop := hold_inv a0 s /\ cb_ok a0 (s_trace s) /\ no_cb (s_pending s).

Lemma hcb_same a0 s s' : s_trace s' = s_trace s -> s_pending s' = s_pending s -> hold_inv a0 s' -> hcb a0 s -> hcb a0 s'.
Proof. unfold hcb. intros -> -> H [_ [C N]]. auto. Qed.

Lemma hcb_emit a0 s e : is_cb e = false -> hold_inv a0 (emit s e) -> hcb a0 s -> hcb a0 (emit s e).
Proof. intros He H [_ [C N]]. split; auto. split; auto. unfold emit. cbn. apply cb_ok_cons; auto. Qed.

Lemma hcb_log a0 s r extra : hold_inv a0 (log_event s r extra) -> hcb a0 s -> hcb a0 (log_event s r extra).
Proof.
  intros H [_ [C N]]. split; auto. unfold log_event, write, emit. cbn. split.
  - apply cb_ok_cons; auto.
  - apply Forall_app. split; auto.
Qed.

Lemma find_agent_id' i l a : find_agent i l = Some a -> a_id a = i.
Proof.
  induction l as [|y r IH]; simpl; [discriminate|]. destruct (a_id y =? i) eqn:E; auto.
  intros H; inversion H; subst. apply Z.eqb_eq. exact E.
Qed.

Section Steps.
Variable a0 : list agent.
Let P := hcb a0.

Lemma HC_fail : forall s e, P s -> P (fail s e).
Proof. intros s e H. destruct (fail_fields s e) as [T [Pd _]]. apply (hcb_same a0 s); auto. apply HI_fail. apply H. Qed.
Lemma HC_emit : forall s e, obs_event e -> P s -> P (emit s e).
Proof. intros s e He H. apply hcb_emit; auto; [destruct e; simpl in He; try contradiction; reflexivity|apply HI_emit; auto; apply H]. Qed.
Lemma HC_step : forall s kind mkid x, find_mkt mkid (s_markets s) = Some x -> P s -> P (emit s (ev_step s kind x)).
Proof. intros s kind mkid x Fx H. apply hcb_emit; auto. eapply HI_step; eauto. apply H. Qed.
Lemma HC_callback : forall s aid kind r mkid, P s -> P (callback s aid kind r mkid).
Proof.
  intros s aid kind r mkid H. pose proof (HI_callback a0 s aid kind r mkid (proj1 H)) as HI. revert HI.
  unfold callback. destruct (find_agent aid (s_agents s)) as [a|] eqn:Fa; [|intros _; apply HC_fail; auto].
  destruct (find_mkt mkid (s_markets s)); [|intros _; apply HC_fail; auto].
  intros HI. destruct H as [[Hh Hp] [C N]]. split; [exact HI|]. split; [|exact N].
  unfold emit. cbn. apply cb_ok_cb; auto. rewrite (find_agent_id' _ _ _ Fa), <- Hh. exact Fa.
Qed.
Lemma HC_boundary : forall s e, boundary_event e -> P s -> P (flush (write s e)).
Proof.
  intros s e He H. pose proof (HI_boundary a0 s e He (proj1 H)) as HI. destruct H as [_ [C N]].
  split; [exact HI|]. unfold flush, write. cbn. split; [|constructor].
  apply cb_ok_app; auto. unfold no_cb. apply Forall_rev. apply Forall_app. split; auto.
  constructor; auto. destruct e; simpl in He; try contradiction; reflexivity.
Qed.
Lemma logs_cb rs : forall s0, cb_ok a0 (s_trace s0) -> no_cb (s_pending s0) ->
  cb_ok a0 (s_trace (fold_left (fun s r => log_event s r []) rs s0)) /\
  no_cb (s_pending (fold_left (fun s r => log_event s r []) rs s0)).
Proof.
  induction rs as [|r rest IH]; simpl; intros s0 C N; auto. apply IH.
  - unfold log_event, write, emit. cbn. apply cb_ok_cons; auto.
  - unfold log_event, write, emit. cbn. apply Forall_app. split; auto.
Qed.
Lemma HC_accept_order : forall s mkid x ag mk buy p v ttlv m' rc tag,
  find_mkt mkid (s_markets s) = Some x -> add_order (mk_m x) ag mk buy p v ttlv = Ok (m', rc) ->
  P s -> P (do_accept_order s mkid x m' rc tag).
Proof.
  intros s mkid x ag mk buy p v ttlv m' rc tag Fx Ha H.
  pose proof (HI_accept_order a0 _ _ _ _ _ _ _ _ _ _ _ tag Fx Ha (proj1 H)) as HI. destruct H as [_ [C N]].
  split; [exact HI|]. unfold do_accept_order, log_event, write, emit. cbn. split; [apply cb_ok_cons; auto|apply Forall_app; split; auto].
Qed.
Lemma HC_accept_cancel : forall s mkid x i m' rc,
  find_mkt mkid (s_markets s) = Some x -> cancel_order (mk_m x) i = Ok (m', rc) -> P s -> P (do_accept_cancel s mkid m' rc).
Proof.
  intros s mkid x i m' rc Fx Hc H. pose proof (HI_accept_cancel a0 _ _ _ _ _ _ Fx Hc (proj1 H)) as HI. destruct H as [_ [C N]].
  split; [exact HI|]. unfold do_accept_cancel, log_event, write, emit. cbn. split; [apply cb_ok_cons; auto|apply Forall_app; split; auto].
Qed.
Lemma HC_round : forall s mkid x, find_mkt mkid (s_markets s) = Some x -> cur_switch s = true ->
  P s -> P (emit s (EvRound mkid (m_running (mk_m x)) (s_cur s))).
Proof. intros s mkid x Fx Sw H. apply hcb_emit; auto. apply HI_round; auto. apply H. Qed.
Lemma HC_fills : forall s mkid x m' logs,
  find_mkt mkid (s_markets s) = Some x -> execution (mk_m x) = Ok (m', logs) -> cur_switch s = true ->
  (exists tr, s_trace s = EvRound mkid (m_running (mk_m x)) (s_cur s) :: tr) -> P s -> P (do_fills s mkid m' logs).
Proof.
  intros s mkid x m' logs Fx He Sw Tr H. pose proof (HI_fills a0 _ _ _ _ _ Fx He Sw Tr (proj1 H)) as HI. destruct H as [_ [C N]].
  split; [exact HI|]. unfold do_fills. cbn [s_trace s_pending set].
  apply (logs_cb logs (set_market s mkid m')); auto.
Qed.
Lemma HC_tick_all : forall s, P s -> P (tick_all s).
Proof.
  apply tick_all_pres.
  - apply HC_fail.
  - intros s x f m' recs Fx Ht H. split.
    + assert (Q : forall s0, hold_inv a0 s0 -> hold_inv a0 (do_tick s0 (m_id (mk_m x)) m' recs)).
      { intros s0 H0. unfold do_tick. apply hold_inv_log_events_nonfill; [eapply tick_records_kind; eauto|].
        eapply hold_inv_ext; [| | |exact H0]; reflexivity. }
      apply Q. apply H.
    + destruct H as [_ [C N]]. unfold do_tick. apply (logs_cb recs (set_market s (m_id (mk_m x)) m')); auto.
Qed.
Lemma HC_pop_perm : forall s, P s -> P (fst (pop_perm s)).
Proof. intros s H. destruct (pop_perm_fields s) as [T [Pd _]]. apply (hcb_same a0 s); auto. apply HI_pop_perm, H. Qed.
Lemma HC_pop_draw : forall s, P s -> P (fst (pop_draw s)).
Proof. intros s H. destruct (pop_draw_fields s) as [T [Pd _]]. apply (hcb_same a0 s); auto. apply HI_pop_draw, H. Qed.
Lemma HC_consult : forall s aid, P s -> P (fst (consult s aid)).
Proof.
  intros s aid H. pose proof (HI_consult a0 s aid (proj1 H)) as HI. revert HI.
  unfold consult. destruct (s_batches s) as [|[a b] r]; simpl; [intros _; apply HC_fail; auto|].
  destruct (a =? aid); simpl; [|intros _; apply HC_fail; auto].
  intros HI. apply hcb_emit; auto.
Qed.
Lemma HC_spent : forall s eid, P s -> P (s <| s_events := upd_event eid (fun e => e <| es_spent := true |>) (s_events s) |>).
Proof. intros s eid H. apply (hcb_same a0 s); auto. apply HI_spent, H. Qed.
Lemma HC_halt_after : forall s e mkid, In e (s_events s) -> round_ctx mkid s -> P s -> P (halt_after_execution s e mkid).
Proof. intros s e mkid I C H. destruct (halt_after_fields s e mkid) as [T [Pd _]]. apply (hcb_same a0 s); auto. apply HI_halt_after; auto. apply H. Qed.
Lemma HC_halt_before : forall s e x, In e (s_events s) -> find_mkt (m_id (mk_m x)) (s_markets s) = Some x -> P s -> P (halt_before_step s e x).
Proof. intros s e x I F H. destruct (halt_before_fields s e x) as [T [Pd _]]. apply (hcb_same a0 s); auto. apply HI_halt_before; auto. apply H. Qed.
Lemma HC_shock : forall s e x, find_mkt (m_id (mk_m x)) (s_markets s) = Some x -> P s -> P (shock_before_step s e x).
Proof. intros s e x F H. destruct (shock_fields s e x) as [T [Pd _]]. apply (hcb_same a0 s); auto. apply HI_shock; auto. apply H. Qed.
Lemma HC_set_cur : forall s sid, P s -> P (s <| s_cur := sid |>).
Proof. intros s sid H. apply (hcb_same a0 s); auto. apply HI_set_cur, H. Qed.
Lemma HC_begin_iteration : forall s, P s -> P (begin_iteration s).
Proof. intros s H. apply (hcb_same a0 s); auto. apply HI_begin_iteration, H. Qed.
End Steps.

Theorem hcb_run c tape batches funds : hcb (s_agents (init_sim c tape batches funds)) (run c tape batches funds).
Proof.
  set (a0 := s_agents (init_sim c tape batches funds)).
  apply (run_pres (hcb a0) (HC_fail a0) (HC_emit a0) (HC_callback a0) (HC_step a0) (HC_boundary a0) (HC_accept_order a0) (HC_accept_cancel a0)
           (HC_round a0) (HC_fills a0) (HC_tick_all a0) (HC_pop_perm a0) (HC_pop_draw a0) (HC_consult a0) (HC_spent a0)
           (HC_halt_after a0) (HC_halt_before a0) (HC_shock a0) (HC_set_cur a0) (HC_begin_iteration a0)).
  split; [|split].
  - unfold hold_inv, no_truth, init_sim. cbn. auto.
  - intros pre a k r hold sw run post E. unfold init_sim in E. cbn in E. destruct pre; discriminate.
  - constructor.
Qed.

(* WHAT AN AGENT SEES WHEN CALLED BACK.  In any run (finished, failed or cut anywhere), for every callback: the holdings handed
   to the agent are its endowment folded, in order, with every fill born before that callback. *)
Theorem callbacks_carry_updated_holdings c tape batches funds :
  let s := run c tape batches funds in
  let a0 := s_agents (init_sim c tape batches funds) in
  forall before a k r hold sw run after, events_of s = before ++ EvCallback a k r hold sw run :: after ->
    exists ag, find_agent a (fold_left apply_fill_holdings (fills before) a0) = Some ag /\ hold = holdings_ov ag.
Proof.
  intros s a0 before a k r hold sw run after E. destruct (hcb_run c tape batches funds) as [_ [C _]].
  unfold events_of in E. assert (T : s_trace s = rev after ++ EvCallback a k r hold sw run :: rev before).
  { rewrite <- (rev_involutive (s_trace s)), E, rev_app_distr. simpl. rewrite <- app_assoc. reflexivity. }
  destruct (C _ _ _ _ _ _ _ _ T) as [ag [F H]]. rewrite rev_involutive in F. exists ag. auto.
Qed.
