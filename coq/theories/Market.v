(* Level M: one market (pams/market.py + pams/order_book.py), executable, exact rationals.
   The book is the priority-sorted list (abstraction of the heapq array, DESIGN 3.2). *)
Require Import Pams.Prelude Pams.Tick Pams.Match.
From RecordUpdate Require Import RecordSet.
Import RecordSetNotations.
Open Scope Z_scope.

Definition O := order Q.
Definition oltq : O -> O -> bool := olt Q qltb qeqb.
Definition fillq := fill Q.

(* ---------------- state ---------------- *)
Record market := mkM {
  m_id : Z; m_tick : Q; m_time : Z; m_running : bool; m_next : Z;
  m_buys : list O; m_sells : list O;
  m_mp : list (option Q); m_last : list (option Q); m_mid : list (option Q); m_fund : list (option Q);
  m_vol : list Z; m_turn : list Q; m_nbuy : list Z; m_nsell : list Z;
  m_gone : list O        (* orders that left the book, value at removal (cancel logs read them) *)
}.
#[export] Instance eta_market : Settable _ :=
  settable! mkM <m_id; m_tick; m_time; m_running; m_next; m_buys; m_sells;
                 m_mp; m_last; m_mid; m_fund; m_vol; m_turn; m_nbuy; m_nsell; m_gone>.

Definition chunk : Z := 100.

(* Market.__init__ + setup: time -1, market price list [initial] *)
Definition init_market (id : Z) (tick mp0 : Q) : market :=
  mkM id tick (-1) false 0 [] [] [Some mp0] [] [] [] [] [] [] [] [].

(* ---------------- records (logs) ---------------- *)
Inductive record :=
| ROrder (o : O)
| RCancel (o : O) (ctime : Z)
| RExec (mk time bagent sagent bid sid : Z) (p : Q) (v : Z)
| RExpire (o : O) (time : Z).

Definition ov_order_fields (o : O) : list ov :=
  [VZ (oid o); VZ (mkt o); VZ (placed o); VZ (agent o); VB (isbuy o); voq (price o); VZ (vol o); voz (ttl o)].
Definition ov_record (r : record) : ov :=
  match r with
  | ROrder o => VL (VZ 1 :: ov_order_fields o)
  | RCancel o c => VL (VZ 2 :: VZ c :: ov_order_fields o)
  | RExec mk t ba sa bi si p v => VL [VZ 3; VZ mk; VZ t; VZ ba; VZ sa; VZ bi; VZ si; VQ p; VZ v]
  | RExpire o t => VL (VZ 4 :: VZ t :: ov_order_fields o)
  end.

(* ---------------- book ---------------- *)
Fixpoint insert (o : O) (l : list O) : list O :=
  match l with
  | [] => [o]
  | x :: r => if oltq o x then o :: l else x :: insert o r
  end.
Fixpoint find_id (i : Z) (l : list O) : option O :=
  match l with [] => None | x :: r => if oid x =? i then Some x else find_id i r end.
Fixpoint remove_id (i : Z) (l : list O) : list O :=
  match l with [] => [] | x :: r => if oid x =? i then r else x :: remove_id i r end.
Definition with_vol (o : O) (v : Z) : O :=
  mkO (oid o) (agent o) (mkt o) (isbuy o) (price o) v (placed o) (ttl o).
Fixpoint set_vol (i v : Z) (l : list O) : list O :=
  match l with [] => [] | x :: r => if oid x =? i then with_vol x v :: r else x :: set_vol i v r end.

Definition best_price (l : list O) : option Q := match l with [] => None | x :: _ => price x end.
Definition best_id (l : list O) : option Z := match l with [] => None | x :: _ => Some (oid x) end.

Definition expired (t : Z) (o : O) : bool :=
  match ttl o with None => false | Some k => placed o + k <? t end.

(* ---------------- series ---------------- *)
Definition zi (t : Z) : nat := Z.to_nat t.
Definition pad {A} (l : list A) (n : nat) (d : A) : list A := l ++ repeat d (n - length l).
Definition geto {A} (l : list (option A)) (t : Z) : option A := nth (zi t) l None.
Definition getz (l : list Z) (t : Z) : Z := nth (zi t) l 0.
Definition getq (l : list Q) (t : Z) : Q := nth (zi t) l (0#1).

Definition fill_until (m : market) (t : Z) : market :=
  if Z.of_nat (length (m_mid m)) >=? t + 1 then m
  else
    let n := Z.to_nat ((t / chunk + 1) * chunk) in
    m <| m_mp := pad (m_mp m) n None |> <| m_mid := pad (m_mid m) n None |>
      <| m_last := pad (m_last m) n None |> <| m_fund := pad (m_fund m) n None |>
      <| m_vol := pad (m_vol m) n 0 |> <| m_turn := pad (m_turn m) n (0#1) |>
      <| m_nbuy := pad (m_nbuy m) n 0 |> <| m_nsell := pad (m_nsell m) n 0 |>.

(* Market._update_market_price *)
Definition update_market_price (m : market) : market :=
  let t := m_time m in
  let mid := match best_price (m_buys m), best_price (m_sells m) with
             | Some b, Some s => Some (qdiv (qadd s b) (2#1))
             | _, _ => None
             end in
  let m1 := m <| m_mid := upd (m_mid m) (zi t) mid |> in
  if m_running m1 then
    match geto (m_last m1) t with
    | Some l => m1 <| m_mp := upd (m_mp m1) (zi t) (Some l) |>
    | None => match mid with
              | Some x => m1 <| m_mp := upd (m_mp m1) (zi t) (Some x) |>
              | None => m1
              end
    end
  else m1.

(* ---------------- clock: Market._update_time ---------------- *)
(* expired orders are reported in the order of expire_time_list appends, i.e. by order id *)
Fixpoint ins_by_id (o : O) (l : list O) : list O :=
  match l with
  | [] => [o]
  | x :: r => if oid o <? oid x then o :: l else x :: ins_by_id o r
  end.
Definition by_id (l : list O) : list O := fold_right ins_by_id [] l.
Definition tick (m : market) (f : Q) : market * list record :=
  let t := m_time m + 1 in
  let eb := filter (expired t) (m_buys m) in
  let es := filter (expired t) (m_sells m) in
  let eb := by_id eb in let es := by_id es in
  let m := m <| m_time := t |>
             <| m_buys := filter (fun o => negb (expired t o)) (m_buys m) |>
             <| m_sells := filter (fun o => negb (expired t o)) (m_sells m) |>
             <| m_gone := m_gone m ++ eb ++ es |> in
  let m := fill_until m t in
  let m := m <| m_fund := upd (m_fund m) (zi t) (Some f) |> in
  let m :=
    if t >? 0 then
      let m := m <| m_last := upd (m_last m) (zi t) (geto (m_last m) (t - 1)) |>
                 <| m_mid := upd (m_mid m) (zi t) (geto (m_mid m) (t - 1)) |>
                 <| m_mp := upd (m_mp m) (zi t) (geto (m_mp m) (t - 1)) |> in
      if m_running m then
        match geto (m_last m) (t - 1) with
        | Some l => m <| m_mp := upd (m_mp m) (zi t) (Some l) |>
        | None => match geto (m_mid m) (t - 1) with
                  | Some x => m <| m_mp := upd (m_mp m) (zi t) (Some x) |>
                  | None => m
                  end
        end
      else m
    else
      match geto (m_mp m) t with
      | None => m <| m_mp := upd (m_mp m) (zi t) (Some f) |>
      | Some _ => m
      end in
  (m, map (fun o => RExpire o t) (eb ++ es)).

(* ---------------- Market._add_order ---------------- *)
Definition add_order (m : market) (ag mk : Z) (buy : bool) (p : option Q) (v : Z) (ttlv : option Z)
  : result (market * record) :=
  if m_time m <? 0 then Err EBeforeStart else
  if negb (mk =? m_id m) then Err ENotThisMarket else
  let p' := match p with Some x => Some (round_price (m_tick m) buy x) | None => None end in
  let t := m_time m in
  let o := mkO (m_next m) ag mk buy p' v t ttlv in
  let m := m <| m_next := m_next m + 1 |> in
  let m := if buy then m <| m_buys := insert o (m_buys m) |> else m <| m_sells := insert o (m_sells m) |> in
  let m := update_market_price m in
  let m := if buy then m <| m_nbuy := upd (m_nbuy m) (zi t) (getz (m_nbuy m) t + 1) |>
           else m <| m_nsell := upd (m_nsell m) (zi t) (getz (m_nsell m) t + 1) |> in
  Ok (m, ROrder o).

(* ---------------- Market._cancel_order (by accepted order id) ---------------- *)
Definition cancel_order (m : market) (i : Z) : result (market * record) :=
  if m_time m <? 0 then Err EBeforeStart else
  match find_id i (m_buys m), find_id i (m_sells m) with
  | Some o, _ =>
      let m := m <| m_buys := remove_id i (m_buys m) |> <| m_gone := m_gone m ++ [o] |> in
      Ok (update_market_price m, RCancel o (m_time m))
  | None, Some o =>
      let m := m <| m_sells := remove_id i (m_sells m) |> <| m_gone := m_gone m ++ [o] |> in
      Ok (update_market_price m, RCancel o (m_time m))
  | None, None =>
      match find_id i (m_gone m) with
      | Some o => Ok (update_market_price m, RCancel o (m_time m))
      | None => Err ENotSubmitted
      end
  end.

(* ---------------- Market.remain_executable_orders ---------------- *)
Definition market_volume (l : list O) : Z :=
  fold_right (fun (o : O) a => match price o with None => vol o + a | Some _ => a end) 0 l.
Fixpoint dedupq (l : list Q) : list Q :=
  match l with
  | [] => []
  | x :: r => if existsb (qeqb x) r then dedupq r else x :: dedupq r
  end.
Definition limit_prices (l : list O) : list Q :=
  fold_right (fun (o : O) a => match price o with Some p => p :: a | None => a end) [] l.
Definition levels (l : list O) : list Q := dedupq (limit_prices l).
Definition qmin_list (l : list Q) : option Q :=
  fold_right (fun x a => match a with None => Some x | Some y => Some (if qltb x y then x else y) end) None l.
Definition qmax_list (l : list Q) : option Q :=
  fold_right (fun x a => match a with None => Some x | Some y => Some (if qltb y x then x else y) end) None l.

Definition executable_b (buys sells : list O) : bool :=
  match sells, buys with
  | [], _ => false
  | _, [] => false
  | s :: _, b :: _ =>
      match price s, price b with
      | Some ps, Some pb => qleb ps pb
      | Some _, None => true
      | None, Some _ => true
      | None, None =>
          let sm := market_volume sells in
          let bm := market_volume buys in
          let sl := levels sells in
          let bl := levels buys in
          if negb (sm =? bm) then
            if sm <? bm then Z.of_nat (length sl) >=? bm - sm
            else Z.of_nat (length bl) >=? sm - bm
          else
            match qmin_list sl, qmax_list bl with
            | Some a, Some b => qleb a b
            | _, _ => false
            end
      end
  end.
Definition executable (m : market) : bool := executable_b (m_buys m) (m_sells m).

(* ---------------- Market._execute_orders for one pending pair ---------------- *)
Definition dec_vol (i v : Z) (l gone : list O) : result (list O * list O) :=
  match find_id i l with
  | None => Err EIndex
  | Some o =>
      let nv := vol o - v in
      if nv =? 0 then Ok (remove_id i l, gone ++ [with_vol o 0])
      else if nv <? 0 then Err EAssertNegVolume
      else Ok (set_vol i nv l, gone)
  end.

Definition apply_fill (p : Q) (m : market) (f : fillq) : result (market * record) :=
  match f with
  | Fill v b s =>
      if negb (m_running m) then Err EAssertNotRunning else
      if v <=? 0 then Err EAssertWalk else
      do (bs, g1) <- dec_vol (oid b) v (m_buys m) (m_gone m);
      do (ss, g2) <- dec_vol (oid s) v (m_sells m) g1;
      let t := m_time m in
      let m := m <| m_buys := bs |> <| m_sells := ss |> <| m_gone := g2 |>
                 <| m_last := upd (m_last m) (zi t) (Some p) |>
                 <| m_vol := upd (m_vol m) (zi t) (getz (m_vol m) t + v) |>
                 <| m_turn := upd (m_turn m) (zi t) (qadd (getq (m_turn m) t) (qmul (qofz v) p)) |> in
      Ok (update_market_price m, RExec (m_id m) t (agent b) (agent s) (oid b) (oid s) p v)
  end.

Fixpoint apply_fills (p : Q) (m : market) (fs : list fillq) : result (market * list record) :=
  match fs with
  | [] => Ok (m, [])
  | f :: r => do (m1, x) <- apply_fill p m f;
              do (m2, xs) <- apply_fills p m1 r;
              Ok (m2, x :: xs)
  end.

Definition walk_fuel (m : market) : nat := S (S (length (m_buys m) + length (m_sells m))).
Definition run_walk (m : market) : option Q * list fillq :=
  walk Q qltb (walk_fuel m) None None (m_buys m) (m_sells m) None [].

(* ---------------- Market._execution ---------------- *)
Definition execution (m : market) : result (market * list record) :=
  if negb (executable m) then Ok (m, []) else
  match run_walk m with
  | (None, _) => Err EAssertPrice
  | (Some p, fs) =>
      do (m', logs) <- apply_fills p m fs;
      if executable m' then Err EAssertPost else Ok (m', logs)
  end.

(* ---------------- queries ---------------- *)
Fixpoint sort_q (asc : bool) (l : list Q) : list Q :=
  match l with
  | [] => []
  | x :: r =>
      (fix ins (l : list Q) := match l with
                               | [] => [x]
                               | y :: r' => if (if asc then qltb x y else qltb y x) then x :: l else y :: ins r'
                               end) (sort_q asc r)
  end.
Definition depth (is_buy : bool) (l : list O) : list ov :=
  let lv := sort_q (negb is_buy) (levels l) in
  let sum_at := fun k => fold_right (fun (o : O) a => match price o with
                                                       | Some p => if qeqb p k then vol o + a else a
                                                       | None => a end) 0 l in
  let lim := map (fun k => VL [VQ k; VZ (sum_at k)]) lv in
  if existsb (fun o : O => match price o with None => true | Some _ => false end) l
  then VL [VN; VZ (market_volume l)] :: lim else lim.

Definition ov_book (l : list O) : ov := VL (map (fun o : O => VL [VZ (oid o); VZ (vol o)]) l).

Definition q_state (m : market) : ov :=
  let t := m_time m in
  VL [VZ t; VB (m_running m); voz (best_id (m_buys m)); voz (best_id (m_sells m));
      voq (best_price (m_buys m)); voq (best_price (m_sells m));
      ov_book (m_buys m); ov_book (m_sells m);
      VL (depth true (m_buys m)); VL (depth false (m_sells m));
      voq (geto (m_mp m) t); voq (geto (m_mid m) t); voq (geto (m_last m) t); voq (geto (m_fund m) t);
      VZ (getz (m_vol m) t); VQ (getq (m_turn m) t); VZ (getz (m_nbuy m) t); VZ (getz (m_nsell m) t);
      VB true   (* representation invariant of the implementation's heaps (the model's book is the sorted list) *)].

Definition sumz_to (l : list Z) (t : Z) : Z := fold_right Z.add 0 (firstn (S (zi t)) l).
Definition sumq_to (l : list Q) (t : Z) : Q := fold_right qadd (0#1) (firstn (S (zi t)) l).
Definition vwap (m : market) (t : Z) : option Q :=
  if sumz_to (m_vol m) t =? 0 then None else Some (qdiv (sumq_to (m_turn m) t) (qofz (sumz_to (m_vol m) t))).

(* singular getters at time t (None -> the current time) *)
Definition q_at (m : market) (t : Z) : ov :=
  if t >? m_time m then verr EFuture else
  VL [voq (geto (m_mp m) t); voq (geto (m_mid m) t); voq (geto (m_last m) t); voq (geto (m_fund m) t);
      VZ (getz (m_vol m) t); VQ (getq (m_turn m) t); VZ (getz (m_nbuy m) t); VZ (getz (m_nsell m) t);
      voa (vwap m t)].

Definition seq_z (n : nat) : list Z := map Z.of_nat (seq 0 n).
(* plural getters with times=None: everything from 0 to now *)
Definition q_series (m : market) : ov :=
  let ts := seq_z (S (zi (m_time m))) in
  if m_time m <? 0 then VL [] else
  VL [VL (map (fun t => voq (geto (m_mp m) t)) ts); VL (map (fun t => voq (geto (m_mid m) t)) ts);
      VL (map (fun t => voq (geto (m_last m) t)) ts); VL (map (fun t => voq (geto (m_fund m) t)) ts);
      VL (map (fun t => VZ (getz (m_vol m) t)) ts); VL (map (fun t => VQ (getq (m_turn m) t)) ts);
      VL (map (fun t => VZ (getz (m_nbuy m) t)) ts); VL (map (fun t => VZ (getz (m_nsell m) t)) ts)].

(* plural getters with an explicit list of times: refused as soon as one requested time lies in the future *)
Definition q_times (m : market) (ts : list Z) : ov :=
  if existsb (fun t => t >? m_time m) ts then verr EFuture else
  VL [VL (map (fun t => voq (geto (m_mid m) t)) ts); VL (map (fun t => voq (geto (m_last m) t)) ts);
      VL (map (fun t => VZ (getz (m_vol m) t)) ts); VL (map (fun t => VQ (getq (m_turn m) t)) ts);
      VL (map (fun t => VZ (getz (m_nbuy m) t)) ts); VL (map (fun t => VZ (getz (m_nsell m) t)) ts)].

(* ---------------- operations of the Level-M interface ---------------- *)
Inductive op :=
| OAdd (ag mk : Z) (buy : bool) (p : option Q) (v : Z) (ttlv : option Z)
| OResubmit (i : Z)            (* submit again the object accepted as order i *)
| OCancel (i : Z)
| OCancelForeign               (* cancel whose order names another market *)
| OCancelUnsubmitted           (* cancel of an order never submitted *)
| OExec
| OTick (f : Q)
| ORun (b : bool)
| QState
| QAt (t : Z)
| QSeries
| QTimes (ts : list Z).     (* plural getters with an explicit list of times *)

(* state-changing operations: new state and the records (logs) they emit *)
Definition step_rec (m : market) (o : op) : result (market * list record) :=
  match o with
  | OAdd ag mk buy p v ttlv => do (m', r) <- add_order m ag mk buy p v ttlv; Ok (m', [r])
  | OResubmit _ => Err EAlreadySubmitted
  | OCancel i => do (m', r) <- cancel_order m i; Ok (m', [r])
  | OCancelForeign => Err ENotThisMarket
  | OCancelUnsubmitted => Err ENotSubmitted
  | OExec => execution m
  | OTick f => Ok (tick m f)
  | ORun b => Ok (m <| m_running := b |>, [])
  | QState | QAt _ | QSeries | QTimes _ => Ok (m, [])
  end.

Definition render (m : market) (o : op) (rs : list record) : ov :=
  match o with
  | OAdd _ _ _ _ _ _ | OCancel _ => match rs with [r] => ov_record r | _ => VL (map ov_record rs) end
  | OExec | OTick _ => VL (map ov_record rs)
  | QState => q_state m
  | QAt t => q_at m t
  | QSeries => q_series m
  | QTimes ts => q_times m ts
  | _ => VN
  end.

Definition step (m : market) (o : op) : result (market * ov) :=
  do (m', rs) <- step_rec m o; Ok (m', render m' o rs).

(* A rejected operation leaves the state as it was (true of every Python raise site that the
   model maps to Err: each check precedes the first mutation). *)
Fixpoint run_ops (m : market) (ops : list op) : list ov :=
  match ops with
  | [] => []
  | o :: r => match step m o with
              | Ok (m', x) => x :: run_ops m' r
              | Err e => verr e :: run_ops m r
              end
  end.

Fixpoint final_state (m : market) (ops : list op) : market :=
  match ops with
  | [] => m
  | o :: r => match step m o with Ok (m', _) => final_state m' r | Err _ => final_state m r end
  end.

(* all records emitted along an operation list (rejected operations emit nothing) *)
Fixpoint trace (m : market) (ops : list op) : list record :=
  match ops with
  | [] => []
  | o :: r => match step_rec m o with Ok (m', rs) => rs ++ trace m' r | Err _ => trace m r end
  end.

(* one correspondence case: market id, tick, initial price, ops *)
Definition run_case (c : Z * Q * Q * list op) : ov :=
  let '(id, tk, mp0, ops) := c in VL (run_ops (init_market id tk mp0) ops).
