(* C12 (algebra over the reals): positivity, the zero-volatility path, and continuation across generation chunks.
   Depends on the standard library's real-number axioms (listed by Print Assumptions). *)
From Coq Require Import Reals Lra List.
Import ListNotations.
Open Scope R_scope.

(* a fundamental price is the last kept price times exp of a cumulative log-return: always strictly positive *)
Theorem price_positive p0 s : 0 < p0 -> 0 < p0 * exp s.
Proof. intros H. apply Rmult_lt_0_compat; auto. apply exp_pos. Qed.

Fixpoint sumR (l : list R) : R := match l with [] => 0 | x :: r => x + sumR r end.

Lemma sumR_repeat d n : sumR (repeat d n) = d * INR n.
Proof.
  induction n as [|n IH]; [simpl; lra|]. change (repeat d (S n)) with (d :: repeat d n).
  cbn [sumR]. rewrite IH, S_INR. lra.
Qed.

(* zero volatility: every log-return is the drift, and the path is exactly initial x exp(drift x t) *)
Theorem zero_volatility_path p0 d t : p0 * exp (sumR (repeat d t)) = p0 * exp (d * INR t).
Proof. rewrite sumR_repeat. reflexivity. Qed.

Lemma sumR_app a b : sumR (a ++ b) = sumR a + sumR b.
Proof. induction a as [|x r IH]; simpl; [lra|rewrite IH; lra]. Qed.

(* regeneration continues the same path: generating from the last kept price p0 exp(S1) with further log-returns S2 gives
   p0 exp(S1 + S2) - chunk boundaries (100, 200, ...) and regeneration points are invisible in the values *)
Theorem regeneration_continues_the_path p0 l1 l2 : (p0 * exp (sumR l1)) * exp (sumR l2) = p0 * exp (sumR (l1 ++ l2)).
Proof. rewrite sumR_app, exp_plus. lra. Qed.

(* the per-step log-return is recovered from consecutive prices *)
Theorem log_return_of_consecutive_prices p0 s r : 0 < p0 -> ln ((p0 * exp (s + r)) / (p0 * exp s)) = r.
Proof.
  intros H. replace ((p0 * exp (s + r)) / (p0 * exp s)) with (exp r).
  - apply ln_exp.
  - rewrite exp_plus. field. split; [pose proof (exp_pos s); lra|lra].
Qed.

(* with L the Cholesky factor of the covariance (L L^T = Sigma, Sigma_ij = v_i C_ij v_j, C_ii = 1): row i of L has squared
   norm v_i^2 and rows i, j have inner product v_i C_ij v_j, i.e. r = L z + d has standard deviations v and correlations C
   for orthonormal z.  Stated for the entries (the linear-algebra identity the code relies on). *)
Fixpoint dot (a b : list R) : R := match a, b with x :: r, y :: s => x * y + dot r s | _, _ => 0 end.
Theorem cholesky_rows_give_vol_and_corr (Li Lj : list R) vi vj cij :
  dot Li Li = vi * 1 * vi -> dot Lj Lj = vj * 1 * vj -> dot Li Lj = vi * cij * vj -> 0 < vi -> 0 < vj ->
  sqrt (dot Li Li) = vi /\ sqrt (dot Lj Lj) = vj /\ dot Li Lj / (vi * vj) = cij.
Proof.
  intros Hi Hj Hij Pi Pj. repeat split.
  - rewrite Hi. replace (vi * 1 * vi) with (vi * vi) by lra. apply sqrt_square. lra.
  - rewrite Hj. replace (vj * 1 * vj) with (vj * vj) by lra. apply sqrt_square. lra.
  - rewrite Hij. field. lra.
Qed.
