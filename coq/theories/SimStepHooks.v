(* C13 (run level, second half): session hooks and market-step hooks of user-written events.  The stream of begin / end records
   of a run (SimMarks) interleaved with the calls of session and market-step hooks is determined by the configuration alone:
     per session:  its before-session hooks (time = the session's start), the session-begin record,
                   per step t:  for every market: its before-step hooks (time t, class / instance filter), the step-begin record;
                                (the order phase: no such call);
                                for every market: the step-end record, its after-step hooks;
                   its after-session hooks (time = start + steps - 1), the session-end record.
   Each hook list: hooks registered for every time, then those registered for this time, in registration order, each once. *)
Require Import Pams.Prelude Pams.Tick Pams.Match Pams.Market Pams.MatchQ Pams.MarketInv Pams.MarketSeries
               Pams.Sim Pams.SimLift Pams.SimInv Pams.SimClock Pams.SimMarks Pams.SimHooks.
From RecordUpdate Require Import RecordSet.
Import RecordSetNotations.
Open Scope Z_scope.

(* ---------------- the projected stream ---------------- *)
Inductive tok := TMark (m : mark) | TProbe (ev : Z) (k : hkind) (before : bool) (mk : Z).
Definition tok_of (e : event) : list tok :=
  match e with
  | EvProbe ev k before _ mk _ => if order_phase k then [] else [TProbe ev k before mk]
  | _ => map TMark (mark_of e)
  end.
Definition toks (l : list event) : list tok := flat_map tok_of l.
Local Arguments toks : simpl never.
Lemma toks_app a b : toks (a ++ b) = toks a ++ toks b. Proof. apply flat_map_app. Qed.
Lemma toks_one e : toks [e] = tok_of e. Proof. unfold toks. simpl. apply app_nil_r. Qed.

Definition wrote2 (M : list tok) (s : sim) : Prop :=
  toks (s_pending s) = [] /\ (ok s = true -> toks (events_of s) = M).

Lemma wrote2_notok M M' s : ok s = false -> wrote2 M s -> wrote2 M' s.
Proof. intros O [Pd _]. split; auto. intros C. congruence. Qed.
Lemma wrote2_same M s s' : s_trace s' = s_trace s -> s_pending s' = s_pending s -> s_err s' = s_err s -> wrote2 M s -> wrote2 M s'.
Proof. unfold wrote2, events_of, ok. intros -> -> ->. auto. Qed.
Lemma wrote2_keeps M s s' : s_trace s' = s_trace s -> s_pending s' = s_pending s -> keeps s s' -> wrote2 M s -> wrote2 M s'.
Proof. unfold wrote2, events_of. intros -> -> [_ O] [Pd H]. split; auto. Qed.
Lemma wrote2_fail M s e : wrote2 M s -> wrote2 M (fail s e).
Proof.
  intros [Pd _]. split.
  - destruct (fail_fields s e) as [_ [-> _]]. exact Pd.
  - intros C. exfalso. unfold fail, ok in C. destruct (s_err s) eqn:E; cbn in C; rewrite ?E in C; discriminate.
Qed.
Lemma wrote2_emit M s e : wrote2 M s -> wrote2 (M ++ tok_of e) (emit s e).
Proof.
  unfold wrote2, events_of, emit, ok. cbn. intros [Pd H]. split; auto. intros C.
  rewrite toks_app, toks_one. f_equal. apply H. exact C.
Qed.
Lemma wrote2_emit0 M s e : tok_of e = [] -> wrote2 M s -> wrote2 M (emit s e).
Proof. intros E H. pose proof (wrote2_emit M s e H) as G. rewrite E, app_nil_r in G. exact G. Qed.
Lemma wrote2_log M s r extra : wrote2 M s -> wrote2 M (log_event s r extra).
Proof.
  unfold wrote2, events_of, log_event, write, emit, ok. cbn. intros [Pd H]. split.
  - rewrite toks_app, Pd, toks_one. reflexivity.
  - intros C. rewrite toks_app, toks_one. cbn [tok_of mark_of map]. rewrite app_nil_r. apply H. exact C.
Qed.
Lemma wrote2_logs M rs : forall s, wrote2 M s -> wrote2 M (fold_left (fun s r => log_event s r []) rs s).
Proof. induction rs as [|r rest IH]; simpl; intros s H; auto. apply IH. apply wrote2_log. exact H. Qed.
Lemma wrote2_boundary M s e : wrote2 M s -> wrote2 (M ++ tok_of e) (flush (write s e)).
Proof.
  unfold wrote2, events_of, flush, write, ok. cbn. intros [Pd H]. split; [reflexivity|]. intros C.
  rewrite rev_app_distr, !rev_involutive, !toks_app, Pd, toks_one. cbn [app]. f_equal. apply H. exact C.
Qed.

(* ---------------- the order phase and the clock make no such call and write no such record ---------------- *)
Section Frame2.
Variable M : list tok.
Let P := wrote2 M.
Lemma V_fail : forall s e, plain_err e = true -> P s -> P (fail s e). Proof. intros s e _. apply wrote2_fail. Qed.
Lemma V_fail_exec : forall s mkid x e,
  find_mkt mkid (s_markets s) = Some x -> cur_switch s = true -> execution (mk_m x) = Err e ->
  P (emit s (EvRound mkid (m_running (mk_m x)) (s_cur s))) -> P (fail (emit s (EvRound mkid (m_running (mk_m x)) (s_cur s))) e).
Proof. intros s mkid x e _ _ _. apply wrote2_fail. Qed.
Lemma V_probe_o : forall s ev k before mkid extra, order_phase k = true -> P s -> P (emit s (ev_probe s ev k before mkid extra)).
Proof. intros s ev k before mkid extra Hk. apply wrote2_emit0. cbn [ev_probe tok_of]. rewrite Hk. reflexivity. Qed.
Lemma V_callback : forall s aid kind r mkid, P s -> P (callback s aid kind r mkid).
Proof.
  intros s aid kind r mkid H. unfold callback. destruct (find_agent aid (s_agents s)); [|apply wrote2_fail; auto].
  destruct (find_mkt mkid (s_markets s)); [|apply wrote2_fail; auto]. apply wrote2_emit0; auto.
Qed.
Lemma V_accept_order : forall s mkid x ag mk buy p v ttlv m' rc tag,
  find_mkt mkid (s_markets s) = Some x -> add_order (mk_m x) ag mk buy p v ttlv = Ok (m', rc) ->
  P s -> P (do_accept_order s mkid x m' rc tag).
Proof. intros s mkid x ag mk buy p v ttlv m' rc tag _ _ H. unfold do_accept_order. apply wrote2_log. revert H. apply wrote2_same; reflexivity. Qed.
Lemma V_accept_cancel : forall s mkid x i m' rc,
  find_mkt mkid (s_markets s) = Some x -> cancel_order (mk_m x) i = Ok (m', rc) -> P s -> P (do_accept_cancel s mkid m' rc).
Proof. intros s mkid x i m' rc _ _ H. unfold do_accept_cancel. apply wrote2_log. revert H. apply wrote2_same; reflexivity. Qed.
Lemma V_round : forall s mkid x, find_mkt mkid (s_markets s) = Some x -> cur_switch s = true ->
  P s -> P (emit s (EvRound mkid (m_running (mk_m x)) (s_cur s))).
Proof. intros s mkid x _ _. apply wrote2_emit0. reflexivity. Qed.
Lemma V_fills : forall s mkid x m' logs,
  find_mkt mkid (s_markets s) = Some x -> execution (mk_m x) = Ok (m', logs) -> cur_switch s = true ->
  (exists tr, s_trace s = EvRound mkid (m_running (mk_m x)) (s_cur s) :: tr) -> P s -> P (do_fills s mkid m' logs).
Proof.
  intros s mkid x m' logs _ _ _ _ H. unfold do_fills.
  assert (H0 : wrote2 M (set_market s mkid m')) by (revert H; apply wrote2_same; reflexivity).
  pose proof (wrote2_logs M logs _ H0) as G. revert G. apply wrote2_same; reflexivity.
Qed.
Lemma V_tick_all : forall s, P s -> P (tick_all s).
Proof.
  apply tick_all_pres_e; [apply V_fail|].
  intros s x f m' recs _ _ H. unfold do_tick. apply wrote2_logs. revert H. apply wrote2_same; reflexivity.
Qed.
Lemma V_pop_perm : forall s, P s -> P (fst (pop_perm s)).
Proof. intros s. destruct (pop_perm_fields s) as [T [Pd _]]. apply wrote2_keeps; auto. apply keeps_pop_perm. Qed.
Lemma V_pop_draw : forall s, P s -> P (fst (pop_draw s)).
Proof. intros s. destruct (pop_draw_fields s) as [T [Pd _]]. apply wrote2_keeps; auto. apply keeps_pop_draw. Qed.
Lemma V_consult : forall s aid, P s -> P (fst (consult s aid)).
Proof.
  intros s aid H. unfold consult. destruct (s_batches s) as [|[a b] r]; simpl; [apply wrote2_fail; auto|].
  destruct (a =? aid); simpl; [|apply wrote2_fail; auto]. apply wrote2_emit0; auto.
Qed.
Lemma V_spent : forall s eid, P s -> P (s <| s_events := upd_event eid (fun e => e <| es_spent := true |>) (s_events s) |>).
Proof. intros s eid. apply wrote2_same; reflexivity. Qed.
Lemma V_halt_after : forall s e mkid, In e (s_events s) -> round_ctx mkid s -> P s -> P (halt_after_execution s e mkid).
Proof. intros s e mkid _ _. destruct (halt_after_fields s e mkid) as [T [Pd _]]. apply wrote2_keeps; auto. apply keeps_halt_after. Qed.

Lemma V_request : forall s r, P s -> P (handle_request s r).
Proof.
  apply (handle_request_k P V_fail V_fail_exec V_probe_o V_callback V_accept_order V_accept_cancel V_round V_fills V_spent V_halt_after).
Qed.
Lemma wrote2_update_markets s : P s -> P (update_markets s).
Proof. apply (update_markets_upk P V_fail V_pop_perm V_pop_draw V_consult V_request). Qed.
End Frame2.

(* ---------------- what a run never changes: hook table, event kinds, which markets exist and which are index markets ---------------- *)
Definition fixed (s s' : sim) : Prop := static s' = static s /\ skels s' = skels s.
Lemma fixed_refl s : fixed s s. Proof. split; reflexivity. Qed.
Lemma fixed_trans a b c : fixed a b -> fixed b c -> fixed a c.
Proof. intros [A1 A2] [B1 B2]. split; congruence. Qed.
Lemma fixed_same s s' : s_markets s' = s_markets s -> s_hooks s' = s_hooks s -> s_events s' = s_events s -> fixed s s'.
Proof. intros A B C. unfold fixed, static, kinds, skels. rewrite A, B, C. auto. Qed.
Lemma fixed_fail s e : fixed s (fail s e).
Proof. unfold fail. destruct (s_err s); [apply fixed_refl|apply fixed_same; reflexivity]. Qed.
Lemma fixed_set_market s i x m' : find_mkt i (s_markets s) = Some x -> m_id m' = m_id (mk_m x) -> fixed s (set_market s i m').
Proof.
  intros Fx Hid. split; [reflexivity|]. unfold skels, set_market. cbn. apply (upd_mkt_map skel).
  intros y Fy. rewrite Fx in Fy. inversion Fy; subst. unfold skel, mkid, is_index. cbn. rewrite Hid. reflexivity.
Qed.
Lemma fixed_events s f : (forall e, es_id (f e) = es_id e /\ es_kind (f e) = es_kind e) -> forall i,
  fixed s (s <| s_events := upd_event i f (s_events s) |>).
Proof. intros Hf i. split; [|reflexivity]. unfold static, kinds. cbn. f_equal. apply upd_event_kinds. exact Hf. Qed.
Lemma fixed_logs rs : forall s, fixed s (fold_left (fun s r => log_event s r []) rs s).
Proof.
  induction rs as [|r rest IH]; simpl; intros s; [apply fixed_refl|].
  eapply fixed_trans; [|apply IH]. apply fixed_same; reflexivity.
Qed.

Section Fixed.
Variable s0 : sim.
Let P (s : sim) : Prop := fixed s0 s.
Ltac via H := intros; unfold P in *; eapply fixed_trans; [eassumption|]; eapply H; eauto.
Lemma X_fail : forall s e, P s -> P (fail s e). Proof. via fixed_fail. Qed.
Lemma X_emit : forall s e, obs_event e -> P s -> P (emit s e).
Proof. intros; unfold P in *; eapply fixed_trans; [eassumption|]; apply fixed_same; reflexivity. Qed.
Lemma X_callback : forall s aid kind r mkid, P s -> P (callback s aid kind r mkid).
Proof. apply callback_from_emit; [apply X_fail|]. intros; unfold P in *; eapply fixed_trans; [eassumption|]; apply fixed_same; reflexivity. Qed.
Lemma X_step : forall s kind mkid x, find_mkt mkid (s_markets s) = Some x -> P s -> P (emit s (ev_step s kind x)).
Proof. intros; unfold P in *; eapply fixed_trans; [eassumption|]; apply fixed_same; reflexivity. Qed.
Lemma X_boundary : forall s e, boundary_event e -> P s -> P (flush (write s e)).
Proof. intros; unfold P in *; eapply fixed_trans; [eassumption|]; apply fixed_same; reflexivity. Qed.
Lemma X_accept_order : forall s mkid x ag mk buy p v ttlv m' rc tag,
  find_mkt mkid (s_markets s) = Some x -> add_order (mk_m x) ag mk buy p v ttlv = Ok (m', rc) ->
  P s -> P (do_accept_order s mkid x m' rc tag).
Proof.
  intros s mkid x ag mk buy p v ttlv m' rc tag Fx Ea H. unfold P in *. eapply fixed_trans; [exact H|].
  unfold do_accept_order. eapply fixed_trans; [eapply (fixed_set_market s mkid x m'); [exact Fx|eapply add_order_id; eauto]|].
  apply fixed_same; reflexivity.
Qed.
Lemma X_accept_cancel : forall s mkid x i m' rc,
  find_mkt mkid (s_markets s) = Some x -> cancel_order (mk_m x) i = Ok (m', rc) -> P s -> P (do_accept_cancel s mkid m' rc).
Proof.
  intros s mkid x i m' rc Fx Ec H. unfold P in *. eapply fixed_trans; [exact H|].
  unfold do_accept_cancel. eapply fixed_trans; [eapply (fixed_set_market s mkid x m'); [exact Fx|eapply cancel_order_id; eauto]|].
  apply fixed_same; reflexivity.
Qed.
Lemma X_round : forall s mkid x, find_mkt mkid (s_markets s) = Some x -> cur_switch s = true ->
  P s -> P (emit s (EvRound mkid (m_running (mk_m x)) (s_cur s))).
Proof. intros; unfold P in *; eapply fixed_trans; [eassumption|]; apply fixed_same; reflexivity. Qed.
Lemma X_fills : forall s mkid x m' logs,
  find_mkt mkid (s_markets s) = Some x -> execution (mk_m x) = Ok (m', logs) -> cur_switch s = true ->
  (exists tr, s_trace s = EvRound mkid (m_running (mk_m x)) (s_cur s) :: tr) -> P s -> P (do_fills s mkid m' logs).
Proof.
  intros s mkid x m' logs Fx Ex _ _ H. unfold P in *. eapply fixed_trans; [exact H|]. unfold do_fills.
  eapply fixed_trans; [eapply (fixed_set_market s mkid x m'); [exact Fx|eapply execution_id; eauto]|].
  eapply fixed_trans; [apply fixed_logs|]. apply fixed_same; reflexivity.
Qed.
Lemma X_tick_all : forall s, P s -> P (tick_all s).
Proof.
  apply tick_all_pres; [apply X_fail|].
  intros s x f m' recs Fx Et H. unfold P in *. eapply fixed_trans; [exact H|]. unfold do_tick.
  eapply fixed_trans; [eapply (fixed_set_market s _ x m'); [exact Fx|]|apply fixed_logs].
  pose proof (tick_id (mk_m x) f) as T. rewrite Et in T. exact T.
Qed.
Lemma X_pop_perm : forall s, P s -> P (fst (pop_perm s)).
Proof. intros s H. unfold pop_perm. destruct (s_tape s) as [|[l|q] r]; simpl; try (apply X_fail; auto). unfold P in *. eapply fixed_trans; [exact H|]. apply fixed_same; reflexivity. Qed.
Lemma X_pop_draw : forall s, P s -> P (fst (pop_draw s)).
Proof. intros s H. unfold pop_draw. destruct (s_tape s) as [|[l|q] r]; simpl; try (apply X_fail; auto). unfold P in *. eapply fixed_trans; [exact H|]. apply fixed_same; reflexivity. Qed.
Lemma X_consult : forall s aid, P s -> P (fst (consult s aid)).
Proof.
  intros s aid H. unfold consult. destruct (s_batches s) as [|[a b] r]; simpl; [apply X_fail; auto|].
  destruct (a =? aid); simpl; [|apply X_fail; auto]. unfold P in *. eapply fixed_trans; [exact H|]. apply fixed_same; reflexivity.
Qed.
Lemma X_spent : forall s eid, P s -> P (s <| s_events := upd_event eid (fun e => e <| es_spent := true |>) (s_events s) |>).
Proof. intros s eid H. unfold P in *. eapply fixed_trans; [exact H|]. apply fixed_events. intros e. split; reflexivity. Qed.
Lemma X_halt_after : forall s e mkid, In e (s_events s) -> round_ctx mkid s -> P s -> P (halt_after_execution s e mkid).
Proof.
  intros s e mkid _ _ H. unfold halt_after_execution. destruct (es_kind e); auto.
  destruct (find_mkt mkid (s_markets s)) as [x|] eqn:Fx; [|apply X_fail; auto].
  destruct (mprice_at x 0); [|apply X_fail; auto]. destruct (mprice_at x (mtime x)); [|apply X_fail; auto].
  destruct (negb _); auto. destruct (_ && _); auto.
  unfold P in *. eapply fixed_trans; [exact H|].
  eapply fixed_trans; [eapply (fixed_set_market s mkid x ((mk_m x) <| m_running := false |>)); [exact Fx|reflexivity]|].
  match goal with |- fixed ?a (?b <| s_events := upd_event ?i ?f (s_events ?c) |>) =>
    eapply fixed_trans; [|apply (fixed_events b f); intros e0; split; reflexivity] end.
  apply fixed_same; reflexivity.
Qed.
Lemma X_halt_before : forall s e x, In e (s_events s) -> find_mkt (m_id (mk_m x)) (s_markets s) = Some x -> P s -> P (halt_before_step s e x).
Proof.
  intros s e x _ Fx H. unfold halt_before_step. destruct (es_kind e); auto. destruct (_ && _); auto.
  destruct (es_halted e) as [[hm hs]|]; auto. destruct (negb (hm =? m_id (mk_m x))) eqn:E; auto.
  apply negb_false_iff, Z.eqb_eq in E. subst hm. unfold P in *. eapply fixed_trans; [exact H|].
  destruct (hs =? s_cur s).
  - eapply fixed_trans; [eapply (fixed_set_market s _ x ((mk_m x) <| m_running := true |>)); [exact Fx|reflexivity]|].
    match goal with |- fixed ?a (?b <| s_events := upd_event ?i ?f (s_events ?c) |>) =>
      eapply fixed_trans; [|apply (fixed_events b f); intros e0; split; reflexivity] end.
    apply fixed_same; reflexivity.
  - apply fixed_events. intros e0. split; reflexivity.
Qed.
Lemma X_shock : forall s e x, find_mkt (m_id (mk_m x)) (s_markets s) = Some x -> P s -> P (shock_before_step s e x).
Proof.
  intros s e x Fx H. unfold shock_before_step. destruct (es_kind e); auto.
  destruct (negb _); [apply X_fail; auto|].
  destruct (negb (m_id (mk_m x) =? target)) eqn:E; [apply X_fail; auto|]. apply negb_false_iff, Z.eqb_eq in E. subst target.
  destruct (geto _ _); [|apply X_fail; auto]. unfold P in *. eapply fixed_trans; [exact H|].
  match goal with |- fixed _ (set_market _ _ ?m) => eapply (fixed_set_market s _ x m); [exact Fx|reflexivity] end.
Qed.
Lemma X_set_cur : forall s sid, P s -> P (s <| s_cur := sid |>).
Proof. intros s sid H. unfold P in *. eapply fixed_trans; [exact H|]. apply fixed_same; reflexivity. Qed.
Lemma X_begin_iteration : forall s, P s -> P (begin_iteration s).
Proof.
  intros s H. unfold P in *. eapply fixed_trans; [exact H|]. split; [reflexivity|].
  unfold skels, begin_iteration. cbn. rewrite map_map. apply map_ext. intros x. reflexivity.
Qed.
End Fixed.

Lemma fixed_update_markets s : fixed s (update_markets s).
Proof.
  apply (update_markets_pres (fixed s) (X_fail s) (X_emit s) (X_callback s) (X_accept_order s) (X_accept_cancel s) (X_round s) (X_fills s)
           (X_pop_perm s) (X_pop_draw s) (X_consult s) (X_spent s) (X_halt_after s)). apply fixed_refl.
Qed.
Lemma fixed_fire_market s before mkid : fixed s (fire_market s before mkid).
Proof. apply (fire_market_pres (fixed s) (X_emit s) (X_halt_before s) (X_shock s)). apply fixed_refl. Qed.
Lemma fixed_fire_simple s k before t mkid extra : fixed s (fire_simple s k before t mkid extra).
Proof. apply (fire_simple_pres (fixed s) (X_emit s)). apply fixed_refl. Qed.
Lemma fixed_step_begin s i : fixed s (step_begin s i).
Proof. apply (step_begin_pres (fixed s) (X_emit s) (X_step s) (X_halt_before s) (X_shock s)). apply fixed_refl. Qed.
Lemma fixed_step_end s i : fixed s (step_end s i).
Proof. apply (step_end_pres (fixed s) (X_emit s) (X_step s) (X_halt_before s) (X_shock s)). apply fixed_refl. Qed.
Lemma fixed_tick_all s : fixed s (tick_all s).
Proof. apply (X_tick_all s). apply fixed_refl. Qed.
Lemma fixed_fold {A} (f : sim -> A -> sim) (l : list A) : (forall s x, fixed s (f s x)) -> forall s, fixed s (fold_left f l s).
Proof. intros H. induction l as [|a r IH]; simpl; intros s; [apply fixed_refl|]. eapply fixed_trans; [apply H|apply IH]. Qed.

(* ---------------- what the configuration calls for ---------------- *)
Fixpoint assocb (i : Z) (l : list (Z * bool)) : option bool :=
  match l with [] => None | (k, v) :: r => if k =? i then Some v else assocb i r end.

Section Expected2.
Variable H0 : list hook.
Variable K0 : list (Z * evkind).
Variable Sk0 : list (Z * bool).
Definition idx_of (mk : Z) : bool := match assocb mk Sk0 with Some b => b | None => false end.
Definition mflt (h : hook) (mk : Z) : bool :=
  (if h_index_only h then idx_of mk else true) && match h_inst h with None => true | Some i => i =? mk end.
Definition mprobes_l (before : bool) (mk : Z) (l : list hook) : list tok :=
  map (fun h => TProbe (h_ev h) HMarket before mk) (filter (fun h => isp K0 h && mflt h mk) l).
Definition mprobes (before : bool) (mk t : Z) : list tok := mprobes_l before mk (hooksl H0 HMarket before t).
Definition sprobes_l (before : bool) (l : list hook) : list tok :=
  map (fun h => TProbe (h_ev h) HSession before (-1)) (filter (isp K0) l).
Definition sprobes (before : bool) (t : Z) : list tok := sprobes_l before (hooksl H0 HSession before t).
End Expected2.

Lemma find_mkt_skel i l x : find_mkt i l = Some x -> assocb i (map skel l) = Some (is_index x).
Proof.
  induction l as [|y r IH]; simpl; [discriminate|]. unfold skel at 1, mkid. destruct (m_id (mk_m y) =? i) eqn:E.
  - intros H; inversion H; subst. reflexivity.
  - exact IH.
Qed.

Lemma keeps_find s s' i x : keeps s s' -> find_mkt i (s_markets s) = Some x -> exists x', find_mkt i (s_markets s') = Some x'.
Proof.
  intros K F. assert (Hin : In i (mids s')).
  { rewrite (keeps_mids _ _ K). unfold mids. pose proof (find_mkt_id _ _ _ F) as E. apply find_mkt_In' in F. apply in_map_iff. exists x. auto. }
  destruct (find_mkt_some_of_mid s' i Hin) as [x' [Fx' _]]. eauto.
Qed.

(* the session hooks *)
Lemma fire_session_toks before mkid extra (l : list hook) : forall s M,
  wrote2 M s ->
  wrote2 (M ++ map (fun h => TProbe (h_ev h) HSession before mkid) (filter (isp (kinds s)) l))
         (fold_left (fun s h => if ok s && is_probe s h then emit s (ev_probe s (h_ev h) HSession before mkid extra) else s) l s).
Proof.
  induction l as [|h r IH]; intros s M H; cbn [fold_left filter map].
  - rewrite app_nil_r. exact H.
  - destruct (ok s) eqn:O; cbn [andb].
    2:{ rewrite fold_not_ok; [|intros s0 x O0; rewrite O0; reflexivity|exact O]. eapply wrote2_notok; eauto. }
    rewrite is_probe_isp. destruct (isp (kinds s) h) eqn:Ih.
    + set (s1 := emit s (ev_probe s (h_ev h) HSession before mkid extra)).
      pose proof (wrote2_emit M s (ev_probe s (h_ev h) HSession before mkid extra) H) as H1. cbn [ev_probe tok_of order_phase] in H1.
      specialize (IH s1 _ H1). assert (Ks : kinds s1 = kinds s) by reflexivity. rewrite Ks in IH.
      cbn [map]. rewrite <- app_assoc in IH. exact IH.
    + exact (IH s M H).
Qed.

Section MarketHooks.
Variable H0 : list hook.
Variable K0 : list (Z * evkind).
Variable Sk0 : list (Z * bool).

(* the market-step hooks of one market: probes of user events whose class / instance filter accepts the market; the built-in
   events' own hooks (trading-halt resume, fundamental shock) act in between without any call or record *)
Lemma fire_market_toks before mkid (l : list hook) : forall s M,
  In mkid (mids s) -> kinds s = K0 -> skels s = Sk0 -> wrote2 M s ->
  wrote2 (M ++ mprobes_l K0 Sk0 before mkid l)
         (fold_left (fun s h =>
                 if negb (ok s) then s else
                 match find_mkt mkid (s_markets s), find_event (h_ev h) (s_events s) with
                 | Some x, Some e =>
                   if negb (market_filter h x) then s else
                   match es_kind e with
                   | KProbe _ => emit s (ev_probe s (h_ev h) HMarket before mkid [VZ (mtime x)])
                   | KHalt _ _ _ => if before then halt_before_step s e x else s
                   | KFundShock _ _ _ _ => if before then shock_before_step s e x else s
                   | _ => s
                   end
                 | _, _ => s
                 end) l s).
Proof.
  induction l as [|h r IH]; intros s M Hin Hk Hs H; cbn [fold_left].
  - unfold mprobes_l. simpl. rewrite app_nil_r. exact H.
  - destruct (ok s) eqn:O; cbn [negb].
    2:{ rewrite fold_not_ok; [|intros s0 x O0; rewrite O0; reflexivity|exact O]. eapply wrote2_notok; eauto. }
    destruct (find_mkt_some_of_mid s mkid Hin) as [x [Fx Ex]]. rewrite Fx.
    assert (Ek0 : kind_of (h_ev h) K0 = option_map es_kind (find_event (h_ev h) (s_events s))) by (rewrite <- Hk; apply find_event_kind).
    unfold mprobes_l. cbn [filter]. unfold isp at 1. rewrite Ek0.
    assert (Mf : market_filter h x = mflt Sk0 h mkid).
    { unfold market_filter, mflt, idx_of. rewrite <- Hs. unfold skels. rewrite (find_mkt_skel _ _ _ Fx), Ex. reflexivity. }
    destruct (find_event (h_ev h) (s_events s)) as [e|] eqn:Fe; cbn [option_map].
    2:{ cbn [andb map]. apply (IH s M); auto. }
    rewrite Mf. destruct (mflt Sk0 h mkid) eqn:Fl; cbn [negb].
    2:{ rewrite andb_false_r. cbn [map]. apply (IH s M); auto. }
    rewrite andb_true_r.
    pose proof (find_event_In _ _ _ Fe) as Ie.
    assert (Fx' : find_mkt (m_id (mk_m x)) (s_markets s) = Some x) by (rewrite Ex; exact Fx).
    destruct (es_kind e) eqn:Ek; cbn [map]; try (apply (IH s M); auto; fail).
    + (* fundamental shock *)
      destruct before; [|apply (IH s M); auto].
      pose proof (keeps_shock s e x Fx') as K. pose proof (X_shock s s e x Fx' (fixed_refl s)) as [F1 F2].
      destruct (shock_fields s e x) as [T [Pd _]].
      apply IH; [rewrite (keeps_mids _ _ K); exact Hin|rewrite (static_kinds _ _ F1); exact Hk|rewrite F2; exact Hs|].
      revert H. apply wrote2_keeps; auto.
    + (* trading halt *)
      destruct before; [|apply (IH s M); auto].
      pose proof (keeps_halt_before s e x Fx') as K. pose proof (X_halt_before s s e x Ie Fx' (fixed_refl s)) as [F1 F2].
      destruct (halt_before_fields s e x) as [T [Pd _]].
      apply IH; [rewrite (keeps_mids _ _ K); exact Hin|rewrite (static_kinds _ _ F1); exact Hk|rewrite F2; exact Hs|].
      revert H. apply wrote2_keeps; auto.
    + (* a user-written event: the call *)
      pose proof (wrote2_emit M s (ev_probe s (h_ev h) HMarket before mkid [VZ (mtime x)]) H) as H1. cbn [ev_probe tok_of order_phase] in H1.
      specialize (IH (emit s (ev_probe s (h_ev h) HMarket before mkid [VZ (mtime x)])) _ Hin Hk Hs H1).
      rewrite <- app_assoc in IH. exact IH.
Qed.
End MarketHooks.

(* ---------------- one step, one session, the run ---------------- *)
Section Compose.
Variable H0 : list hook.
Variable K0 : list (Z * evkind).
Variable Sk0 : list (Z * bool).
Definition conf (s : sim) : Prop := s_hooks s = H0 /\ kinds s = K0 /\ skels s = Sk0.

Lemma conf_fixed s s' : fixed s s' -> conf s -> conf s'.
Proof.
  intros [F1 F2] [A [B C]]. destruct (static_split _ _ F1) as [Fh Fk]. unfold conf. rewrite Fh, Fk, F2. auto.
Qed.

Lemma clock_time t s i x : clock_inv t s -> ok s = true -> find_mkt i (s_markets s) = Some x -> mtime x = t.
Proof. intros [_ A] O F. apply (A O i). apply find_mkt_key. exact F. Qed.

Definition begin_toks (t i : Z) : list tok := mprobes H0 K0 Sk0 true i t ++ [TMark (MStep 9 i)].
Definition end_toks (t i : Z) : list tok := TMark (MStep 10 i) :: mprobes H0 K0 Sk0 false i t.
Definition step_toks (ids : list Z) (t : Z) : list tok := flat_map (begin_toks t) ids ++ flat_map (end_toks t) ids.

Lemma step_tok s kind x : tok_of (ev_step s kind x) = [TMark (MStep kind (m_id (mk_m x)))].
Proof. reflexivity. Qed.

Lemma fire_market_conf s before i t M : conf s -> clock_inv t s -> In i (mids s) -> wrote2 M s ->
  wrote2 (M ++ mprobes H0 K0 Sk0 before i t) (fire_market s before i).
Proof.
  intros [Ch [Ck Cs]] Ci Hin H. destruct (ok s) eqn:O.
  2:{ unfold fire_market. destruct (find_mkt i (s_markets s)); [|eapply wrote2_notok; eauto].
      rewrite fold_not_ok; [eapply wrote2_notok; eauto| |exact O]. intros s0 x O0. rewrite O0. reflexivity. }
  unfold fire_market. destruct (find_mkt_some_of_mid s i Hin) as [x0 [Fx0 _]]. rewrite Fx0.
  rewrite (clock_time t s i x0 Ci O Fx0). rewrite hooks_for_hooksl, Ch.
  apply fire_market_toks; auto.
Qed.

Lemma step_begin_toks t s i M : conf s -> clock_inv t s -> In i (mids s) -> wrote2 M s ->
  wrote2 (M ++ begin_toks t i) (step_begin s i).
Proof.
  intros C Ci Hin H. unfold step_begin, begin_toks. destruct (ok s) eqn:O; simpl; [|eapply wrote2_notok; eauto].
  pose proof (fire_market_conf s true i t M C Ci Hin H) as H1.
  pose proof (keeps_fire_market s true i) as K.
  set (s1 := fire_market s true i) in *.
  destruct (ok s1) eqn:O1; simpl; [|eapply wrote2_notok; eauto].
  rewrite <- (keeps_mids _ _ K) in Hin. destruct (find_mkt_some_of_mid s1 i Hin) as [x [Fx Ex]]. rewrite Fx.
  pose proof (wrote2_emit _ s1 (ev_step s1 9 x) H1) as G. rewrite step_tok, Ex in G. rewrite app_assoc. exact G.
Qed.

Lemma step_end_toks t s i M : conf s -> clock_inv t s -> In i (mids s) -> wrote2 M s ->
  wrote2 (M ++ end_toks t i) (step_end s i).
Proof.
  intros C Ci Hin H. unfold step_end, end_toks. destruct (ok s) eqn:O; simpl; [|eapply wrote2_notok; eauto].
  destruct (find_mkt_some_of_mid s i Hin) as [x [Fx Ex]]. rewrite Fx.
  pose proof (wrote2_emit _ s (ev_step s 10 x) H) as G. rewrite step_tok, Ex in G.
  set (s1 := emit s (ev_step s 10 x)) in *.
  assert (C1 : conf s1) by exact C.
  assert (Ci1 : clock_inv t s1) by (eapply clock_inv_keeps; [|exact Ci]; apply keeps_same; reflexivity).
  pose proof (fire_market_conf s1 false i t _ C1 Ci1 Hin G) as G2. rewrite <- app_assoc in G2. exact G2.
Qed.

Lemma fold_toks (f : sim -> Z -> sim) (g : Z -> list tok) t :
  (forall s i, keeps s (f s i)) -> (forall s i, fixed s (f s i)) ->
  (forall s i M, conf s -> clock_inv t s -> In i (mids s) -> wrote2 M s -> wrote2 (M ++ g i) (f s i)) ->
  forall l s M, conf s -> clock_inv t s -> (forall i, In i l -> In i (mids s)) -> wrote2 M s ->
    wrote2 (M ++ flat_map g l) (fold_left f l s).
Proof.
  intros Kf Ff Hf. induction l as [|i r IH]; cbn [fold_left flat_map]; intros s M C Ci Hin H.
  - rewrite app_nil_r. exact H.
  - rewrite app_assoc. apply IH.
    + eapply conf_fixed; [apply Ff|exact C].
    + eapply clock_inv_keeps; [apply Kf|exact Ci].
    + intros j Hj. rewrite (keeps_mids _ _ (Kf s i)). apply Hin. right. exact Hj.
    + apply Hf; auto. apply Hin. left. reflexivity.
Qed.

Theorem one_step_toks t s M : conf s -> clock_inv t s -> wrote2 M s -> wrote2 (M ++ step_toks (mids s) t) (one_step s).
Proof.
  intros C Ci H. unfold one_step, step_toks. destruct (ok s) eqn:O; simpl; [|eapply wrote2_notok; eauto].
  pose proof (fold_toks step_begin (begin_toks t) t keeps_step_begin fixed_step_begin (fun s i M => step_begin_toks t s i M)
                (mids s) s M C Ci (fun i Hi => Hi) H) as H1.
  assert (K1 : keeps s (fold_left step_begin (mids s) s)) by (apply keeps_fold; intros; apply keeps_step_begin).
  assert (F1 : fixed s (fold_left step_begin (mids s) s)) by (apply fixed_fold; intros; apply fixed_step_begin).
  set (s1 := fold_left step_begin (mids s) s) in *.
  destruct (ok s1) eqn:O1; simpl; [|eapply wrote2_notok; eauto].
  set (s2 := match cur_sess s1 with Some se => if se_place se then update_markets s1 else s1 | None => fail s1 EOther end).
  assert (H2 : wrote2 (M ++ flat_map (begin_toks t) (mids s)) s2).
  { unfold s2. destruct (cur_sess s1) as [se|]; [|apply wrote2_fail; auto]. destruct (se_place se); auto. apply wrote2_update_markets; auto. }
  assert (K2 : keeps s s2).
  { eapply keeps_trans; [exact K1|]. unfold s2. destruct (cur_sess s1) as [se|]; [|apply keeps_fail].
    destruct (se_place se); [apply keeps_update_markets|apply keeps_refl]. }
  assert (F2 : fixed s s2).
  { eapply fixed_trans; [exact F1|]. unfold s2. destruct (cur_sess s1) as [se|]; [|apply fixed_fail].
    destruct (se_place se); [apply fixed_update_markets|apply fixed_refl]. }
  destruct (ok s2) eqn:O2; simpl; [|eapply wrote2_notok; eauto].
  pose proof (fold_toks step_end (end_toks t) t keeps_step_end fixed_step_end (fun s i M => step_end_toks t s i M)
                (mids s2) s2 _ (conf_fixed _ _ F2 C) (clock_inv_keeps _ _ _ K2 Ci) (fun i Hi => Hi) H2) as H3.
  set (s3 := fold_left step_end (mids s2) s2) in *.
  rewrite (keeps_mids _ _ K2), <- app_assoc in H3.
  destruct (ok s3) eqn:O3; simpl; [|eapply wrote2_notok; eauto].
  apply V_tick_all. exact H3.
Qed.

Lemma conf_one_step s : conf s -> conf (one_step s).
Proof.
  intros C. unfold one_step. destruct (negb (ok s)); auto.
  set (s1 := fold_left step_begin (mids s) s).
  assert (F1 : fixed s s1) by (apply fixed_fold; intros; apply fixed_step_begin).
  destruct (negb (ok s1)); [eapply conf_fixed; eauto|].
  set (s2 := match cur_sess s1 with Some se => if se_place se then update_markets s1 else s1 | None => fail s1 EOther end).
  assert (F2 : fixed s s2).
  { eapply fixed_trans; [exact F1|]. unfold s2. destruct (cur_sess s1) as [se|]; [|apply fixed_fail].
    destruct (se_place se); [apply fixed_update_markets|apply fixed_refl]. }
  destruct (negb (ok s2)); [eapply conf_fixed; eauto|].
  set (s3 := fold_left step_end (mids s2) s2).
  assert (F3 : fixed s s3) by (eapply fixed_trans; [exact F2|]; apply fixed_fold; intros; apply fixed_step_end).
  destruct (negb (ok s3)); [eapply conf_fixed; eauto|].
  eapply conf_fixed; [|exact C]. eapply fixed_trans; [exact F3|apply fixed_tick_all].
Qed.

Fixpoint steps_toks (ids : list Z) (t : Z) (n : nat) : list tok :=
  match n with 0%nat => [] | S k => step_toks ids t ++ steps_toks ids (t + 1) k end.

Theorem iterate_toks n : forall t s M, conf s -> clock_inv t s -> wrote2 M s ->
  wrote2 (M ++ steps_toks (mids s) t n) (iterate n s) /\ conf (iterate n s) /\ mids (iterate n s) = mids s.
Proof.
  induction n as [|k IH]; intros t s M C Ci H; cbn [iterate steps_toks].
  - rewrite app_nil_r. auto.
  - assert (N : NoDup (mids s)) by (rewrite mids_keys; apply Ci).
    destruct (IH (t + 1) (one_step s) _ (conf_one_step s C) (one_step_clock t s Ci) (one_step_toks t s M C Ci H)) as [A [B D]].
    rewrite (mids_one_step s N) in A, D. rewrite app_assoc. auto.
Qed.
End Compose.

Section ComposeRun.
Variable H0 : list hook.
Variable K0 : list (Z * evkind).
Variable Sk0 : list (Z * bool).

Definition session_toks (ids : list Z) (t : Z) (se : sess) : list tok :=
  sprobes H0 K0 true (se_start se) ++ [TMark (MSessB (se_id se))] ++
  steps_toks H0 K0 Sk0 ids t (Z.to_nat (se_steps se)) ++
  sprobes H0 K0 false (se_start se + se_steps se - 1) ++ [TMark (MSessE (se_id se))].

Lemma fire_session_conf s before t extra M : conf H0 K0 Sk0 s -> wrote2 M s ->
  wrote2 (M ++ sprobes H0 K0 before t) (fire_simple s HSession before t (-1) extra).
Proof.
  intros [Ch [Ck _]] H. unfold fire_simple, sprobes, sprobes_l. rewrite hooks_for_hooksl, Ch, <- Ck.
  apply fire_session_toks. exact H.
Qed.

Theorem run_session_toks t s se0 M : 0 <= se_steps se0 -> conf H0 K0 Sk0 s -> clock_inv t s -> wrote2 M s ->
  wrote2 (M ++ session_toks (mids s) t se0) (run_session s se0) /\ conf H0 K0 Sk0 (run_session s se0) /\
  mids (run_session s se0) = mids s /\ clock_inv (t + se_steps se0) (run_session s se0).
Proof.
  intros Hs C Ci H.
  assert (N : NoDup (mids s)) by (rewrite mids_keys; apply Ci).
  split; [|split; [|split; [apply mids_run_session; exact N|apply run_session_clock; auto]]].
  - unfold run_session, session_toks. destruct (ok s) eqn:O; simpl; [|eapply wrote2_notok; eauto].
    set (sa := s <| s_cur := se_id se0 |>).
    assert (Ha : wrote2 M sa) by (revert H; apply wrote2_same; reflexivity).
    assert (Ca : conf H0 K0 Sk0 sa) by exact C.
    pose proof (fire_session_conf sa true (se_start se0) [VZ (se_id se0); VZ (se_start se0)] M Ca Ha) as H1.
    set (s1 := fire_simple sa HSession true _ _ _) in *.
    assert (K1 : keeps s s1) by (apply (keeps_trans s sa s1); [apply keeps_same; reflexivity|apply keeps_fire_simple]).
    assert (F1 : fixed s s1) by (apply (fixed_trans s sa s1); [apply fixed_same; reflexivity|apply fixed_fire_simple]).
    destruct (ok s1) eqn:O1; simpl; [|eapply wrote2_notok; eauto].
    pose proof (wrote2_boundary _ s1 (EvSessBegin (se_id se0) (clock s1)) H1) as H2. cbn [tok_of mark_of map] in H2.
    set (sb := flush (write s1 (EvSessBegin (se_id se0) (clock s1)))) in *.
    assert (H2' : wrote2 ((M ++ sprobes H0 K0 true (se_start se0)) ++ [TMark (MSessB (se_id se0))]) (begin_iteration sb)) by (revert H2; apply wrote2_same; reflexivity).
    assert (K2 : keeps s (begin_iteration sb)).
    { eapply keeps_trans; [exact K1|]. eapply keeps_trans; [|apply keeps_begin_iteration]. apply keeps_same; reflexivity. }
    assert (F2 : fixed s (begin_iteration sb)).
    { eapply fixed_trans; [exact F1|]. eapply (fixed_trans s1 sb); [apply fixed_same; reflexivity|]. apply (X_begin_iteration sb sb (fixed_refl sb)). }
    set (s2 := begin_iteration sb) in *.
    destruct (iterate_toks H0 K0 Sk0 (Z.to_nat (se_steps se0)) t s2 _ (conf_fixed _ _ _ _ _ F2 C) (clock_inv_keeps _ _ _ K2 Ci) H2') as [H3 [C3 _]].
    rewrite (keeps_mids _ _ K2) in H3.
    set (s3 := iterate (Z.to_nat (se_steps se0)) s2) in *.
    destruct (ok s3) eqn:O3; simpl; [|eapply wrote2_notok; eauto].
    pose proof (fire_session_conf s3 false (se_start se0 + se_steps se0 - 1) [VZ (se_id se0); VZ (se_start se0 + se_steps se0 - 1)] _ C3 H3) as H4.
    set (s4 := fire_simple s3 HSession false _ _ _) in *.
    destruct (ok s4) eqn:O4; simpl; [|eapply wrote2_notok; eauto].
    pose proof (wrote2_boundary _ s4 (EvSessEnd (se_id se0) (clock s4)) H4) as H5. cbn [tok_of mark_of map] in H5.
    rewrite <- ?app_assoc in H5. rewrite <- ?app_assoc. cbn [app] in *. exact H5.
  - (* conf *)
    unfold run_session. destruct (negb (ok s)); auto.
    set (sa := s <| s_cur := se_id se0 |>).
    set (s1 := fire_simple sa HSession true (se_start se0) (-1) [VZ (se_id se0); VZ (se_start se0)]).
    assert (F1 : fixed s s1) by (apply (fixed_trans s sa s1); [apply fixed_same; reflexivity|apply fixed_fire_simple]).
    destruct (negb (ok s1)); [eapply conf_fixed; eauto|].
    set (sb := flush (write s1 (EvSessBegin (se_id se0) (clock s1)))).
    assert (F2 : fixed s (begin_iteration sb)).
    { eapply fixed_trans; [exact F1|]. eapply (fixed_trans s1 sb); [apply fixed_same; reflexivity|]. apply (X_begin_iteration sb sb (fixed_refl sb)). }
    set (s2 := begin_iteration sb) in *.
    assert (C2 : conf H0 K0 Sk0 s2) by (eapply conf_fixed; eauto).
    assert (C3 : conf H0 K0 Sk0 (iterate (Z.to_nat (se_steps se0)) s2)).
    { clear - C2. revert C2. generalize s2. induction (Z.to_nat (se_steps se0)) as [|k IH]; simpl; intros s' C'; auto. apply IH. apply conf_one_step. exact C'. }
    set (s3 := iterate (Z.to_nat (se_steps se0)) s2) in *.
    destruct (negb (ok s3)); auto.
    set (s4 := fire_simple s3 HSession false (se_start se0 + se_steps se0 - 1) (-1) [VZ (se_id se0); VZ (se_start se0 + se_steps se0 - 1)]).
    assert (C4 : conf H0 K0 Sk0 s4) by (eapply conf_fixed; [apply fixed_fire_simple|exact C3]).
    destruct (negb (ok s4)); auto.
Qed.

Fixpoint sessions_toks (ids : list Z) (t : Z) (ss : list sess) : list tok :=
  match ss with [] => [] | se :: r => session_toks ids t se ++ sessions_toks ids (t + se_steps se) r end.

Theorem sessions_toks_wrote ss : forall t s M, Forall (fun se => 0 <= se_steps se) ss -> conf H0 K0 Sk0 s -> clock_inv t s -> wrote2 M s ->
  wrote2 (M ++ sessions_toks (mids s) t ss) (fold_left run_session ss s).
Proof.
  induction ss as [|se r IH]; cbn [fold_left sessions_toks]; intros t s M Hs C Ci H.
  - rewrite app_nil_r. exact H.
  - inversion Hs as [|? ? Hse Hr]; subst.
    destruct (run_session_toks t s se M Hse C Ci H) as [A [B [D E]]].
    rewrite app_assoc. rewrite <- D. apply IH; auto. rewrite D. exact A.
Qed.
End ComposeRun.

Lemma mk_sessions_steps l : forall t, Forall (fun c => 0 <= sc_steps c) l -> Forall (fun se => 0 <= se_steps se) (mk_sessions l t).
Proof. induction l as [|c r IH]; simpl; intros t H; constructor; inversion H; subst; auto. Qed.

(* THE WHOLE RUN: for every configuration with distinct market ids and non-negative session lengths, every hook table, every tape,
   every agent behaviour, every fundamental path: a run that ends without exception made exactly these session / market-step hook
   calls and wrote exactly these begin / end records, in this order *)
Theorem run_toks c tape batches funds :
  NoDup (map mc_id (c_markets c)) -> Forall (fun sc => 0 <= sc_steps sc) (c_sessions c) ->
  let s0 := init_sim c tape batches funds in
  let s := run c tape batches funds in
  ok s = true ->
  toks (events_of s) =
    [TMark MSimB] ++ sessions_toks (s_hooks s0) (kinds s0) (skels s0) (map mc_id (c_markets c)) 0 (mk_sessions (c_sessions c) 0) ++ [TMark MSimE].
Proof.
  intros N Hs s0 s O. unfold s, run in *. fold s0 in O |- *.
  set (H0 := s_hooks s0). set (K0 := kinds s0). set (Sk0 := skels s0).
  assert (I0 : mids s0 = map mc_id (c_markets c)) by (unfold s0, mids, init_sim; cbn; rewrite map_map; reflexivity).
  assert (C0 : conf H0 K0 Sk0 s0) by (repeat split).
  assert (W0 : wrote2 [] s0) by (split; [reflexivity|intros _; reflexivity]).
  pose proof (wrote2_boundary [] s0 EvSimBegin W0) as W1. cbn [tok_of mark_of map app] in W1.
  set (sb := flush (write s0 EvSimBegin)) in *.
  assert (Cb : conf H0 K0 Sk0 sb) by exact C0.
  assert (Cib : clock_inv (-1) sb).
  { refine (clock_inv_keeps _ _ _ _ (init_clock c tape batches funds N)). apply keeps_same; reflexivity. }
  pose proof (V_tick_all _ sb W1) as W2.
  pose proof (tick_all_clock _ _ Cib) as Ci1. replace (-1 + 1) with 0 in Ci1 by lia.
  assert (C1 : conf H0 K0 Sk0 (tick_all sb)) by (eapply conf_fixed; [apply fixed_tick_all|exact Cb]).
  assert (I1 : mids (tick_all sb) = map mc_id (c_markets c)) by (rewrite tick_all_mids; [exact I0|change (NoDup (mids s0)); rewrite I0; exact N]).
  set (s1 := tick_all sb) in *.
  assert (Ess : s_sessions s1 = mk_sessions (c_sessions c) 0).
  { unfold s1, tick_all.
    assert (G : forall L s, s_sessions (fold_left tick_market L s) = s_sessions s).
    { induction L as [|x r IH]; simpl; intros s'; auto. rewrite IH. unfold tick_market.
      destruct (negb (ok s')); auto. destruct (find_mkt _ _) as [y|]; auto.
      match goal with |- context [match ?fv with Some _ => _ | None => _ end] => destruct fv as [f|] end.
      - destruct (tick (mk_m y) f) as [m' recs]. unfold do_tick.
        destruct (log_events_fields recs (set_market s' (m_id (mk_m y)) m')) as [-> _]. reflexivity.
      - destruct (fail_fields s' EIndex) as [_ [_ [_ [_ [-> _]]]]]. reflexivity. }
    rewrite !G. reflexivity. }
  rewrite Ess in O |- *.
  pose proof (sessions_toks_wrote H0 K0 Sk0 (mk_sessions (c_sessions c) 0) 0 s1 _ (mk_sessions_steps _ 0 Hs) C1 Ci1 W2) as W3.
  rewrite I1 in W3.
  set (s2 := fold_left run_session (mk_sessions (c_sessions c) 0) s1) in *.
  destruct (ok s2) eqn:O2; simpl in O |- *.
  - pose proof (wrote2_boundary _ s2 EvSimEnd W3) as [_ W4]. cbn [tok_of mark_of map] in W4.
    rewrite (W4 O). rewrite <- app_assoc. reflexivity.
  - congruence.
Qed.

(* non-vacuity: market 0 and index market 1; one session of two steps; a user event with five hooks: before session (always),
   after session (at time 0: never, the session ends at time 1), before step at time 1, after step for index markets only,
   before step for the instance market 1 *)
Example step_hooks_example :
  let c := mkCfg [mkMC 0 (1#1) (100#1) None 1; mkMC 1 (1#1) (100#1) (Some [0]) 1] []
                 [mkSC 3 2 false false 1 1 (0#1)]
                 [mkEC 5 3 true (KProbe [mkHS HSession true None None false; mkHS HSession false (Some [0]) None false;
                                         mkHS HMarket true (Some [1]) None false; mkHS HMarket false None None true;
                                         mkHS HMarket true None (Some 1) false])] in
  let funds := [(0, 0, 100#1); (0, 1, 100#1); (0, 2, 100#1)] in
  let s := run c [] [] funds in
  ok s = true /\
  toks (events_of s) =
  [TMark MSimB; TProbe 5 HSession true (-1); TMark (MSessB 3);
   TMark (MStep 9 0); TProbe 5 HMarket true 1; TMark (MStep 9 1);
   TMark (MStep 10 0); TMark (MStep 10 1); TProbe 5 HMarket false 1;
   TProbe 5 HMarket true 0; TMark (MStep 9 0); TProbe 5 HMarket true 1; TProbe 5 HMarket true 1; TMark (MStep 9 1);
   TMark (MStep 10 0); TMark (MStep 10 1); TProbe 5 HMarket false 1;
   TMark (MSessE 3); TMark MSimE].
Proof. vm_compute. split; reflexivity. Qed.
