(* C03 (never fails): a matching round of the Level-M model never returns an error on a well-formed running market.
   The walk's fills are replayed on the books (exactly what Market._execute_orders does to the order books) while the walk
   is followed step by step; the invariant is "books after the fills so far = what the walk still holds". *)
Require Import Pams.Prelude Pams.Tick Pams.Match Pams.Market Pams.MatchQ Pams.MarketInv Pams.MarketExec Pams.MarketLife.
From Coq Require Import Sorted.
From RecordUpdate Require Import RecordSet.
Import RecordSetNotations.
Open Scope Z_scope.

(* ---------------- fills replayed on the two books only ---------------- *)
Definition books := (list O * list O)%type.
Definition fill_books (bk : books) (f : fillq) : result books :=
  match f with
  | Fill v b s =>
      if v <=? 0 then Err EAssertWalk else
      match dec_vol (oid b) v (fst bk) [] with
      | Err e => Err e
      | Ok (bs, _) => match dec_vol (oid s) v (snd bk) [] with
                      | Err e => Err e
                      | Ok (ss, _) => Ok (bs, ss)
                      end
      end
  end.
Fixpoint fills_books (bk : books) (fs : list fillq) : result books :=
  match fs with
  | [] => Ok bk
  | f :: r => match fill_books bk f with Err e => Err e | Ok bk' => fills_books bk' r end
  end.

Lemma fills_books_app bk a b : fills_books bk (a ++ b) =
  match fills_books bk a with Err e => Err e | Ok bk' => fills_books bk' b end.
Proof.
  revert bk. induction a as [|f r IH]; simpl; intros bk; auto.
  destruct (fill_books bk f); auto.
Qed.

Lemma dec_vol_gone_indep i v l g g' :
  match dec_vol i v l g, dec_vol i v l g' with
  | Ok (l1, _), Ok (l2, _) => l1 = l2
  | Err e1, Err e2 => e1 = e2
  | _, _ => False
  end.
Proof.
  unfold dec_vol. destruct (find_id i l) as [o|]; auto.
  destruct (vol o - v =? 0); auto. destruct (vol o - v <? 0); auto.
Qed.

(* the market-level application of the fills does to the books exactly what fills_books does, and cannot fail otherwise *)
Lemma apply_fills_books p fs : forall m B S,
  m_running m = true -> fills_books (m_buys m, m_sells m) fs = Ok (B, S) ->
  exists m' logs, apply_fills p m fs = Ok (m', logs) /\ m_buys m' = B /\ m_sells m' = S.
Proof.
  induction fs as [|f r IH]; simpl; intros m B S Hr H.
  - inversion H; subst. eauto.
  - destruct f as [v b s]. unfold fill_books in H. cbn [fst snd] in H.
    destruct (v <=? 0) eqn:Ev; [discriminate|].
    destruct (dec_vol (oid b) v (m_buys m) []) as [[bs g0]|e] eqn:E1; [|discriminate].
    destruct (dec_vol (oid s) v (m_sells m) []) as [[ss g1]|e] eqn:E2; [|discriminate].
    unfold apply_fill. rewrite Hr. cbn [negb]. rewrite Ev.
    pose proof (dec_vol_gone_indep (oid b) v (m_buys m) [] (m_gone m)) as G1. rewrite E1 in G1.
    destruct (dec_vol (oid b) v (m_buys m) (m_gone m)) as [[bs' g1']|]; [|contradiction]. subst bs'. cbn [bind].
    pose proof (dec_vol_gone_indep (oid s) v (m_sells m) [] g1') as G2. rewrite E2 in G2.
    destruct (dec_vol (oid s) v (m_sells m) g1') as [[ss' g2']|]; [|contradiction]. subst ss'. cbn [bind].
    match goal with |- context [update_market_price ?x] => set (m1 := update_market_price x) end.
    destruct (IH m1 B S) as [m' [logs [A [Hb Hs]]]].
    + unfold m1. rewrite ump_running. cbn. exact Hr.
    + unfold m1. rewrite ump_buys, ump_sells. cbn. exact H.
    + rewrite A. cbn [bind]. eauto.
Qed.

(* ---------------- what the walk still holds ---------------- *)
Definition rem (c : option (O * Z)) : list O :=
  match c with Some (o, t) => if t =? 0 then [] else [with_vol o t] | None => [] end.
Definition cur_ok (c : option (O * Z)) : Prop := match c with Some (o, t) => 0 <= t | None => True end.
Definition live (c : option (O * Z)) : nat := match c with Some (_, t) => if t =? 0 then 0 else 1 | None => 0 end.
Definition pos (o : O) : Prop := 0 < vol o.

Lemma with_vol_same (o : O) : with_vol o (vol o) = o.
Proof. destruct o; reflexivity. Qed.

(* refill keeps the books and does not increase the measure *)
Lemma refill_books c l c' l' : refill c l = (c', l') -> Forall pos l -> cur_ok c ->
  rem c' ++ l' = rem c ++ l /\ cur_ok c' /\ Forall pos l' /\ (live c' + length l' = live c + length l)%nat /\
  (c' = None -> rem c ++ l = []) /\ (forall o t, c' = Some (o, t) -> 0 < t).
Proof.
  unfold refill. destruct c as [[o t]|]; simpl.
  - destruct (t =? 0) eqn:E.
    + destruct l as [|x r]; intros H Hl Hc; inversion H; subst; simpl.
      * repeat split; auto. intros; discriminate.
      * inversion Hl as [|? ? Px Pr]; subst. unfold pos in Px.
        assert (E2 : vol x =? 0 = false) by (apply Z.eqb_neq; lia). rewrite E2, with_vol_same.
        repeat split; auto; try lia. intros; discriminate. intros o0 t0 H0; inversion H0; subst; auto.
    + intros H Hl Hc; inversion H; subst; simpl. rewrite E. repeat split; auto. intros; discriminate.
      intros o0 t0 H0; inversion H0; subst. apply Z.eqb_neq in E. lia.
  - destruct l as [|x r]; intros H Hl Hc; inversion H; subst; simpl.
    + repeat split; auto. intros; discriminate.
    + inversion Hl as [|? ? Px Pr]; subst. unfold pos in Px.
      assert (E2 : vol x =? 0 = false) by (apply Z.eqb_neq; lia). rewrite E2, with_vol_same.
      repeat split; auto; try lia. intros; discriminate. intros o0 t0 H0; inversion H0; subst; auto.
Qed.

(* one fill on a book whose head is the current order with remaining volume t *)
Lemma dec_vol_head (o : O) t v r : 0 < t -> 0 < v -> v <= t ->
  exists g, dec_vol (oid o) v (with_vol o t :: r) [] = Ok (rem (Some (o, t - v)) ++ r, g).
Proof.
  intros Ht Hv Hle. unfold dec_vol.
  assert (F : find_id (oid o) (with_vol o t :: r) = Some (with_vol o t)) by (cbn [find_id with_vol oid]; rewrite Z.eqb_refl; reflexivity).
  assert (R : remove_id (oid o) (with_vol o t :: r) = r) by (cbn [remove_id with_vol oid]; rewrite Z.eqb_refl; reflexivity).
  assert (S : forall nv, set_vol (oid o) nv (with_vol o t :: r) = with_vol o nv :: r).
  { intros nv. cbn [set_vol with_vol oid]. rewrite Z.eqb_refl. destruct o; reflexivity. }
  rewrite F. cbn [vol with_vol]. cbn [rem]. destruct (t - v =? 0) eqn:E.
  - rewrite R. eexists. reflexivity.
  - assert (L : t - v <? 0 = false) by (apply Z.ltb_ge; lia). rewrite L, S. eexists. reflexivity.
Qed.

Definition stop_ok (B S : list O) : Prop :=
  B = [] \/ S = [] \/
  exists b rb s rs pb ps, B = b :: rb /\ S = s :: rs /\ price b = Some pb /\ price s = Some ps /\ qltb pb ps = true.

Lemma stop_ok_not_executable B S : stop_ok B S -> executable_b B S = false.
Proof.
  intros [->|[->|[b [rb [s [rs [pb [ps [-> [-> [Hb [Hs Hlt]]]]]]]]]]]]; unfold executable_b.
  - destruct S; reflexivity.
  - reflexivity.
  - rewrite Hs, Hb. unfold qltb in Hlt. unfold qleb. apply negb_true_iff in Hlt. exact Hlt.
Qed.

(* ---------------- the walk, followed on the books ---------------- *)
Lemma walk_books fuel : forall cb cs bs ss p acc BB SS,
  fills_books (BB, SS) acc = Ok (rem cb ++ bs, rem cs ++ ss) ->
  cur_ok cb -> cur_ok cs -> Forall pos bs -> Forall pos ss ->
  (live cb + length bs + live cs + length ss < fuel)%nat ->
  exists B' S', fills_books (BB, SS) (snd (walk Q qltb fuel cb cs bs ss p acc)) = Ok (B', S') /\ stop_ok B' S'.
Proof.
  induction fuel as [|f IH]; intros cb cs bs ss p acc BB SS Hinv Hcb Hcs Pb Ps Hm; [lia|].
  cbn [walk].
  destruct (refill cb bs) as [cb' bs'] eqn:Rb.
  destruct (refill_books _ _ _ _ Rb Pb Hcb) as [Eb [Hcb' [Pb' [Lb [Nb Tb]]]]].
  destruct cb' as [[b bt]|].
  2:{ (* buy side exhausted *) cbn [snd]. rewrite Hinv. exists [], (rem cs ++ ss). rewrite (Nb eq_refl). split; auto. left; auto. }
  destruct (refill cs ss) as [cs' ss'] eqn:Rs.
  destruct (refill_books _ _ _ _ Rs Ps Hcs) as [Es [Hcs' [Ps' [Ls [Ns Ts]]]]].
  destruct cs' as [[s st]|].
  2:{ cbn [snd]. rewrite Hinv. exists (rem cb ++ bs), []. rewrite (Ns eq_refl). split; auto. right; left; auto. }
  pose proof (Tb _ _ eq_refl) as Hbt. pose proof (Ts _ _ eq_refl) as Hst.
  assert (Rb1 : rem (Some (b, bt)) = [with_vol b bt]) by (simpl; destruct (bt =? 0) eqn:E; auto; apply Z.eqb_eq in E; lia).
  assert (Rs1 : rem (Some (s, st)) = [with_vol s st]) by (simpl; destruct (st =? 0) eqn:E; auto; apply Z.eqb_eq in E; lia).
  destruct (crossing Q qltb b s) eqn:Cr.
  - (* a fill of v = min *)
    set (v := Z.min bt st).
    assert (Hv : 0 < v) by (unfold v; lia).
    apply IH; auto.
    + rewrite fills_books_app, Hinv. cbn [fills_books fill_books fst snd].
      assert (Ev : v <=? 0 = false) by (apply Z.leb_gt; lia). rewrite Ev.
      rewrite <- Eb, <- Es, Rb1, Rs1. cbn [app].
      destruct (dec_vol_head b bt v bs' Hbt Hv ltac:(unfold v; lia)) as [g1 D1]. rewrite D1.
      destruct (dec_vol_head s st v ss' Hst Hv ltac:(unfold v; lia)) as [g2 D2]. rewrite D2. reflexivity.
    + simpl. unfold v. lia.
    + simpl. unfold v. lia.
    + (* measure: at least one of the two current orders is exhausted *)
      assert (M : (live (Some (b, (bt - v)%Z)) + live (Some (s, (st - v)%Z)) <= 1)%nat).
      { simpl. destruct (Z.min_spec bt st) as [[_ E]|[_ E]]; fold v in E; rewrite E, Z.sub_diag; simpl.
        - destruct (st - bt =? 0); lia.
        - destruct (bt - st =? 0); lia. }
      assert (E1 : bt =? 0 = false) by (apply Z.eqb_neq; lia).
      assert (E2 : st =? 0 = false) by (apply Z.eqb_neq; lia).
      cbn [live] in Lb, Ls, M |- *. rewrite E1 in Lb. rewrite E2 in Ls.
      unfold O in *. destruct (bt - v =? 0) eqn:A1; destruct (st - v =? 0) eqn:A2; lia.
  - (* the first non-crossing pair: both limit orders, bid < ask *)
    cbn [snd]. rewrite Hinv, <- Eb, <- Es, Rb1, Rs1. cbn [app].
    eexists. eexists. split; [reflexivity|]. right. right.
    unfold crossing in Cr. destruct (price b) as [pb|] eqn:Pb1; [|discriminate].
    destruct (price s) as [ps|] eqn:Ps1; [|discriminate].
    exists (with_vol b bt), bs', (with_vol s st), ss', pb, ps. repeat split; auto.
    apply negb_false_iff in Cr. exact Cr.
Qed.

(* the round's fills can be applied to the books and leave no executable pair *)
Theorem run_walk_books m : book_ok m ->
  exists B' S', fills_books (m_buys m, m_sells m) (snd (run_walk m)) = Ok (B', S') /\ executable_b B' S' = false.
Proof.
  intros [[_ EB _] [_ ES _]]. unfold run_walk.
  destruct (walk_books (walk_fuel m) None None (m_buys m) (m_sells m) None [] (m_buys m) (m_sells m)) as [B' [S' [H1 H2]]].
  - reflexivity.
  - exact I.
  - exact I.
  - eapply Forall_impl; [|exact EB]. intros o [_ [_ [V _]]]. exact V.
  - eapply Forall_impl; [|exact ES]. intros o [_ [_ [V _]]]. exact V.
  - unfold walk_fuel. simpl. lia.
  - exists B', S'. split; auto. apply stop_ok_not_executable; auto.
Qed.

(* hence: once the walk has produced a price, the round cannot fail any more *)
Theorem execution_succeeds_given_price m p fs :
  book_ok m -> m_running m = true -> run_walk m = (Some p, fs) -> exists m' logs, execution m = Ok (m', logs).
Proof.
  intros Hm Hr Hw. unfold execution. destruct (executable m) eqn:Ex; simpl; [|eauto].
  rewrite Hw. destruct (run_walk_books m Hm) as [B' [S' [H1 H2]]]. rewrite Hw in H1. cbn [snd] in H1.
  destruct (apply_fills_books p fs m B' S' Hr H1) as [m' [logs [A [Hb Hs]]]]. rewrite A. cbn [bind].
  unfold executable. rewrite Hb, Hs, H2. eauto.
Qed.

(* =====================================================================================================
   The walk always finds a price when the book is executable (Market._execution's `price is None` assertion)
   ===================================================================================================== *)
Definition fsum (fs : list fillq) : Z := fold_right (fun f a => fvol f + a) 0 fs.
Definition mmq (f : fillq) : Prop := price (fbuy f) = None /\ price (fsell f) = None.
(* the current book consists of orders of the original book, possibly with reduced volume *)
Definition sub_of (B cur : list O) : Prop :=
  Forall (fun x : O => exists y, In y B /\ oid x = oid y /\ price x = price y) cur.

Lemma sub_of_refl B : sub_of B B.
Proof. unfold sub_of. apply Forall_forall. intros x Hx. exists x. auto. Qed.

Lemma limit_prices_remove i l x : find_id i l = Some x -> price x = None -> limit_prices (remove_id i l) = limit_prices l.
Proof.
  induction l as [|y r IH]; simpl; [discriminate|]. destruct (oid y =? i) eqn:E.
  - intros H Hp; inversion H; subst. rewrite Hp. reflexivity.
  - intros H Hp. simpl. rewrite (IH H Hp). reflexivity.
Qed.
Lemma limit_prices_set_vol i nv l x : find_id i l = Some x -> price x = None -> limit_prices (set_vol i nv l) = limit_prices l.
Proof.
  induction l as [|y r IH]; simpl; [discriminate|]. destruct (oid y =? i) eqn:E.
  - intros H Hp; inversion H; subst. simpl. rewrite Hp. reflexivity.
  - intros H Hp. simpl. rewrite (IH H Hp). reflexivity.
Qed.
Lemma market_volume_remove i l x : find_id i l = Some x -> price x = None -> market_volume (remove_id i l) = market_volume l - vol x.
Proof.
  induction l as [|y r IH]; simpl; [discriminate|]. destruct (oid y =? i) eqn:E.
  - intros H Hp; inversion H; subst. rewrite Hp. lia.
  - intros H Hp. simpl. rewrite (IH H Hp). destruct (price y); lia.
Qed.
Lemma market_volume_set_vol i nv l x : find_id i l = Some x -> price x = None ->
  market_volume (set_vol i nv l) = market_volume l - vol x + nv.
Proof.
  induction l as [|y r IH]; simpl; [discriminate|]. destruct (oid y =? i) eqn:E.
  - intros H Hp; inversion H; subst. simpl. rewrite Hp. lia.
  - intros H Hp. simpl. rewrite (IH H Hp). destruct (price y); lia.
Qed.

Lemma sub_of_remove B i l : sub_of B l -> sub_of B (remove_id i l).
Proof. unfold sub_of. apply remove_id_Forall. Qed.
Lemma sub_of_set_vol B i nv l : sub_of B l -> sub_of B (set_vol i nv l).
Proof.
  unfold sub_of. intros H. apply set_vol_Forall; [exact H|]. intros y [z [Hz [E1 E2]]]. exists z. simpl. auto.
Qed.

(* one market-market fill on one side *)
Lemma dec_vol_market B i v l g l' g' (b : O) :
  NoDup (map (@oid Q) B) -> sub_of B l -> In b B -> oid b = i -> price b = None ->
  dec_vol i v l g = Ok (l', g') ->
  limit_prices l' = limit_prices l /\ market_volume l = market_volume l' + v /\ sub_of B l'.
Proof.
  intros Hn Hs Hb Hi Hp. unfold dec_vol. destruct (find_id i l) as [x|] eqn:F; [|discriminate].
  assert (Px : price x = None).
  { destruct (find_id_In _ _ _ F) as [Ix Ex]. unfold sub_of in Hs. rewrite Forall_forall in Hs.
    destruct (Hs _ Ix) as [y [Iy [E1 E2]]]. assert (y = b) by (eapply ids_inj; eauto; congruence). subst. congruence. }
  destruct (vol x - v =? 0) eqn:E0.
  - intros H; inversion H; subst. apply Z.eqb_eq in E0.
    rewrite (limit_prices_remove _ _ _ F Px), (market_volume_remove _ _ _ F Px). split; [reflexivity|]. split; [lia|apply sub_of_remove; auto].
  - destruct (vol x - v <? 0); [discriminate|]. intros H; inversion H; subst.
    rewrite (limit_prices_set_vol _ _ _ _ F Px), (market_volume_set_vol _ _ _ _ F Px). split; [reflexivity|]. split; [lia|apply sub_of_set_vol; auto].
Qed.

Lemma fills_books_mm fs : forall B S cb cs B' S',
  NoDup (map (@oid Q) B) -> NoDup (map (@oid Q) S) -> sub_of B cb -> sub_of S cs ->
  Forall (fun f => In (fbuy f) B /\ In (fsell f) S /\ mmq f) fs ->
  fills_books (cb, cs) fs = Ok (B', S') ->
  limit_prices B' = limit_prices cb /\ market_volume cb = market_volume B' + fsum fs /\
  limit_prices S' = limit_prices cs /\ market_volume cs = market_volume S' + fsum fs.
Proof.
  induction fs as [|f r IH]; intros B S cb cs B' S' NB NS Sb Ss Hf H.
  - simpl in H. inversion H; subst. simpl. repeat split; lia.
  - inversion Hf as [|? ? [Ib [Is [Pb Ps]]] Hr]; subst. destruct f as [v b s]. cbn [fbuy fsell] in *.
    cbn [fills_books fill_books fst snd] in H. destruct (v <=? 0); [discriminate|].
    destruct (dec_vol (oid b) v cb []) as [[cb1 g1]|] eqn:D1; [|discriminate].
    destruct (dec_vol (oid s) v cs []) as [[cs1 g2]|] eqn:D2; [|discriminate].
    destruct (dec_vol_market B (oid b) v cb [] cb1 g1 b NB Sb Ib eq_refl Pb D1) as [L1 [M1 S1]].
    destruct (dec_vol_market S (oid s) v cs [] cs1 g2 s NS Ss Is eq_refl Ps D2) as [L2 [M2 S2]].
    destruct (IH B S cb1 cs1 B' S' NB NS S1 S2 Hr H) as [A1 [A2 [A3 A4]]].
    cbn [fsum fold_right fvol]. fold (fsum r). repeat split; try congruence; lia.
Qed.

Lemma choose_price_none (b s : O) old : @choose_price Q b s old = None -> old = None /\ price b = None /\ price s = None.
Proof.
  unfold choose_price. destruct (price b), (price s); try discriminate; auto.
  destruct (placed b =? placed s); [destruct (oid b <? oid s)|destruct (placed b <? placed s)]; discriminate.
Qed.

Lemma cp_fold_none_mm fs : forall p, @cp_fold Q fs p = None -> p = None /\ Forall mmq fs.
Proof.
  unfold cp_fold. induction fs as [|f r IH]; simpl; intros p H; [auto|].
  destruct (IH _ H) as [E Hr]. apply choose_price_none in E. destruct E as [E [Pb Ps]]. split; auto.
  constructor; auto. split; auto.
Qed.

Lemma fills_books_side_ok n t id fs : forall B S B' S',
  side_ok true n t id B -> side_ok false n t id S -> fills_books (B, S) fs = Ok (B', S') ->
  side_ok true n t id B' /\ side_ok false n t id S'.
Proof.
  induction fs as [|f r IH]; intros B S B' S' HB HS H.
  - simpl in H. inversion H; subst. auto.
  - destruct f as [v b s]. cbn [fills_books fill_books fst snd] in H. destruct (v <=? 0); [discriminate|].
    destruct (dec_vol (oid b) v B []) as [[B1 g1]|] eqn:D1; [|discriminate].
    destruct (dec_vol (oid s) v S []) as [[S1 g2]|] eqn:D2; [|discriminate].
    apply (IH B1 S1); auto; eapply dec_vol_ok; eauto.
Qed.

(* sorted books: a limit order at the head means no market order anywhere, and the head has the best limit price *)
Lemma head_limit_no_market x l p : sortedq (x :: l) -> price x = Some p -> Forall (fun y : O => price y <> None) (x :: l).
Proof.
  intros Hs Hp. constructor; [congruence|]. inversion Hs as [|? ? _ Hx]; subst.
  rewrite Forall_forall in *. intros y Hy C. specialize (Hx y Hy).
  unfold oltq, olt in Hx. rewrite Hp, C in Hx. discriminate.
Qed.

Lemma no_market_volume l : Forall (fun y : O => price y <> None) l -> market_volume l = 0.
Proof.
  induction l as [|y r IH]; simpl; auto. intros H. inversion H; subst. destruct (price y); [auto|congruence].
Qed.

Lemma market_volume_nonneg l : Forall (fun y : O => 0 < vol y) l -> 0 <= market_volume l.
Proof.
  induction l as [|y r IH]; simpl; [lia|]. intros H. inversion H; subst. specialize (IH H3). destruct (price y); lia.
Qed.

Lemma In_limit_prices a l : In a (limit_prices l) -> exists y : O, In y l /\ price y = Some a.
Proof.
  induction l as [|y r IH]; simpl; [intros []|]. destruct (price y) as [p|] eqn:E.
  - intros [<-|H]; [exists y; auto|]. destruct (IH H) as [z [Hz Pz]]. exists z. auto.
  - intros H. destruct (IH H) as [z [Hz Pz]]. exists z. auto.
Qed.

Lemma In_dedupq a l : In a (dedupq l) -> In a l.
Proof.
  induction l as [|x r IH]; simpl; auto. destruct (existsb (qeqb x) r); simpl; [auto|]. intros [<-|H]; auto.
Qed.

Lemma qmin_list_In l a : qmin_list l = Some a -> In a l.
Proof.
  revert a. induction l as [|x r IH]; simpl; [discriminate|]. intros a.
  destruct (qmin_list r) as [y|] eqn:E; intros H; inversion H; subst; auto.
  destruct (qltb x y); auto.
Qed.
Lemma qmax_list_In l a : qmax_list l = Some a -> In a l.
Proof.
  revert a. induction l as [|x r IH]; simpl; [discriminate|]. intros a.
  destruct (qmax_list r) as [y|] eqn:E; intros H; inversion H; subst; auto.
  destruct (qltb y x); auto.
Qed.

(* in a sorted buy book with a limit order of price pb at the head every limit price is <= pb; dually for sells *)
Lemma buy_head_is_best x l pb y py : sortedq (x :: l) -> isbuy x = true -> price x = Some pb -> In y (x :: l) -> price y = Some py ->
  (py <= pb)%Q.
Proof.
  intros Hs Hb Hp [<-|Hy] Py.
  - rewrite Hp in Py. inversion Py. apply Qle_refl.
  - inversion Hs as [|? ? _ Hx]; subst. rewrite Forall_forall in Hx. specialize (Hx y Hy).
    apply oltq_ranking in Hx. rewrite Hp, Py, Hb in Hx. destruct Hx as [H|[H _]].
    + apply qltb_lt in H. apply Qlt_le_weak. exact H.
    + apply qeqb_eq in H. rewrite H. apply Qle_refl.
Qed.
Lemma sell_head_is_best x l ps y py : sortedq (x :: l) -> isbuy x = false -> price x = Some ps -> In y (x :: l) -> price y = Some py ->
  (ps <= py)%Q.
Proof.
  intros Hs Hb Hp [<-|Hy] Py.
  - rewrite Hp in Py. inversion Py. apply Qle_refl.
  - inversion Hs as [|? ? _ Hx]; subst. rewrite Forall_forall in Hx. specialize (Hx y Hy).
    apply oltq_ranking in Hx. rewrite Hp, Py, Hb in Hx. destruct Hx as [H|[H _]].
    + apply qltb_lt in H. apply Qlt_le_weak. exact H.
    + apply qeqb_eq in H. rewrite H. apply Qle_refl.
Qed.

Theorem run_walk_books_stop m : book_ok m ->
  exists B' S', fills_books (m_buys m, m_sells m) (snd (run_walk m)) = Ok (B', S') /\ stop_ok B' S'.
Proof.
  intros [[_ EB _] [_ ES _]]. unfold run_walk.
  apply (walk_books (walk_fuel m) None None (m_buys m) (m_sells m) None [] (m_buys m) (m_sells m)); try exact I; try reflexivity.
  - eapply Forall_impl; [|exact EB]. intros o [_ [_ [V _]]]. exact V.
  - eapply Forall_impl; [|exact ES]. intros o [_ [_ [V _]]]. exact V.
  - unfold walk_fuel. simpl. lia.
Qed.

(* if the walk ends without a price then the book was not executable *)
Theorem walk_without_price_means_not_executable m :
  book_ok m -> fst (run_walk m) = None -> executable m = false.
Proof.
  intros Hm Hp. destruct (run_walk_books_stop m Hm) as [B' [S' [HF Hstop]]].
  destruct Hm as [HB HS]. pose proof HB as [SB EB NB]. pose proof HS as [SS ES NS].
  (* all fills are market-market, and they name resting orders *)
  assert (Hmm : Forall mmq (snd (run_walk m))).
  { destruct (walk_price_fold Q qltb (walk_fuel m) None None (m_buys m) (m_sells m) None []) as [new [H1 H2]].
    change (walk Q qltb (walk_fuel m) None None (m_buys m) (m_sells m) None []) with (run_walk m) in H1, H2.
    simpl in H1. unfold fillq in *. rewrite H2 in Hp. destruct (cp_fold_none_mm new None Hp) as [_ G]. rewrite H1. exact G. }
  assert (Hin : Forall (fun f => In (fbuy f) (m_buys m) /\ In (fsell f) (m_sells m)) (snd (run_walk m))).
  { unfold run_walk. apply (walk_fills_from Q qltb); simpl; auto using incl_refl. }
  set (fs := snd (run_walk m)) in *.
  assert (Hall : Forall (fun f => In (fbuy f) (m_buys m) /\ In (fsell f) (m_sells m) /\ mmq f) fs).
  { rewrite Forall_forall in *. intros f Hf. destruct (Hin f Hf). auto. }
  destruct (fills_books_mm fs _ _ _ _ _ _ NB NS (sub_of_refl _) (sub_of_refl _) Hall HF) as [LB [MB [LS MS]]].
  destruct (fills_books_side_ok _ _ _ fs _ _ _ _ HB HS HF) as [HB' HS']. destruct HB' as [SB' EB' _]. destruct HS' as [SS' ES' _].
  assert (PB' : Forall (fun y : O => 0 < vol y) B') by (eapply Forall_impl; [|exact EB']; intros o [_ [_ [V _]]]; exact V).
  assert (PS' : Forall (fun y : O => 0 < vol y) S') by (eapply Forall_impl; [|exact ES']; intros o [_ [_ [V _]]]; exact V).
  pose proof (market_volume_nonneg _ PB') as NB'. pose proof (market_volume_nonneg _ PS') as NS'.
  unfold executable, executable_b.
  destruct (m_sells m) as [|s0 rs] eqn:ES0; [reflexivity|]. destruct (m_buys m) as [|b0 rb] eqn:EB0; [reflexivity|].
  destruct (price s0) as [ps0|] eqn:Ps0; destruct (price b0) as [pb0|] eqn:Pb0.
  - (* both best orders are limit orders: no market order anywhere, hence no fill at all *)
    pose proof (head_limit_no_market _ _ _ SB Pb0) as AllB.
    assert (fs = []).
    { destruct fs as [|f r]; auto. exfalso. inversion Hall as [|? ? [Ib [_ [Pb _]]] _]; subst.
      rewrite Forall_forall in AllB. apply (AllB _ Ib). exact Pb. }
    rewrite H in HF. simpl in HF. inversion HF; subst B' S'.
    destruct Hstop as [C|[C|[b [rb' [s [rs' [pb [ps [E1 [E2 [P1 [P2 Hlt]]]]]]]]]]]]; try discriminate.
    inversion E1; inversion E2; subst. rewrite Pb0 in P1. rewrite Ps0 in P2. inversion P1; inversion P2; subst.
    unfold qltb in Hlt. unfold qleb. apply negb_true_iff in Hlt. exact Hlt.
  - (* best ask is a limit order, best bid a market order: the sell side holds no market order, so no fill; but then the
       book after the walk is the book before it, whose best bid is a market order *)
    exfalso. pose proof (head_limit_no_market _ _ _ SS Ps0) as AllS.
    assert (fs = []).
    { destruct fs as [|f r]; auto. exfalso. inversion Hall as [|? ? [_ [Is [_ Ps]]] _]; subst.
      rewrite Forall_forall in AllS. apply (AllS _ Is). exact Ps. }
    rewrite H in HF. simpl in HF. inversion HF; subst B' S'.
    destruct Hstop as [C|[C|[b [rb' [s [rs' [pb [ps [E1 [E2 [P1 [P2 Hlt]]]]]]]]]]]]; try discriminate.
    inversion E1; subst. congruence.
  - exfalso. pose proof (head_limit_no_market _ _ _ SB Pb0) as AllB.
    assert (fs = []).
    { destruct fs as [|f r]; auto. exfalso. inversion Hall as [|? ? [Ib [_ [Pb _]]] _]; subst.
      rewrite Forall_forall in AllB. apply (AllB _ Ib). exact Pb. }
    rewrite H in HF. simpl in HF. inversion HF; subst B' S'.
    destruct Hstop as [C|[C|[b [rb' [s [rs' [pb [ps [E1 [E2 [P1 [P2 Hlt]]]]]]]]]]]]; try discriminate.
    inversion E2; subst. congruence.
  - (* both best orders are market orders *)
    cbv zeta.
    destruct Hstop as [C|[C|[b [rb' [s [rs' [pb [ps [E1 [E2 [P1 [P2 Hlt]]]]]]]]]]]].
    + (* the buy side was consumed entirely, by market-market fills: it held market orders only *)
      subst B'. change (market_volume []) with 0 in MB.
      assert (Lv : levels (b0 :: rb) = []) by (unfold levels; rewrite <- LB; reflexivity).
      rewrite Lv. destruct (market_volume (s0 :: rs) =? market_volume (b0 :: rb)) eqn:E; cbn [negb].
      * destruct (qmin_list (levels (s0 :: rs))); reflexivity.
      * apply Z.eqb_neq in E. assert (L : market_volume (s0 :: rs) <? market_volume (b0 :: rb) = false) by (apply Z.ltb_ge; lia).
        rewrite L. change (Z.of_nat (length (@nil Q))) with 0. rewrite Z.geb_leb. apply Z.leb_gt. lia.
    + subst S'. change (market_volume []) with 0 in MS.
      assert (Lv : levels (s0 :: rs) = []) by (unfold levels; rewrite <- LS; reflexivity).
      rewrite Lv. destruct (market_volume (s0 :: rs) =? market_volume (b0 :: rb)) eqn:E; cbn [negb].
      * reflexivity.
      * apply Z.eqb_neq in E. assert (L : market_volume (s0 :: rs) <? market_volume (b0 :: rb) = true) by (apply Z.ltb_lt; lia).
        rewrite L. change (Z.of_nat (length (@nil Q))) with 0. rewrite Z.geb_leb. apply Z.leb_gt. lia.
    + (* stopped at a non-crossing limit pair: every market order on both sides was consumed, so the two market volumes
         are equal, and the level test compares the best limit prices, which do not cross *)
      subst B' S'.
      pose proof (no_market_volume _ (head_limit_no_market _ _ _ SB' P1)) as Z1.
      pose proof (no_market_volume _ (head_limit_no_market _ _ _ SS' P2)) as Z2.
      assert (E : market_volume (s0 :: rs) =? market_volume (b0 :: rb) = true) by (apply Z.eqb_eq; lia).
      rewrite E. cbn [negb].
      destruct (qmin_list (levels (s0 :: rs))) as [a|] eqn:Qa; [|reflexivity].
      destruct (qmax_list (levels (b0 :: rb))) as [c|] eqn:Qc; [|reflexivity].
      apply qmin_list_In in Qa. apply In_dedupq in Qa. rewrite <- LS in Qa. apply In_limit_prices in Qa. destruct Qa as [y [Iy Py]].
      apply qmax_list_In in Qc. apply In_dedupq in Qc. rewrite <- LB in Qc. apply In_limit_prices in Qc. destruct Qc as [z [Iz Pz]].
      rewrite Forall_forall in EB', ES'.
      assert (Hsb : isbuy b = true) by (destruct (EB' b (or_introl eq_refl)) as [X _]; exact X).
      assert (Hss : isbuy s = false) by (destruct (ES' s (or_introl eq_refl)) as [X _]; exact X).
      pose proof (buy_head_is_best _ _ _ _ _ SB' Hsb P1 Iz Pz) as L1.
      pose proof (sell_head_is_best _ _ _ _ _ SS' Hss P2 Iy Py) as L2.
      apply qltb_lt in Hlt. unfold qleb. destruct (Qle_bool a c) eqn:Q; auto. apply Qle_bool_iff in Q.
      exfalso. apply (Qlt_irrefl pb). eapply Qlt_le_trans; [exact Hlt|]. eapply Qle_trans; [exact L2|]. eapply Qle_trans; [exact Q|exact L1].
Qed.

(* C03: a matching round never fails on a well-formed, running market - none of the assertions of Market._execution,
   Market._execute_orders or OrderBook.change_order_volume can fire, for books of any depth with market orders anywhere *)
Theorem execution_never_errors m : book_ok m -> m_running m = true -> exists m' logs, execution m = Ok (m', logs).
Proof.
  intros Hm Hr. destruct (run_walk m) as [[p|] fs] eqn:Hw.
  - eapply execution_succeeds_given_price; eauto.
  - pose proof (walk_without_price_means_not_executable m Hm) as H. rewrite Hw in H. specialize (H eq_refl).
    unfold execution. rewrite H. simpl. eauto.
Qed.

(* and on a market that is not running the only refusal is "market is not running", which leaves the market as it was;
   if nothing is executable the round is a no-op *)
Theorem execution_not_running m : book_ok m -> m_running m = false ->
  execution m = Ok (m, []) \/ execution m = Err EAssertNotRunning.
Proof.
  intros Hm Hr. unfold execution. destruct (executable m) eqn:Ex; simpl; [|left; reflexivity].
  destruct (run_walk m) as [[p|] fs] eqn:Hw.
  - destruct fs as [|f r].
    + (* a price without a fill cannot happen, but then the books are unchanged and executable: the post-check fails;
         excluded because an executable book always yields a fill *)
      exfalso. destruct (run_walk_books m Hm) as [B' [S' [HF Hne]]]. rewrite Hw in HF. simpl in HF. inversion HF; subst.
      unfold executable in Ex. congruence.
    + right. simpl. unfold apply_fill. destruct f. rewrite Hr. reflexivity.
  - pose proof (walk_without_price_means_not_executable m Hm) as H. rewrite Hw in H. specialize (H eq_refl). congruence.
Qed.
