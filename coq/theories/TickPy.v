(* Static prelude of the thirteenth translator (harness/py2coq_tick.py): the two things Market._update_time calls that are modelled by
   hand - OrderBook._set_time (drop the orders past their time to live from one side, hand them back in the order of their ids) and the
   reporting of those expirations. *)
Require Import Pams.Prelude Pams.Match Pams.Market Pams.OrderPy.
From RecordUpdate Require Import RecordSet.
Import RecordSetNotations.
Open Scope Z_scope.

Definition expire_side (buy : bool) (m : market) : market * list O :=
  let t := m_time m in
  let book := if buy then m_buys m else m_sells m in
  let e := by_id (filter (expired t) book) in
  let keep := filter (fun o => negb (expired t o)) book in
  ((if buy then m <| m_buys := keep |> else m <| m_sells := keep |>) <| m_gone := m_gone m ++ e |>, e).

Definition report_expirations (l : list O) (t : Z) : list record := map (fun o => RExpire o t) l.
