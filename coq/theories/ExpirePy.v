(* Static prelude of the seventeenth translator (harness/py2coq_expire.py): the expiry index of an OrderBook - Python's insertion-ordered
   dict `expiry time -> list of orders` - and dict.pop. *)
Require Import Pams.Prelude Pams.Match Pams.Market Pams.OrderPy.
Open Scope Z_scope.

Definition xtable := list (Z * list O).
Definition xpop (k : Z) (t : xtable) : xtable := filter (fun kv => negb (fst kv =? k)) t.

(* OrderBook.add files an order with a time to live under accept time + ttl *)
Definition filed_ok (t : xtable) : Prop :=
  forall k l o, In (k, l) t -> In o l -> exists d, ttl o = Some d /\ placed o + d = k.

(* dict lookup; the keys of a dict are distinct *)
Definition xget (k : Z) (t : xtable) : list O :=
  match find (fun kv => fst kv =? k) t with Some kv => snd kv | None => [] end.

Lemma xget_in (t : xtable) : NoDup (map fst t) -> forall k l, In (k, l) t -> xget k t = l.
Proof.
  induction t as [|[k0 l0] t IH]; intros ND k l Hi; [destruct Hi|].
  cbn [map fst] in ND. apply NoDup_cons_iff in ND. destruct ND as [Hn ND].
  unfold xget. cbn [find fst]. destruct Hi as [E|Hi].
  - inversion E; subst. rewrite Z.eqb_refl. reflexivity.
  - destruct (k0 =? k) eqn:E.
    + apply Z.eqb_eq in E. subst k0. exfalso. apply Hn. apply in_map_iff. exists (k, l). split; [reflexivity|exact Hi].
    + apply (IH ND k l Hi).
Qed.

(* collecting the buckets through their keys is collecting the buckets *)
Lemma concat_via_keys (t : xtable) (f : Z * list O -> bool) : NoDup (map fst t) ->
  concat (map (fun k => xget k t) (map fst (filter f t))) = concat (map snd (filter f t)).
Proof.
  intros ND. rewrite map_map. f_equal. apply map_ext_in. intros [k l] Hi. apply filter_In in Hi. destruct Hi as [Hi _].
  cbn [fst snd]. apply xget_in; assumption.
Qed.
