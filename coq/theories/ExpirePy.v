(* Static prelude of the seventeenth translator (harness/py2coq_expire.py): the expiry index of an OrderBook - Python's insertion-ordered
   dict `expiry time -> list of orders` - and dict.pop. *)
Require Import Pams.Prelude Pams.Match Pams.Market Pams.OrderPy.
Open Scope Z_scope.

Definition xtable := list (Z * list O).
Definition xpop (k : Z) (t : xtable) : xtable := filter (fun kv => negb (fst kv =? k)) t.

(* OrderBook.add files an order with a time to live under accept time + ttl *)
Definition filed_ok (t : xtable) : Prop :=
  forall k l o, In (k, l) t -> In o l -> exists d, ttl o = Some d /\ placed o + d = k.
