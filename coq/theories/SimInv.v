(* Run-level invariants of the Level-S model, lifted over the whole run with SimLift.run_pres:
   C05 (holdings = endowment folded with the fills; conservation), C10 (every record delivered to the
   logger exactly once, in order), C09/C16 (no fill in a session configured without execution; no fill on a
   market that is not running). *)
Require Import Pams.Prelude Pams.Tick Pams.Match Pams.Market Pams.MatchQ Pams.MarketInv Pams.MarketExec Pams.MarketPost
               Pams.MarketLife Pams.Sim Pams.SimLift.
From RecordUpdate Require Import RecordSet.
Import RecordSetNotations.
From Coq Require Import Lqa.
Open Scope Z_scope.

(* ---------------- projections of the event list ---------------- *)
Definition truth_of (e : event) : list record := match e with EvTruth r _ => [r] | _ => [] end.
Definition deliv_of (e : event) : list record := match e with EvLog r => [r] | _ => [] end.
Definition is_fill (r : record) : bool := match r with RExec _ _ _ _ _ _ _ _ => true | _ => false end.
Definition truths (l : list event) : list record := flat_map truth_of l.
Definition delivered (l : list event) : list record := flat_map deliv_of l.
Definition fills (l : list event) : list record := filter is_fill (truths l).

Lemma truths_app a b : truths (a ++ b) = truths a ++ truths b. Proof. apply flat_map_app. Qed.
Lemma delivered_app a b : delivered (a ++ b) = delivered a ++ delivered b. Proof. apply flat_map_app. Qed.
Lemma fills_app a b : fills (a ++ b) = fills a ++ fills b.
Proof. unfold fills. rewrite truths_app, filter_app. reflexivity. Qed.

Definition no_truth (l : list event) : Prop := truths l = [].
Arguments fills : simpl never.
Arguments truths : simpl never.
Arguments delivered : simpl never.

Lemma obs_no_truth e : quiet_event e -> truth_of e = [] /\ deliv_of e = [].
Proof. destruct e; simpl; intros H; try contradiction; auto. Qed.
Lemma boundary_no_truth e : boundary_event e -> truth_of e = [] /\ deliv_of e = [].
Proof. destruct e; simpl; intros H; try contradiction; auto. Qed.

(* what the markets' operations return *)
Lemma add_order_record m ag mk buy p v ttlv m' rc :
  add_order m ag mk buy p v ttlv = Ok (m', rc) -> exists o, rc = ROrder o.
Proof. intros H. destruct (add_order_next _ _ _ _ _ _ _ _ _ H) as [_ [_ [o [-> _]]]]. eauto. Qed.

Lemma cancel_order_record m i m' rc : cancel_order m i = Ok (m', rc) -> exists o c, rc = Market.RCancel o c.
Proof.
  unfold cancel_order. destruct (m_time m <? 0); [discriminate|].
  destruct (find_id i (m_buys m)); [|destruct (find_id i (m_sells m)); [|destruct (find_id i (m_gone m)); [|discriminate]]];
    intros H; inversion H; eauto.
Qed.

Lemma execution_records m m' logs : execution m = Ok (m', logs) -> forallb is_fill logs = true.
Proof.
  unfold execution. destruct (negb (executable m)); [intros H; inversion H; reflexivity|].
  destruct (run_walk m) as [[p|] fs]; [|discriminate].
  destruct (apply_fills p m fs) as [[m1 lg]|] eqn:E; [|discriminate]. simpl.
  destruct (executable m1); [discriminate|]. intros H; inversion H; subst.
  rewrite (apply_fills_logs _ _ _ _ _ E). clear. induction fs; simpl; auto.
Qed.

Lemma tick_records_kind m f m' recs : tick m f = (m', recs) -> forallb (fun r => negb (is_fill r)) recs = true.
Proof.
  intros H. pose proof (tick_records m f) as T. rewrite H in T. simpl in T. subst recs.
  generalize (by_id (filter (expired (m_time m + 1)) (m_buys m)) ++ by_id (filter (expired (m_time m + 1)) (m_sells m))).
  intros l. induction l; simpl; auto.
Qed.

(* ---------------- the state after a sequence of log_event ---------------- *)
Lemma log_events_trace (rs : list record) : forall s,
  let s' := fold_left (fun s r => log_event s r []) rs s in
  s_trace s' = rev (map (fun r => EvTruth r []) rs) ++ s_trace s /\
  s_pending s' = s_pending s ++ map EvLog rs /\
  s_agents s' = s_agents s /\ s_markets s' = s_markets s /\ s_sessions s' = s_sessions s /\ s_events s' = s_events s /\
  s_cur s' = s_cur s /\ s_err s' = s_err s.
Proof.
  induction rs as [|r rest IH]; intros s; cbn [fold_left map rev app].
  - rewrite app_nil_r. repeat split; reflexivity.
  - destruct (IH (log_event s r [])) as [T [Pd [A [M [Se [Ev [C Er]]]]]]]. cbv zeta in *.
    rewrite T, Pd, A, M, Se, Ev, C, Er. unfold log_event, write, emit. cbn.
    rewrite <- !app_assoc. repeat split; reflexivity.
Qed.

Lemma truths_map_truth rs : truths (map (fun r => EvTruth r []) rs) = rs.
Proof. induction rs; simpl; auto. unfold truths in *. simpl. f_equal. auto. Qed.
Lemma delivered_map_truth rs : delivered (map (fun r => EvTruth r []) rs) = [].
Proof. induction rs; simpl; auto. Qed.
Lemma delivered_map_log rs : delivered (map EvLog rs) = rs.
Proof. induction rs; simpl; auto. unfold delivered in *. simpl. f_equal. auto. Qed.
Lemma truths_map_log rs : truths (map EvLog rs) = [].
Proof. induction rs; simpl; auto. Qed.

(* ======================================================================================
   C10: every record the markets produce is delivered to the logger exactly once, in order
   ====================================================================================== *)
Definition deliv_inv (s : sim) : Prop :=
  truths (rev (s_trace s)) = delivered (rev (s_trace s)) ++ delivered (s_pending s) /\ no_truth (s_pending s).

Lemma deliv_inv_log_events rs s : deliv_inv s -> deliv_inv (fold_left (fun s r => log_event s r []) rs s).
Proof.
  intros [H1 H2]. destruct (log_events_trace rs s) as [T [Pd _]]. cbv zeta in *. unfold deliv_inv, no_truth.
  rewrite T, Pd. rewrite rev_app_distr, rev_involutive, !truths_app, !delivered_app.
  rewrite truths_map_truth, delivered_map_truth, delivered_map_log, truths_map_log, H1, H2. simpl.
  rewrite app_nil_r, <- !app_assoc. auto.
Qed.

Lemma truths_one e : truths [e] = truth_of e. Proof. unfold truths. simpl. apply app_nil_r. Qed.
Lemma delivered_one e : delivered [e] = deliv_of e. Proof. unfold delivered. simpl. apply app_nil_r. Qed.

Lemma deliv_inv_log_event s r extra : deliv_inv s -> deliv_inv (log_event s r extra).
Proof.
  intros [H1 H2]. unfold deliv_inv, no_truth, log_event, write, emit in *. cbn.
  rewrite !truths_app, !delivered_app, !truths_one, !delivered_one. simpl. rewrite H1, H2, app_nil_r, <- app_assoc. auto.
Qed.

Lemma deliv_inv_ext s s' :
  s_trace s' = s_trace s -> s_pending s' = s_pending s -> deliv_inv s -> deliv_inv s'.
Proof. unfold deliv_inv. intros -> ->. auto. Qed.

Lemma set_market_fields s i m :
  s_trace (set_market s i m) = s_trace s /\ s_pending (set_market s i m) = s_pending s /\
  s_agents (set_market s i m) = s_agents s /\ s_sessions (set_market s i m) = s_sessions s /\
  s_events (set_market s i m) = s_events s /\ s_cur (set_market s i m) = s_cur s /\ s_err (set_market s i m) = s_err s.
Proof. unfold set_market. cbn. repeat split; reflexivity. Qed.

Lemma fail_fields s e :
  s_trace (fail s e) = s_trace s /\ s_pending (fail s e) = s_pending s /\ s_agents (fail s e) = s_agents s /\
  s_markets (fail s e) = s_markets s /\ s_sessions (fail s e) = s_sessions s /\ s_events (fail s e) = s_events s /\
  s_cur (fail s e) = s_cur s.
Proof. unfold fail. destruct (s_err s); cbn; repeat split; reflexivity. Qed.

Ltac same_trace := first [reflexivity | solve [cbn; reflexivity]].

Lemma halt_after_fields s e mkid :
  s_trace (halt_after_execution s e mkid) = s_trace s /\ s_pending (halt_after_execution s e mkid) = s_pending s /\
  s_agents (halt_after_execution s e mkid) = s_agents s.
Proof.
  unfold halt_after_execution. destruct (es_kind e); try (repeat split; reflexivity).
  destruct (find_mkt mkid (s_markets s)) as [x|]; [|destruct (fail_fields s EIndex) as [? [? [? _]]]; auto].
  destruct (mprice_at x 0); [|destruct (fail_fields s EAssertNone) as [? [? [? _]]]; auto].
  destruct (mprice_at x (mtime x)); [|destruct (fail_fields s EAssertNone) as [? [? [? _]]]; auto].
  destruct (negb (m_running (mk_m x))); [repeat split; reflexivity|].
  destruct (_ && _); repeat split; reflexivity.
Qed.

Lemma halt_before_fields s e x :
  s_trace (halt_before_step s e x) = s_trace s /\ s_pending (halt_before_step s e x) = s_pending s /\
  s_agents (halt_before_step s e x) = s_agents s.
Proof.
  unfold halt_before_step. destruct (es_kind e); try (repeat split; reflexivity).
  destruct (_ && _); [|repeat split; reflexivity].
  destruct (es_halted e) as [[hm hs]|]; [|repeat split; reflexivity].
  destruct (negb (hm =? m_id (mk_m x))); [repeat split; reflexivity|].
  destruct (hs =? s_cur s); repeat split; reflexivity.
Qed.

Lemma shock_fields s e x :
  s_trace (shock_before_step s e x) = s_trace s /\ s_pending (shock_before_step s e x) = s_pending s /\
  s_agents (shock_before_step s e x) = s_agents s.
Proof.
  unfold shock_before_step. destruct (es_kind e); try (repeat split; reflexivity).
  destruct (negb _); [destruct (fail_fields s EHook) as [? [? [? _]]]; auto|].
  destruct (negb _); [destruct (fail_fields s EHook) as [? [? [? _]]]; auto|].
  destruct (geto _ _); [repeat split; reflexivity|destruct (fail_fields s EAssertNone) as [? [? [? _]]]; auto].
Qed.

Lemma pop_perm_fields s :
  s_trace (fst (pop_perm s)) = s_trace s /\ s_pending (fst (pop_perm s)) = s_pending s /\ s_agents (fst (pop_perm s)) = s_agents s.
Proof. unfold pop_perm. destruct (s_tape s) as [|[l|x] r]; simpl; try (destruct (fail_fields s EOther) as [? [? [? _]]]; auto); repeat split; reflexivity. Qed.
Lemma pop_draw_fields s :
  s_trace (fst (pop_draw s)) = s_trace s /\ s_pending (fst (pop_draw s)) = s_pending s /\ s_agents (fst (pop_draw s)) = s_agents s.
Proof. unfold pop_draw. destruct (s_tape s) as [|[l|x] r]; simpl; try (destruct (fail_fields s EOther) as [? [? [? _]]]; auto); repeat split; reflexivity. Qed.

Lemma consult_fields s aid :
  (s_trace (fst (consult s aid)) = s_trace s \/ exists n, s_trace (fst (consult s aid)) = EvConsult aid n :: s_trace s) /\
  s_pending (fst (consult s aid)) = s_pending s /\ s_agents (fst (consult s aid)) = s_agents s.
Proof.
  unfold consult. destruct (s_batches s) as [|[a b] r]; simpl.
  - destruct (fail_fields s EOther) as [? [? [? _]]]; auto.
  - destruct (a =? aid); simpl.
    + split; [right; eexists; reflexivity|]. split; reflexivity.
    + destruct (fail_fields s EOther) as [? [? [? _]]]; auto.
Qed.

Lemma deliv_inv_emit' s e : truth_of e = [] -> deliv_of e = [] -> deliv_inv s -> deliv_inv (emit s e).
Proof.
  intros Et Ed [H1 H2]. unfold deliv_inv, emit. cbn.
  rewrite truths_app, delivered_app, truths_one, delivered_one, Et, Ed, H1, !app_nil_r. auto.
Qed.

Lemma deliv_inv_emit s e : quiet_event e -> deliv_inv s -> deliv_inv (emit s e).
Proof.
  intros He [H1 H2]. destruct (obs_no_truth e He) as [Et Ed]. unfold deliv_inv, emit. cbn.
  rewrite truths_app, delivered_app, truths_one, delivered_one, Et, Ed, H1, !app_nil_r. auto.
Qed.

Theorem deliv_inv_run c tape batches funds : deliv_inv (run c tape batches funds).
Proof.
  apply run_pres.
  - intros s e H. destruct (fail_fields s e) as [T [Pd _]]. eapply deliv_inv_ext; eauto.
  - intros s e He. apply deliv_inv_emit. apply obs_quiet; exact He.
  - apply callback_from_emit.
    + intros s e H. destruct (fail_fields s e) as [T [Pd _]]. eapply deliv_inv_ext; eauto.
    + intros s a kind r hold sw run. apply deliv_inv_emit. exact I.
  - apply step_from_quiet. apply deliv_inv_emit.
  - intros s e He [H1 H2]. destruct (boundary_no_truth e He) as [Et Ed]. unfold deliv_inv, no_truth, flush, write. cbn.
    rewrite rev_app_distr, !rev_involutive, !truths_app, !delivered_app, !truths_one, !delivered_one. rewrite H1.
    unfold no_truth in H2. rewrite H2, Et, Ed. simpl. rewrite !app_nil_r. auto.
  - intros s mkid x ag mk buy p v ttlv m' rc tag _ _ H. unfold do_accept_order. apply deliv_inv_log_event.
    eapply deliv_inv_ext; [| |exact H]; reflexivity.
  - intros s mkid x i m' rc _ _ H. unfold do_accept_cancel. apply deliv_inv_log_event.
    eapply deliv_inv_ext; [| |exact H]; reflexivity.
  - intros s mkid x _ _ H. apply deliv_inv_emit'; auto.
  - intros s mkid x m' logs _ _ _ _ H. unfold do_fills.
    eapply deliv_inv_ext; [| |apply (deliv_inv_log_events logs (set_market s mkid m'))]; try reflexivity.
    eapply deliv_inv_ext; [| |exact H]; reflexivity.
  - apply tick_all_pres.
    + intros s e H. destruct (fail_fields s e) as [T [Pd _]]. eapply deliv_inv_ext; eauto.
    + intros s x f m' recs _ _ H. unfold do_tick. apply deliv_inv_log_events.
      eapply deliv_inv_ext; [| |exact H]; reflexivity.
  - intros s H. destruct (pop_perm_fields s) as [T [Pd _]]. eapply deliv_inv_ext; eauto.
  - intros s H. destruct (pop_draw_fields s) as [T [Pd _]]. eapply deliv_inv_ext; eauto.
  - intros s aid H. destruct (consult_fields s aid) as [[T|[n T]] [Pd _]].
    + eapply deliv_inv_ext; eauto.
    + pose proof (deliv_inv_emit s (EvConsult aid n) I H) as G. eapply deliv_inv_ext; [| |exact G]; auto.
  - intros s eid H. eapply deliv_inv_ext; [| |exact H]; reflexivity.
  - intros s e mkid _ _ H. destruct (halt_after_fields s e mkid) as [T [Pd _]]. eapply deliv_inv_ext; eauto.
  - intros s e x _ _ H. destruct (halt_before_fields s e x) as [T [Pd _]]. eapply deliv_inv_ext; eauto.
  - intros s e x _ H. destruct (shock_fields s e x) as [T [Pd _]]. eapply deliv_inv_ext; eauto.
  - intros s sid H. eapply deliv_inv_ext; [| |exact H]; reflexivity.
  - intros s H. eapply deliv_inv_ext; [| |exact H]; reflexivity.
  - unfold deliv_inv, no_truth, init_sim. cbn. auto.
Qed.

(* a run that ends normally has flushed: nothing is pending *)
Lemma run_end_flushed c tape batches funds :
  s_err (run c tape batches funds) = None -> s_pending (run c tape batches funds) = [].
Proof.
  unfold run. set (s1 := fold_left run_session _ _). unfold ok.
  destruct (s_err s1) eqn:E; simpl.
  - intros H. congruence.
  - intros _. reflexivity.
Qed.

Theorem logger_sees_every_record_once_in_order c tape batches funds :
  s_err (run c tape batches funds) = None ->
  delivered (events_of (run c tape batches funds)) = truths (events_of (run c tape batches funds)).
Proof.
  intros H. destruct (deliv_inv_run c tape batches funds) as [H1 _]. unfold events_of.
  rewrite H1, (run_end_flushed _ _ _ _ H). simpl. rewrite app_nil_r. reflexivity.
Qed.

(* ======================================================================================
   C05: holdings are the endowment folded, in order, with the fills; nothing else changes them
   ====================================================================================== *)
Definition hold_inv (a0 : list agent) (s : sim) : Prop :=
  s_agents s = fold_left apply_fill_holdings (fills (rev (s_trace s))) a0 /\ no_truth (s_pending s).

Lemma hold_inv_ext a0 s s' :
  s_trace s' = s_trace s -> s_agents s' = s_agents s -> s_pending s' = s_pending s -> hold_inv a0 s -> hold_inv a0 s'.
Proof. unfold hold_inv. intros -> -> ->. auto. Qed.

Lemma fills_rev_cons e tr : fills (rev (e :: tr)) = fills (rev tr) ++ filter is_fill (truth_of e).
Proof. simpl. rewrite fills_app. f_equal. unfold fills. rewrite truths_one. reflexivity. Qed.

Lemma fills_snoc l e : fills (l ++ [e]) = fills l ++ filter is_fill (truth_of e).
Proof. rewrite fills_app. f_equal. unfold fills. rewrite truths_one. reflexivity. Qed.

Lemma hold_inv_emit_nonfill a0 s e : filter is_fill (truth_of e) = [] -> hold_inv a0 s -> hold_inv a0 (emit s e).
Proof. intros He [H H2]. unfold hold_inv, emit in *. cbn. rewrite fills_snoc, He, app_nil_r. auto. Qed.

Lemma hold_inv_log_event_nonfill a0 s r extra : is_fill r = false -> hold_inv a0 s -> hold_inv a0 (log_event s r extra).
Proof.
  intros Hr [H H2]. unfold log_event, write, emit, hold_inv, no_truth in *. cbn.
  rewrite fills_snoc. simpl. rewrite Hr, app_nil_r. split; auto.
  rewrite truths_app, H2. reflexivity.
Qed.

Lemma filter_all {A} (f : A -> bool) l : forallb f l = true -> filter f l = l.
Proof. induction l as [|x r IH]; simpl; auto. destruct (f x); simpl; [intros; f_equal; auto|discriminate]. Qed.
Lemma filter_none {A} (f : A -> bool) l : forallb (fun x => negb (f x)) l = true -> filter f l = [].
Proof. induction l as [|x r IH]; simpl; auto. destruct (f x); simpl; [discriminate|auto]. Qed.

Lemma hold_inv_log_events_nonfill a0 rs : forallb (fun r => negb (is_fill r)) rs = true ->
  forall s, hold_inv a0 s -> hold_inv a0 (fold_left (fun s r => log_event s r []) rs s).
Proof.
  induction rs as [|r rest IH]; simpl; intros Hr s H; auto.
  apply andb_prop in Hr. destruct Hr as [Hr1 Hr2]. apply IH; auto.
  apply hold_inv_log_event_nonfill; auto. destruct (is_fill r); auto; discriminate.
Qed.

(* hold_inv is preserved by every atomic update (one lemma per hypothesis of SimLift.run_pres) *)
Section HoldInvSteps.
Variable a0 : list agent.
Let P := hold_inv a0.
Lemma HI_fail : forall s e, P s -> P (fail s e).
Proof. intros s e H. destruct (fail_fields s e) as [T [Pd [A _]]]. eapply hold_inv_ext; eauto. Qed.
Lemma HI_emit : forall s e, obs_event e -> P s -> P (emit s e).
Proof. intros s e He H. apply hold_inv_emit_nonfill; auto. destruct (obs_no_truth e (obs_quiet e He)) as [-> _]. reflexivity. Qed.
Lemma HI_callback : forall s aid kind r mkid, P s -> P (callback s aid kind r mkid).
Proof.
  apply callback_from_emit; [apply HI_fail|].
  intros s a kind r hold sw run H. apply hold_inv_emit_nonfill; auto.
Qed.
Lemma HI_step : forall s kind mkid x, find_mkt mkid (s_markets s) = Some x -> P s -> P (emit s (ev_step s kind x)).
Proof. intros s kind mkid x _ H. apply hold_inv_emit_nonfill; auto. Qed.
Lemma HI_boundary : forall s e, boundary_event e -> P s -> P (flush (write s e)).
Proof.
  intros s e He [H H2]. destruct (boundary_no_truth e He) as [Et Ed]. unfold P, hold_inv, no_truth, flush, write in *. cbn.
  split; auto. rewrite rev_app_distr, !rev_involutive, !fills_app.
  assert (F1 : fills (s_pending s) = []) by (unfold fills; rewrite H2; reflexivity).
  assert (F2 : fills [e] = []) by (unfold fills; rewrite truths_one, Et; reflexivity).
  rewrite F1, F2, !app_nil_r. exact H.
Qed.
Lemma HI_accept_order : forall s mkid x ag mk buy p v ttlv m' rc tag,
  find_mkt mkid (s_markets s) = Some x -> add_order (mk_m x) ag mk buy p v ttlv = Ok (m', rc) ->
  P s -> P (do_accept_order s mkid x m' rc tag).
Proof.
  intros s mkid x ag mk buy p v ttlv m' rc tag _ Ha H. destruct (add_order_record _ _ _ _ _ _ _ _ _ Ha) as [o ->].
  unfold do_accept_order. apply hold_inv_log_event_nonfill; [reflexivity|].
  eapply hold_inv_ext; [| | |exact H]; reflexivity.
Qed.
Lemma HI_accept_cancel : forall s mkid x i m' rc,
  find_mkt mkid (s_markets s) = Some x -> cancel_order (mk_m x) i = Ok (m', rc) -> P s -> P (do_accept_cancel s mkid m' rc).
Proof.
  intros s mkid x i m' rc _ Hc H. destruct (cancel_order_record _ _ _ _ Hc) as [o [ct ->]].
  unfold do_accept_cancel. apply hold_inv_log_event_nonfill; [reflexivity|].
  eapply hold_inv_ext; [| | |exact H]; reflexivity.
Qed.
Lemma HI_round : forall s mkid x, find_mkt mkid (s_markets s) = Some x -> cur_switch s = true ->
  P s -> P (emit s (EvRound mkid (m_running (mk_m x)) (s_cur s))).
Proof. intros s mkid x _ _ H. apply hold_inv_emit_nonfill; auto. Qed.
Lemma HI_fills : forall s mkid x m' logs,
  find_mkt mkid (s_markets s) = Some x -> execution (mk_m x) = Ok (m', logs) -> cur_switch s = true ->
  (exists tr, s_trace s = EvRound mkid (m_running (mk_m x)) (s_cur s) :: tr) -> P s -> P (do_fills s mkid m' logs).
Proof.
  intros s mkid x m' logs _ He _ _ [H H2]. pose proof (execution_records _ _ _ He) as Hl.
  unfold do_fills. destruct (log_events_trace logs (set_market s mkid m')) as [T [Pd [A _]]]. cbv zeta in *.
  destruct (set_market_fields s mkid m') as [T0 [P0 [A0 _]]].
  unfold P, hold_inv, no_truth. cbn [s_agents s_trace s_pending set]. rewrite T, Pd, A, T0, P0, A0.
  rewrite rev_app_distr, rev_involutive, fills_app.
  assert (F : fills (map (fun r => EvTruth r []) logs) = logs) by (unfold fills; rewrite truths_map_truth; apply filter_all; auto).
  rewrite F, fold_left_app, <- H. split; auto.
  rewrite truths_app, truths_map_log. unfold no_truth in H2. rewrite H2. reflexivity.
Qed.
Lemma HI_tick_all : forall s, P s -> P (tick_all s).
Proof.
  apply tick_all_pres.
  - apply HI_fail.
  - intros s x f m' recs _ Ht H. unfold do_tick. apply hold_inv_log_events_nonfill.
    + eapply tick_records_kind; eauto.
    + eapply hold_inv_ext; [| | |exact H]; reflexivity.
Qed.
Lemma HI_pop_perm : forall s, P s -> P (fst (pop_perm s)).
Proof. intros s H. destruct (pop_perm_fields s) as [T [Pd A]]. eapply hold_inv_ext; eauto. Qed.
Lemma HI_pop_draw : forall s, P s -> P (fst (pop_draw s)).
Proof. intros s H. destruct (pop_draw_fields s) as [T [Pd A]]. eapply hold_inv_ext; eauto. Qed.
Lemma HI_consult : forall s aid, P s -> P (fst (consult s aid)).
Proof.
  intros s aid H. destruct (consult_fields s aid) as [[T|[n T]] [Pd A]].
  - eapply hold_inv_ext; eauto.
  - pose proof (hold_inv_emit_nonfill a0 s (EvConsult aid n) eq_refl H) as G. eapply hold_inv_ext; [| | |exact G]; auto.
Qed.
Lemma HI_spent : forall s eid, P s -> P (s <| s_events := upd_event eid (fun e => e <| es_spent := true |>) (s_events s) |>).
Proof. intros s eid H. eapply hold_inv_ext; [| | |exact H]; reflexivity. Qed.
Lemma HI_halt_after : forall s e mkid, In e (s_events s) -> round_ctx mkid s -> P s -> P (halt_after_execution s e mkid).
Proof. intros s e mkid _ _ H. destruct (halt_after_fields s e mkid) as [T [Pd A]]. eapply hold_inv_ext; eauto. Qed.
Lemma HI_halt_before : forall s e x, In e (s_events s) -> find_mkt (m_id (mk_m x)) (s_markets s) = Some x -> P s -> P (halt_before_step s e x).
Proof. intros s e x _ _ H. destruct (halt_before_fields s e x) as [T [Pd A]]. eapply hold_inv_ext; eauto. Qed.
Lemma HI_shock : forall s e x, find_mkt (m_id (mk_m x)) (s_markets s) = Some x -> P s -> P (shock_before_step s e x).
Proof. intros s e x _ H. destruct (shock_fields s e x) as [T [Pd A]]. eapply hold_inv_ext; eauto. Qed.
Lemma HI_set_cur : forall s sid, P s -> P (s <| s_cur := sid |>).
Proof. intros s sid H. eapply hold_inv_ext; [| | |exact H]; reflexivity. Qed.
Lemma HI_begin_iteration : forall s, P s -> P (begin_iteration s).
Proof. intros s H. eapply hold_inv_ext; [| | |exact H]; reflexivity. Qed.
End HoldInvSteps.

Theorem hold_inv_run c tape batches funds :
  hold_inv (s_agents (init_sim c tape batches funds)) (run c tape batches funds).
Proof.
  set (a0 := s_agents (init_sim c tape batches funds)).
  apply (run_pres (hold_inv a0) (HI_fail a0) (HI_emit a0) (HI_callback a0) (HI_step a0) (HI_boundary a0) (HI_accept_order a0) (HI_accept_cancel a0)
           (HI_round a0) (HI_fills a0) (HI_tick_all a0) (HI_pop_perm a0) (HI_pop_draw a0) (HI_consult a0) (HI_spent a0)
           (HI_halt_after a0) (HI_halt_before a0) (HI_shock a0) (HI_set_cur a0) (HI_begin_iteration a0)).
  unfold hold_inv, no_truth, init_sim. cbn. auto.
Qed.

(* at the end of every run, each agent's holdings are the endowment folded with the run's fills in order *)
Theorem holdings_are_endowment_plus_fills c tape batches funds :
  s_agents (run c tape batches funds) =
  fold_left apply_fill_holdings (fills (events_of (run c tape batches funds))) (s_agents (init_sim c tape batches funds)).
Proof. apply hold_inv_run. Qed.


(* ======================================================================================
   C09 / C16: fills only happen inside a matching round, on a running market, in a session
   configured with execution - whatever events are configured
   ====================================================================================== *)
Definition fill_on (mk : Z) (r : record) : Prop :=
  match r with RExec m _ _ _ _ _ _ _ => m = mk | _ => False end.

(* shape of the trace (newest first): fills only occur as a block directly after the round event of their market,
   and a non-empty block means the market was running *)
Inductive tagged : list event -> Prop :=
| tg_nil : tagged []
| tg_other e tr : (forall r x, e = EvTruth r x -> is_fill r = false) -> tagged tr -> tagged (e :: tr)
| tg_fills logs mk run sid tr :
    Forall (fill_on mk) logs -> (logs = [] \/ run = true) -> tagged tr ->
    tagged (rev (map (fun r => EvTruth r []) logs) ++ EvRound mk run sid :: tr).

Definition no_round (l : list event) : Prop := Forall (fun e => match e with EvRound _ _ _ | EvTruth _ _ => False | _ => True end) l.

Definition switch_inv (s : sim) : Prop :=
  NoDup (map se_id (s_sessions s)) /\
  (forall x, In x (s_sessions s) -> se_exec x = true -> se_cfg_exec x = true) /\
  (forall e m sid x, In e (s_events s) -> es_halted e = Some (m, sid) -> In x (s_sessions s) -> se_id x = sid -> se_cfg_exec x = true) /\
  (forall mk run sid, In (EvRound mk run sid) (s_trace s) -> exists x, In x (s_sessions s) /\ se_id x = sid /\ se_cfg_exec x = true) /\
  no_round (s_pending s) /\ tagged (s_trace s).

Lemma find_sess_In i l x : find_sess i l = Some x -> In x l /\ se_id x = i.
Proof.
  induction l as [|y r IH]; simpl; [discriminate|]. destruct (se_id y =? i) eqn:E.
  - intros H; injection H as ->. apply Z.eqb_eq in E. auto.
  - intros H. destruct (IH H). auto.
Qed.

Lemma sess_unique l (x y : sess) : NoDup (map se_id l) -> In x l -> In y l -> se_id x = se_id y -> x = y.
Proof.
  induction l as [|a r IH]; simpl; intros H Hx Hy E; [destruct Hx|].
  inversion H as [|? ? Hn Hr]; subst. destruct Hx as [->|Hx], Hy as [->|Hy]; auto.
  - exfalso. apply Hn. rewrite E. apply in_map. auto.
  - exfalso. apply Hn. rewrite <- E. apply in_map. auto.
Qed.

Lemma upd_sess_ids i f l : (forall x, se_id (f x) = se_id x) -> map se_id (upd_sess i f l) = map se_id l.
Proof. intros Hf. unfold upd_sess. rewrite map_map. apply map_ext. intros x. destruct (se_id x =? i); auto. Qed.

Lemma In_upd_sess i f l y : In y (upd_sess i f l) -> exists x, In x l /\ (y = x \/ (se_id x = i /\ y = f x)).
Proof.
  unfold upd_sess. rewrite in_map_iff. intros [x [E Hin]]. exists x. split; auto.
  destruct (se_id x =? i) eqn:Ei; [right|left; auto]. apply Z.eqb_eq in Ei. auto.
Qed.

Lemma In_upd_event i f l y : In y (upd_event i f l) -> exists x, In x l /\ (y = x \/ y = f x).
Proof.
  unfold upd_event. rewrite in_map_iff. intros [x [E Hin]]. exists x. split; auto.
  destruct (es_id x =? i); auto.
Qed.

Lemma switch_inv_ext s s' :
  s_sessions s' = s_sessions s -> s_events s' = s_events s -> s_trace s' = s_trace s -> s_pending s' = s_pending s ->
  switch_inv s -> switch_inv s'.
Proof. unfold switch_inv. intros -> -> -> ->. auto. Qed.

Lemma tagged_other_truth r x tr : is_fill r = false -> tagged tr -> tagged (EvTruth r x :: tr).
Proof. intros Hr H. apply tg_other; auto. intros r0 x0 E. inversion E; subst; auto. Qed.

Lemma switch_inv_emit s e :
  (forall r x, e = EvTruth r x -> is_fill r = false) -> (forall mk run sid, e <> EvRound mk run sid) ->
  switch_inv s -> switch_inv (emit s e).
Proof.
  intros He Hr [N [A [B [C [D T]]]]]. unfold switch_inv, emit. cbn. repeat split; auto.
  - intros mk run sid [E|Hin]; [exfalso; eapply Hr; eauto|eauto].
  - apply tg_other; auto.
Qed.

Lemma switch_inv_log_event s r extra : is_fill r = false -> switch_inv s -> switch_inv (log_event s r extra).
Proof.
  intros Hr [N [A [B [C [D T]]]]]. unfold switch_inv, log_event, write, emit. cbn. repeat split; auto.
  - intros mk run sid [E|Hin]; [discriminate|eauto].
  - unfold no_round in *. apply Forall_app. split; auto.
  - apply tagged_other_truth; auto.
Qed.

Lemma switch_inv_log_events_nonfill rs : forallb (fun r => negb (is_fill r)) rs = true ->
  forall s, switch_inv s -> switch_inv (fold_left (fun s r => log_event s r []) rs s).
Proof.
  induction rs as [|r rest IH]; simpl; intros Hr s H; auto.
  apply andb_prop in Hr. destruct Hr as [Hr1 Hr2]. apply IH; auto.
  apply switch_inv_log_event; auto. destruct (is_fill r); auto; discriminate.
Qed.

Lemma tagged_app_plain l tr : no_round l -> tagged tr -> tagged (l ++ tr).
Proof.
  induction l as [|e r IH]; simpl; intros Hn H; auto. inversion Hn as [|? ? He Hr]; subst.
  apply tg_other; auto. intros r0 x0 E. subst. contradiction.
Qed.

Lemma no_round_rev l : no_round l -> no_round (rev l).
Proof. unfold no_round. intros H. apply Forall_rev. auto. Qed.

Lemma no_round_In_round l mk run sid : no_round l -> ~ In (EvRound mk run sid) l.
Proof. unfold no_round. rewrite Forall_forall. intros H C. apply (H _ C). Qed.

Lemma In_upd_sess_fwd i f l x : In x l -> In (if se_id x =? i then f x else x) (upd_sess i f l).
Proof. intros H. unfold upd_sess. apply in_map_iff. exists x. auto. Qed.

Lemma execution_fill_on m m' logs : execution m = Ok (m', logs) -> Forall (fill_on (m_id m)) logs.
Proof.
  unfold execution. destruct (negb (executable m)); [intros H; inversion H; constructor|].
  destruct (run_walk m) as [[p|] fs]; [|discriminate].
  destruct (apply_fills p m fs) as [[m1 lg]|] eqn:E; [|discriminate]. simpl.
  destruct (executable m1); [discriminate|]. intros H; inversion H; subst.
  rewrite (apply_fills_logs _ _ _ _ _ E). clear. induction fs; simpl; constructor; auto. reflexivity.
Qed.

Lemma tagged_after_round mk run sid tr : tagged (EvRound mk run sid :: tr) -> tagged tr.
Proof.
  intros H. inversion H as [|e tr0 He Ht|logs mk0 run0 sid0 tr0 Hf Hl Ht Heq]; subst; auto.
  destruct logs as [|r rest].
  - simpl in Heq. inversion Heq; subst. auto.
  - exfalso.
    assert (G : Forall (fun e => exists r0, e = EvTruth r0 []) (rev (map (fun r0 => EvTruth r0 []) (r :: rest)))).
    { apply Forall_rev. apply Forall_forall. intros z Hz. apply in_map_iff in Hz. destruct Hz as [r0 [<- _]]. eauto. }
    assert (L : length (rev (map (fun r0 => EvTruth r0 []) (r :: rest))) <> 0%nat) by (rewrite rev_length, map_length; simpl; lia).
    destruct (rev (map (fun r0 => EvTruth r0 []) (r :: rest))) as [|e l]; [simpl in L; lia|].
    simpl in Heq. inversion Heq; subst. inversion G as [|? ? [r0 Hr0] _]; subst. discriminate.
Qed.

Lemma mk_sessions_ids l : forall start, map se_id (mk_sessions l start) = map sc_id l.
Proof. induction l as [|c r IH]; simpl; intros; auto. f_equal. auto. Qed.
Lemma mk_sessions_exec l : forall start x, In x (mk_sessions l start) -> se_exec x = se_cfg_exec x.
Proof. induction l as [|c r IH]; simpl; intros start x H; [destruct H|]. destruct H as [<-|H]; eauto. Qed.

Theorem switch_inv_run c tape batches funds :
  NoDup (map sc_id (c_sessions c)) -> switch_inv (run c tape batches funds).
Proof.
  intros Hnd. apply run_pres.
  - (* fail *) intros s e H. destruct (fail_fields s e) as [T [Pd [_ [_ [Se [Ev _]]]]]]. eapply switch_inv_ext; eauto.
  - (* emit *) intros s e He H. apply switch_inv_emit; auto; destruct e; simpl in He; try contradiction; intros; discriminate.
  - (* callback *) apply callback_from_emit.
    + intros s e H. destruct (fail_fields s e) as [T [Pd [_ [_ [Se [Ev _]]]]]]. eapply switch_inv_ext; eauto.
    + intros s a kind r hold sw run H. apply switch_inv_emit; auto; intros; discriminate.
  - (* step record *) intros s kind mkid x _ H. apply switch_inv_emit; auto; intros; discriminate.
  - (* boundary *) intros s e He [N [A [B [C [D T]]]]]. unfold switch_inv, flush, write. cbn. repeat split; auto.
    + intros mk run sid Hin. apply in_app_iff in Hin. destruct Hin as [Hin|Hin]; [|eauto].
      exfalso. apply in_rev in Hin. apply in_app_iff in Hin. destruct Hin as [Hin|[Hin|[]]].
      * eapply no_round_In_round; eauto.
      * subst e. simpl in He. contradiction.
    + constructor.
    + apply tagged_app_plain; auto. apply no_round_rev. unfold no_round in *. apply Forall_app. split; auto.
      constructor; auto. destruct e; simpl in He; try contradiction; auto.
  - (* accept order *) intros s mkid x ag mk buy p v ttlv m' rc tag _ Ha H.
    destruct (add_order_record _ _ _ _ _ _ _ _ _ Ha) as [o ->].
    unfold do_accept_order. apply switch_inv_log_event; [reflexivity|]. eapply switch_inv_ext; [| | | |exact H]; reflexivity.
  - (* accept cancel *) intros s mkid x i m' rc _ Hc H. destruct (cancel_order_record _ _ _ _ Hc) as [o [ct ->]].
    unfold do_accept_cancel. apply switch_inv_log_event; [reflexivity|]. eapply switch_inv_ext; [| | | |exact H]; reflexivity.
  - (* round begins *) intros s mkid x Fx Sw [N [A [B [C [D T]]]]]. unfold switch_inv, emit. cbn. repeat split; auto.
    + intros mk run sid [E|Hin]; [|eauto]. inversion E; subst.
      unfold cur_switch in Sw. destruct (find_sess (s_cur s) (s_sessions s)) as [x0|] eqn:F; [|discriminate].
      destruct (find_sess_In _ _ _ F) as [I0 E0]. exists x0. auto.
    + apply (tg_fills [] mkid (m_running (mk_m x)) (s_cur s) (s_trace s)); auto.
  - (* fills *) intros s mkid x m' logs Fx He Sw [tr Htr] [N [A [B [C [D T]]]]].
    unfold do_fills. destruct (log_events_trace logs (set_market s mkid m')) as [T1 [Pd1 [_ [_ [Se1 [Ev1 _]]]]]]. cbv zeta in *.
    unfold switch_inv. cbn [s_sessions s_events s_trace s_pending set]. rewrite T1, Pd1, Se1, Ev1. cbn. repeat split; auto.
    + intros mk run sid Hin. apply in_app_iff in Hin. destruct Hin as [Hin|Hin]; [|eauto].
      exfalso. apply in_rev in Hin. apply in_map_iff in Hin. destruct Hin as [r0 [E0 _]]. discriminate.
    + unfold no_round in *. apply Forall_app. split; auto. apply Forall_forall. intros z Hz. apply in_map_iff in Hz.
      destruct Hz as [r0 [<- _]]. exact I.
    + rewrite Htr in *. apply tg_fills.
      * rewrite <- (find_mkt_id _ _ _ Fx). eapply execution_fill_on; eauto.
      * destruct logs as [|r0 rest]; [left; auto|right]. eapply no_fill_when_not_running; eauto. discriminate.
      * eapply tagged_after_round; eauto.
  - (* clock *) apply tick_all_pres.
    + intros s e H. destruct (fail_fields s e) as [T [Pd [_ [_ [Se [Ev _]]]]]]. eapply switch_inv_ext; eauto.
    + intros s x f m' recs _ Ht H. unfold do_tick. apply switch_inv_log_events_nonfill.
      * eapply tick_records_kind; eauto.
      * eapply switch_inv_ext; [| | | |exact H]; reflexivity.
  - intros s H. eapply switch_inv_ext; [| | | |exact H]; unfold pop_perm; destruct (s_tape s) as [|[l|q] r]; simpl;
      try reflexivity; destruct (fail_fields s EOther) as [T [Pd [_ [_ [Se [Ev _]]]]]]; auto.
  - intros s H. eapply switch_inv_ext; [| | | |exact H]; unfold pop_draw; destruct (s_tape s) as [|[l|q] r]; simpl;
      try reflexivity; destruct (fail_fields s EOther) as [T [Pd [_ [_ [Se [Ev _]]]]]]; auto.
  - (* consult *) intros s aid H. unfold consult. destruct (s_batches s) as [|[a b] r]; simpl.
    + destruct (fail_fields s EOther) as [T [Pd [_ [_ [Se [Ev _]]]]]]. eapply switch_inv_ext; eauto.
    + destruct (a =? aid); simpl.
      * apply switch_inv_emit; try (intros; discriminate). eapply switch_inv_ext; [| | | |exact H]; reflexivity.
      * destruct (fail_fields s EOther) as [T [Pd [_ [_ [Se [Ev _]]]]]]. eapply switch_inv_ext; eauto.
  - (* order mistake spent *) intros s eid [N [A [B [C [D T]]]]]. unfold switch_inv. cbn. repeat split; auto.
    intros e m sid x Hin Hh. apply In_upd_event in Hin. destruct Hin as [e0 [I0 [->| ->]]]; [eauto|]. cbn in Hh. eauto.
  - (* halt after execution *) intros s e mkid Ie Ctx [N [A [B [C [D T]]]]]. unfold halt_after_execution.
    destruct (es_kind e) eqn:K; try (repeat split; assumption).
    destruct (find_mkt mkid (s_markets s)) as [x|] eqn:Fx;
      [|destruct (fail_fields s EIndex) as [T1 [Pd [_ [_ [Se [Ev _]]]]]]; eapply switch_inv_ext; eauto; repeat split; assumption].
    destruct (mprice_at x 0);
      [|destruct (fail_fields s EAssertNone) as [T1 [Pd [_ [_ [Se [Ev _]]]]]]; eapply switch_inv_ext; eauto; repeat split; assumption].
    destruct (mprice_at x (mtime x));
      [|destruct (fail_fields s EAssertNone) as [T1 [Pd [_ [_ [Se [Ev _]]]]]]; eapply switch_inv_ext; eauto; repeat split; assumption].
    destruct (m_running (mk_m x)) eqn:Run; cbn [negb]; [|repeat split; assumption].
    destruct (_ && _); [|repeat split; assumption].
    (* the halt fires: the market is running, so by the round context the switch is on: the current session executes *)
    assert (Sw : cur_switch s = true).
    { destruct Ctx as [Sw|Nr]; auto. specialize (Nr x Fx). congruence. }
    unfold cur_switch in Sw. destruct (find_sess (s_cur s) (s_sessions s)) as [x0|] eqn:F0; [|discriminate].
    destruct (find_sess_In _ _ _ F0) as [I0 E0]. pose proof (A x0 I0 Sw) as Cfg0.
    unfold switch_inv, set_market. cbn [s_sessions s_events s_trace s_pending set]. repeat split; auto.
    + rewrite upd_sess_ids; [auto|intros; reflexivity].
    + intros y Hy Hex. apply In_upd_sess in Hy. destruct Hy as [x1 [I1 [->|[_ ->]]]]; [auto|]. cbn in Hex. discriminate.
    + intros e' m sid y He' Hh Hy Hid. apply In_upd_sess in Hy.
      assert (exists x1, In x1 (s_sessions s) /\ se_id x1 = se_id y /\ se_cfg_exec x1 = se_cfg_exec y) as [x1 [I1 [Ei Ec]]].
      { destruct Hy as [x1 [I1 [->|[_ ->]]]]; exists x1; auto. }
      rewrite <- Ec. apply In_upd_event in He'. destruct He' as [e0 [Ie0 [->| ->]]].
      * eapply B; eauto. congruence.
      * cbn in Hh. inversion Hh; subst. assert (x1 = x0) by (eapply sess_unique; eauto; congruence). subst. auto.
    + intros mk run sid Hin. destruct (C _ _ _ Hin) as [x1 [I1 [Ei Ec]]].
      exists (if se_id x1 =? s_cur s then x1 <| se_exec := false |> else x1). split; [apply In_upd_sess_fwd; auto|].
      destruct (se_id x1 =? s_cur s); auto.
  - (* halt before step *) intros s e x Ie Fx [N [A [B [C [D T]]]]]. unfold halt_before_step.
    destruct (es_kind e) eqn:K; try (repeat split; assumption).
    destruct (_ && _); [|repeat split; assumption].
    destruct (es_halted e) as [[hm hs]|] eqn:Hh; [|repeat split; assumption].
    destruct (negb (hm =? m_id (mk_m x))); [repeat split; assumption|].
    destruct (hs =? s_cur s) eqn:Ehs.
    + apply Z.eqb_eq in Ehs. unfold switch_inv, set_market. cbn [s_sessions s_events s_trace s_pending set]. repeat split; auto.
      * rewrite upd_sess_ids; [auto|intros; reflexivity].
      * intros y Hy Hex. apply In_upd_sess in Hy. destruct Hy as [x1 [I1 [->|[Ei ->]]]]; [auto|]. cbn.
        cbn in Ei. apply (B e hm hs x1 Ie Hh I1). congruence.
      * intros e' m sid y He' Hh' Hy Hid. apply In_upd_sess in Hy.
        assert (exists x1, In x1 (s_sessions s) /\ se_id x1 = se_id y /\ se_cfg_exec x1 = se_cfg_exec y) as [x1 [I1 [Ei Ec]]].
        { destruct Hy as [x1 [I1 [->|[_ ->]]]]; exists x1; auto. }
        rewrite <- Ec. apply In_upd_event in He'. destruct He' as [e0 [Ie0 [->| ->]]].
        -- eapply B; eauto. congruence.
        -- cbn in Hh'. discriminate.
      * intros mk run sid Hin. destruct (C _ _ _ Hin) as [x1 [I1 [Ei Ec]]].
        exists (if se_id x1 =? s_cur s then x1 <| se_exec := true |> else x1). split; [apply In_upd_sess_fwd; auto|].
        destruct (se_id x1 =? s_cur s); auto.
    + unfold switch_inv, set_market. cbn [s_sessions s_events s_trace s_pending set]. repeat split; auto.
      intros e' m sid y He' Hh' Hy Hid. apply In_upd_event in He'. destruct He' as [e0 [Ie0 [->| ->]]]; [eauto|].
      cbn in Hh'. discriminate.
  - (* shock *) intros s e x _ H. destruct (shock_fields s e x) as [T [Pd _]].
    eapply switch_inv_ext; [| | | |exact H]; auto; unfold shock_before_step; destruct (es_kind e); try reflexivity;
      repeat match goal with |- context [if ?c then _ else _] => destruct c end;
      try (destruct (fail_fields s EHook) as [_ [_ [_ [_ [Se [Ev _]]]]]]; auto; fail);
      destruct (geto _ _); try reflexivity; destruct (fail_fields s EAssertNone) as [_ [_ [_ [_ [Se [Ev _]]]]]]; auto.
  - intros s sid H. eapply switch_inv_ext; [| | | |exact H]; reflexivity.
  - intros s H. eapply switch_inv_ext; [| | | |exact H]; reflexivity.
  - (* initial state *) unfold switch_inv, init_sim. cbn. repeat split.
    + rewrite mk_sessions_ids. exact Hnd.
    + intros x Hx Hex. rewrite <- (mk_sessions_exec _ _ _ Hx). exact Hex.
    + intros e m sid x He Hh. apply in_map_iff in He. destruct He as [ec [<- _]]. cbn in Hh. discriminate.
    + intros mk run sid [].
    + constructor.
    + constructor.
Qed.
