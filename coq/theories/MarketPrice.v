(* C08: market price, mid price, last-trade price and the per-step counters of the Level-M model. *)
Require Import Pams.Prelude Pams.Tick Pams.Match Pams.Market Pams.MatchQ Pams.MarketInv Pams.MarketSeries.
From RecordUpdate Require Import RecordSet.
Import RecordSetNotations.
Open Scope Z_scope.
Local Arguments geto : simpl never.
Local Arguments getz : simpl never.
Local Arguments getq : simpl never.
Local Arguments upd : simpl never.
Local Arguments zi : simpl never.
Local Arguments pad : simpl never.

(* ---------------- storage invariant: every series has a slot for the current time ---------------- *)
Definition series_ok (m : market) : Prop :=
  0 <= m_time m ->
  let n := S (zi (m_time m)) in
  (n <= length (m_mp m) /\ n <= length (m_mid m) /\ n <= length (m_last m) /\ n <= length (m_fund m) /\
   n <= length (m_vol m) /\ n <= length (m_turn m) /\ n <= length (m_nbuy m) /\ n <= length (m_nsell m))%nat /\
  (length (m_mp m) = length (m_mid m) /\ length (m_last m) = length (m_mid m) /\ length (m_fund m) = length (m_mid m) /\
   length (m_vol m) = length (m_mid m) /\ length (m_turn m) = length (m_mid m) /\
   length (m_nbuy m) = length (m_mid m) /\ length (m_nsell m) = length (m_mid m)).

Lemma geto_upd_same {A} (l : list (option A)) t x : (S (zi t) <= length l)%nat -> geto (upd l (zi t) x) t = x.
Proof. intros H. unfold geto. apply upd_nth_same. lia. Qed.
Lemma getz_upd_same l t x : (S (zi t) <= length l)%nat -> getz (upd l (zi t) x) t = x.
Proof. intros H. unfold getz. apply upd_nth_same. lia. Qed.
Lemma getq_upd_same l t x : (S (zi t) <= length l)%nat -> getq (upd l (zi t) x) t = x.
Proof. intros H. unfold getq. apply upd_nth_same. lia. Qed.

(* the mid quote the book implies: defined iff both best orders are limit orders *)
Definition book_mid (m : market) : option Q :=
  match best_price (m_buys m), best_price (m_sells m) with
  | Some b, Some s => Some (qdiv (qadd s b) (2#1))
  | _, _ => None
  end.

Lemma book_mid_value m x : book_mid m = Some x ->
  exists b s, best_price (m_buys m) = Some b /\ best_price (m_sells m) = Some s /\ (x == (s + b) / (2#1))%Q.
Proof.
  unfold book_mid. destruct (best_price (m_buys m)) as [b|]; [|discriminate].
  destruct (best_price (m_sells m)) as [s|]; [|discriminate]. intros H; inversion H; subst.
  exists b, s. repeat split; auto. rewrite qdiv_eq, qadd_eq. reflexivity.
Qed.

(* Market._update_market_price, called after every accepted order, accepted cancel and fill *)
Theorem ump_mid m t : series_ok m -> t = m_time m -> 0 <= t ->
  geto (m_mid (update_market_price m)) t = book_mid m.
Proof.
  intros S -> Ht. destruct (S Ht) as [[_ [Hmid _]] _].
  unfold update_market_price, book_mid; cbn; break_match; cbn; apply geto_upd_same; auto.
Qed.

Theorem ump_market_price m t : series_ok m -> t = m_time m -> 0 <= t ->
  geto (m_mp (update_market_price m)) t =
  if m_running m then
    match geto (m_last m) t with
    | Some l => Some l
    | None => match book_mid m with Some x => Some x | None => geto (m_mp m) t end
    end
  else geto (m_mp m) t.
Proof.
  intros S -> Ht. destruct (S Ht) as [[Hmp _] _].
  unfold update_market_price, book_mid; cbn.
  destruct (m_running m); cbn; [|reflexivity].
  destruct (geto (m_last m) (m_time m)); cbn; [apply geto_upd_same; auto|].
  destruct (best_price (m_buys m)); [|reflexivity].
  destruct (best_price (m_sells m)); [|reflexivity]. cbn. apply geto_upd_same; auto.
Qed.

Lemma ump_series_ok m : series_ok m -> series_ok (update_market_price m).
Proof.
  unfold series_ok. rewrite ump_time, ump_last, ump_fund, ump_vol, ump_turn, ump_nbuy, ump_nsell.
  intros S Ht. specialize (S Ht).
  assert (L1 : length (m_mid (update_market_price m)) = length (m_mid m)).
  { unfold update_market_price; cbn; break_match; cbn; apply upd_length. }
  assert (L2 : length (m_mp (update_market_price m)) = length (m_mp m)).
  { unfold update_market_price; cbn; break_match; cbn; rewrite ?upd_length; reflexivity. }
  rewrite L1, L2. exact S.
Qed.

(* ---------------- after an accepted order ---------------- *)
Lemma add_order_shape m ag mk buy p v ttlv m' r :
  add_order m ag mk buy p v ttlv = Ok (m', r) ->
  exists m1, m_time m1 = m_time m /\ m_running m1 = m_running m /\
    m_mp m1 = m_mp m /\ m_mid m1 = m_mid m /\ m_last m1 = m_last m /\ m_fund m1 = m_fund m /\
    m_vol m1 = m_vol m /\ m_turn m1 = m_turn m /\ m_nbuy m1 = m_nbuy m /\ m_nsell m1 = m_nsell m /\
    m_buys m' = m_buys m1 /\ m_sells m' = m_sells m1 /\
    let u := update_market_price m1 in
    m_mp m' = m_mp u /\ m_mid m' = m_mid u /\ m_last m' = m_last u /\ m_fund m' = m_fund u /\
    m_vol m' = m_vol u /\ m_turn m' = m_turn u /\ m_time m' = m_time m /\ m_running m' = m_running m /\
    (if buy then m_nbuy m' = upd (m_nbuy m) (zi (m_time m)) (getz (m_nbuy m) (m_time m) + 1) /\ m_nsell m' = m_nsell m
     else m_nsell m' = upd (m_nsell m) (zi (m_time m)) (getz (m_nsell m) (m_time m) + 1) /\ m_nbuy m' = m_nbuy m).
Proof.
  unfold add_order. destruct (m_time m <? 0); [discriminate|].
  destruct (negb (mk =? m_id m)); [discriminate|]. intros H; inversion H; subst; clear H.
  destruct buy.
  - eexists (m <| m_next := m_next m + 1 |> <| m_buys := insert _ (m_buys m) |>).
    cbn. rewrite ?ump_buys, ?ump_sells, ?ump_nbuy, ?ump_nsell, ?ump_time, ?ump_running. cbn. repeat split; reflexivity.
  - eexists (m <| m_next := m_next m + 1 |> <| m_sells := insert _ (m_sells m) |>).
    cbn. rewrite ?ump_buys, ?ump_sells, ?ump_nbuy, ?ump_nsell, ?ump_time, ?ump_running. cbn. repeat split; reflexivity.
Qed.

Lemma series_ok_ext m m' :
  m_time m' = m_time m -> length (m_mp m') = length (m_mp m) -> length (m_mid m') = length (m_mid m) ->
  length (m_last m') = length (m_last m) -> length (m_fund m') = length (m_fund m) ->
  length (m_vol m') = length (m_vol m) -> length (m_turn m') = length (m_turn m) ->
  length (m_nbuy m') = length (m_nbuy m) -> length (m_nsell m') = length (m_nsell m) ->
  series_ok m -> series_ok m'.
Proof. unfold series_ok. intros -> -> -> -> -> -> -> -> ->. auto. Qed.

Lemma book_mid_ext m m' : m_buys m' = m_buys m -> m_sells m' = m_sells m -> book_mid m' = book_mid m.
Proof. unfold book_mid. intros -> ->. reflexivity. Qed.

Theorem add_order_prices m ag mk buy p v ttlv m' r :
  series_ok m -> add_order m ag mk buy p v ttlv = Ok (m', r) ->
  let t := m_time m in
  geto (m_mid m') t = book_mid m' /\
  geto (m_last m') t = geto (m_last m) t /\
  geto (m_mp m') t =
    (if m_running m then
       match geto (m_last m) t with
       | Some l => Some l
       | None => match book_mid m' with Some x => Some x | None => geto (m_mp m) t end
       end
     else geto (m_mp m) t) /\
  getz (m_nbuy m') t = getz (m_nbuy m) t + (if buy then 1 else 0) /\
  getz (m_nsell m') t = getz (m_nsell m) t + (if buy then 0 else 1) /\
  getz (m_vol m') t = getz (m_vol m) t /\ getq (m_turn m') t = getq (m_turn m) t.
Proof.
  intros S H. pose proof (add_order_time _ _ _ _ _ _ _ _ _ H) as [_ Ht].
  destruct (add_order_shape _ _ _ _ _ _ _ _ _ H) as
    [m1 [T1 [R1 [E1 [E2 [E3 [E4 [E5 [E6 [E7 [E8 [Bb [Bs [X1 [X2 [X3 [X4 [X5 [X6 [X7 [X8 X9]]]]]]]]]]]]]]]]]]]]].
  assert (S1 : series_ok m1).
  { eapply series_ok_ext; [| | | | | | | | |exact S]; congruence. }
  cbv zeta. rewrite X2, X1, X3, X5, X6.
  rewrite (ump_mid m1 (m_time m) S1), (ump_market_price m1 (m_time m) S1), ump_last, ump_vol, ump_turn by auto.
  rewrite (book_mid_ext m' m1) by auto. rewrite R1, E1, E3, E5, E6.
  repeat split; auto.
  all: destruct (S Ht) as [[_ [_ [_ [_ [_ [_ [Hnb Hns]]]]]]] _]; destruct buy; destruct X9 as [Y1 Y2];
    rewrite ?Y1, ?Y2; rewrite ?getz_upd_same by auto; lia.
Qed.

(* ---------------- after an accepted cancel ---------------- *)
Theorem cancel_order_prices m i m' r :
  series_ok m -> cancel_order m i = Ok (m', r) ->
  let t := m_time m in
  geto (m_mid m') t = book_mid m' /\
  geto (m_last m') t = geto (m_last m) t /\
  geto (m_mp m') t =
    (if m_running m then
       match geto (m_last m) t with
       | Some l => Some l
       | None => match book_mid m' with Some x => Some x | None => geto (m_mp m) t end
       end
     else geto (m_mp m) t).
Proof.
  intros S. unfold cancel_order. destruct (m_time m <? 0) eqn:Et; [discriminate|]. apply Z.ltb_ge in Et.
  destruct (find_id i (m_buys m)); [|destruct (find_id i (m_sells m)); [|destruct (find_id i (m_gone m)); [|discriminate]]];
    intros H; inversion H; subst; clear H; cbv zeta;
    match goal with |- context [update_market_price ?x] =>
      assert (S1 : series_ok x) by (eapply series_ok_ext; [| | | | | | | | |exact S]; reflexivity);
      rewrite (ump_mid x (m_time m) S1) by auto;
      rewrite (ump_market_price x (m_time m) S1) by auto; rewrite ump_last;
      rewrite (book_mid_ext (update_market_price x) x) by (rewrite ?ump_buys, ?ump_sells; reflexivity)
    end; cbn; auto.
Qed.

(* ---------------- after a fill ---------------- *)
Theorem apply_fill_prices p m f m' r :
  series_ok m -> 0 <= m_time m -> apply_fill p m f = Ok (m', r) ->
  let t := m_time m in
  m_running m = true /\
  geto (m_last m') t = Some p /\ geto (m_mp m') t = Some p /\ geto (m_mid m') t = book_mid m' /\
  getz (m_vol m') t = getz (m_vol m) t + fvol f /\
  getq (m_turn m') t = qadd (getq (m_turn m) t) (qmul (qofz (fvol f)) p) /\
  getz (m_nbuy m') t = getz (m_nbuy m) t /\ getz (m_nsell m') t = getz (m_nsell m) t.
Proof.
  intros S Ht. unfold apply_fill. destruct f as [v b s]. destruct (m_running m) eqn:R; [|discriminate]. cbn [negb].
  destruct (v <=? 0); [discriminate|].
  destruct (dec_vol (oid b) v (m_buys m) (m_gone m)) as [[bs g1]|]; [|discriminate]. simpl.
  destruct (dec_vol (oid s) v (m_sells m) g1) as [[ss g2]|]; [|discriminate]. simpl.
  intros H; inversion H; subst; clear H. cbv zeta.
  destruct (S Ht) as [[Hmp [Hmid [Hlast [Hfund [Hvol [Hturn [Hnb Hns]]]]]]] _].
  match goal with |- context [update_market_price ?x] =>
    assert (S1 : series_ok x) by (eapply series_ok_ext; [| | | | | | | | |exact S]; cbn; rewrite ?upd_length; reflexivity);
    rewrite (ump_mid x (m_time m) S1) by auto;
    rewrite (ump_market_price x (m_time m) S1) by auto; rewrite ump_last, ump_vol, ump_turn, ump_nbuy, ump_nsell;
    rewrite (book_mid_ext (update_market_price x) x) by (rewrite ?ump_buys, ?ump_sells; reflexivity)
  end. cbn. rewrite R.
  rewrite geto_upd_same, getz_upd_same, getq_upd_same by auto. repeat split; reflexivity.
Qed.

(* ---------------- the clock step ---------------- *)
Definition init_shape (m : market) : Prop :=
  length (m_mp m) = 1%nat /\ length (m_mid m) = 0%nat /\ length (m_last m) = 0%nat /\ length (m_fund m) = 0%nat /\
  length (m_vol m) = 0%nat /\ length (m_turn m) = 0%nat /\ length (m_nbuy m) = 0%nat /\ length (m_nsell m) = 0%nat.

Definition store_ok (m : market) : Prop :=
  -1 <= m_time m /\ (m_time m = -1 -> init_shape m) /\ series_ok m.

Lemma store_ok_init id tk mp0 : store_ok (init_market id tk mp0).
Proof. unfold store_ok, init_shape, series_ok; cbn. repeat split; auto; lia. Qed.

Lemma pad_length {A} (l : list A) n d : length (pad l n d) = Nat.max (length l) n.
Proof. unfold pad. rewrite app_length, repeat_length. lia. Qed.

Lemma chunk_bound t : 0 <= t -> (S (zi t) <= Z.to_nat ((t / chunk + 1) * chunk))%nat.
Proof.
  intros H. unfold zi, chunk. pose proof (Z.mul_succ_div_gt t 100 ltac:(lia)).
  replace ((t / 100 + 1) * 100) with (100 * Z.succ (t / 100)) by lia. lia.
Qed.

Lemma fill_until_ok m t :
  0 <= t -> (init_shape m \/ (length (m_mp m) = length (m_mid m) /\ length (m_last m) = length (m_mid m) /\
     length (m_fund m) = length (m_mid m) /\ length (m_vol m) = length (m_mid m) /\ length (m_turn m) = length (m_mid m) /\
     length (m_nbuy m) = length (m_mid m) /\ length (m_nsell m) = length (m_mid m))) ->
  let m' := fill_until m t in
  let n := S (zi t) in
  (n <= length (m_mp m') /\ n <= length (m_mid m') /\ n <= length (m_last m') /\ n <= length (m_fund m') /\
   n <= length (m_vol m') /\ n <= length (m_turn m') /\ n <= length (m_nbuy m') /\ n <= length (m_nsell m'))%nat /\
  (length (m_mp m') = length (m_mid m') /\ length (m_last m') = length (m_mid m') /\ length (m_fund m') = length (m_mid m') /\
   length (m_vol m') = length (m_mid m') /\ length (m_turn m') = length (m_mid m') /\
   length (m_nbuy m') = length (m_mid m') /\ length (m_nsell m') = length (m_mid m')).
Proof.
  intros Ht Hs. cbv zeta. unfold fill_until.
  destruct (Z.of_nat (length (m_mid m)) >=? t + 1) eqn:E.
  - apply Z.geb_le in E. assert (S (zi t) <= length (m_mid m))%nat by (unfold zi; lia).
    destruct Hs as [Hs|Hs].
    + unfold init_shape in Hs. lia.
    + intuition lia.
  - pose proof (chunk_bound t Ht) as B. cbn. rewrite !pad_length.
    destruct Hs as [Hs|Hs]; [unfold init_shape in Hs|]; intuition lia.
Qed.

Lemma tick_fields m f :
  let t := m_time m + 1 in
  let m0 := fill_until m t in
  let m' := fst (tick m f) in
  m_time m' = t /\ m_running m' = m_running m /\
  m_vol m' = m_vol m0 /\ m_turn m' = m_turn m0 /\ m_nbuy m' = m_nbuy m0 /\ m_nsell m' = m_nsell m0 /\
  m_fund m' = upd (m_fund m0) (zi t) (Some f) /\
  (t > 0 -> m_last m' = upd (m_last m0) (zi t) (geto (m_last m0) (t - 1)) /\
            m_mid m' = upd (m_mid m0) (zi t) (geto (m_mid m0) (t - 1)) /\
            m_mp m' = upd (m_mp m0) (zi t)
               (if m_running m then
                  match geto (m_last m0) (t - 1) with
                  | Some l => Some l
                  | None => match geto (m_mid m0) (t - 1) with
                            | Some x => Some x
                            | None => geto (m_mp m0) (t - 1)
                            end
                  end
                else geto (m_mp m0) (t - 1))) /\
  (t <= 0 -> m_last m' = m_last m0 /\ m_mid m' = m_mid m0 /\
             m_mp m' = match geto (m_mp m0) t with None => upd (m_mp m0) (zi t) (Some f) | Some _ => m_mp m0 end).
Proof.
  cbv zeta. set (t := m_time m + 1). unfold tick. fold t.
  assert (Hoff : t > 0 -> off (t - 1) t) by (unfold off; lia).
  match goal with |- context [fill_until ?x t] => set (m1 := x) end.
  assert (E : m_mp (fill_until m1 t) = m_mp (fill_until m t) /\ m_mid (fill_until m1 t) = m_mid (fill_until m t) /\
              m_last (fill_until m1 t) = m_last (fill_until m t) /\ m_fund (fill_until m1 t) = m_fund (fill_until m t) /\
              m_vol (fill_until m1 t) = m_vol (fill_until m t) /\ m_turn (fill_until m1 t) = m_turn (fill_until m t) /\
              m_nbuy (fill_until m1 t) = m_nbuy (fill_until m t) /\ m_nsell (fill_until m1 t) = m_nsell (fill_until m t) /\
              m_running (fill_until m1 t) = m_running m /\ m_time (fill_until m1 t) = t).
  { unfold fill_until. subst m1. cbn [m_mid set]. cbn. destruct (Z.of_nat (length (m_mid m)) >=? t + 1); cbn; repeat split; reflexivity. }
  destruct E as [E1 [E2 [E3 [E4 [E5 [E6 [E7 [E8 [E9 E10]]]]]]]]].
  rewrite <- E1, <- E2, <- E3, <- E4, <- E5, <- E6, <- E7, <- E8, <- E9. revert E10.
  generalize (fill_until m1 t). intros M E10.
  destruct (t >? 0) eqn:Et; [apply Z.gtb_lt in Et | rewrite Z.gtb_ltb in Et; apply Z.ltb_ge in Et].
  - cbn [m_running set]. cbn. rewrite !geto_upd_other by (apply Hoff; lia).
    destruct (m_running M) eqn:RM; cbn; rewrite ?RM.
    + destruct (geto (m_last M) (t - 1)); cbn.
      * rewrite upd_upd. repeat split; auto; try (intros; lia); intros; repeat split; auto; try congruence.
      * destruct (geto (m_mid M) (t - 1)); cbn; rewrite ?upd_upd; repeat split; auto; try (intros; lia); intros; repeat split; auto; try congruence.
    + repeat split; auto; try (intros; lia); intros; repeat split; auto; try congruence.
  - cbn. destruct (geto (m_mp M) t); cbn; repeat split; auto; try (intros; lia); intros; repeat split; auto; try congruence.
Qed.

Lemma tick_store_ok m f : store_ok m -> store_ok (fst (tick m f)).
Proof.
  intros [Ht [Hi Hs]].
  pose proof (tick_fields m f) as F. cbv zeta in F.
  destruct F as [T [R [V [U [NB [NS [FU [POS NEG]]]]]]]].
  set (t := m_time m + 1) in *.
  assert (H0 : 0 <= t) by (unfold t; lia).
  assert (Hshape : init_shape m \/ (length (m_mp m) = length (m_mid m) /\ length (m_last m) = length (m_mid m) /\
     length (m_fund m) = length (m_mid m) /\ length (m_vol m) = length (m_mid m) /\ length (m_turn m) = length (m_mid m) /\
     length (m_nbuy m) = length (m_mid m) /\ length (m_nsell m) = length (m_mid m))).
  { destruct (Z.eq_dec (m_time m) (-1)) as [E|E]; [left; auto|right]. apply Hs. lia. }
  pose proof (fill_until_ok m t H0 Hshape) as L. cbv zeta in L. destruct L as [L1 L2].
  unfold store_ok. rewrite T. split; [lia|]. split; [intros; lia|].
  unfold series_ok. rewrite T. intros _. cbv zeta.
  rewrite V, U, NB, NS, FU.
  destruct (Z_gt_le_dec t 0) as [G|G].
  - destruct (POS G) as [-> [-> ->]]. rewrite !upd_length. exact (conj L1 L2).
  - destruct (NEG G) as [-> [-> ->]]. rewrite !upd_length.
    destruct (geto (m_mp (fill_until m t)) t); rewrite ?upd_length; exact (conj L1 L2).
Qed.

(* the rule at the clock step: the new slot carries mid and last-trade price over; the market price
   is refreshed from (last trade, else mid, else itself) only while the market is running; the
   fundamental value delivered for the new time is recorded *)
Theorem tick_prices m f : store_ok m -> 0 <= m_time m ->
  let t := m_time m + 1 in
  let m' := fst (tick m f) in
  geto (m_fund m') t = Some f /\
  geto (m_last m') t = geto (m_last m) (t - 1) /\
  geto (m_mid m') t = geto (m_mid m) (t - 1) /\
  geto (m_mp m') t =
    (if m_running m then
       match geto (m_last m) (t - 1) with
       | Some l => Some l
       | None => match geto (m_mid m) (t - 1) with Some x => Some x | None => geto (m_mp m) (t - 1) end
       end
     else geto (m_mp m) (t - 1)).
Proof.
  intros [Ht [Hi Hs]] H0. cbv zeta.
  pose proof (tick_fields m f) as F. cbv zeta in F.
  destruct F as [T [R [V [U [NB [NS [FU [POS NEG]]]]]]]].
  set (t := m_time m + 1) in *.
  assert (Hshape : init_shape m \/ (length (m_mp m) = length (m_mid m) /\ length (m_last m) = length (m_mid m) /\
     length (m_fund m) = length (m_mid m) /\ length (m_vol m) = length (m_mid m) /\ length (m_turn m) = length (m_mid m) /\
     length (m_nbuy m) = length (m_mid m) /\ length (m_nsell m) = length (m_mid m))).
  { right. apply Hs. lia. }
  pose proof (fill_until_ok m t ltac:(unfold t; lia) Hshape) as L. cbv zeta in L. destruct L as [L1 L2].
  destruct (POS ltac:(unfold t; lia)) as [E1 [E2 E3]].
  rewrite FU, E1, E2, E3.
  rewrite !geto_upd_same by intuition lia.
  pose proof (fill_until_series m t (t - 1)) as FS. unfold series_at in FS. inversion FS as [[F1 F2 F3 F4 F5 F6 F7 F8]].
  repeat split; reflexivity.
Qed.

(* ---------------- the storage invariant holds in every reachable state ---------------- *)
Lemma store_ok_same_time m m' :
  m_time m' = m_time m -> length (m_mp m') = length (m_mp m) -> length (m_mid m') = length (m_mid m) ->
  length (m_last m') = length (m_last m) -> length (m_fund m') = length (m_fund m) ->
  length (m_vol m') = length (m_vol m) -> length (m_turn m') = length (m_turn m) ->
  length (m_nbuy m') = length (m_nbuy m) -> length (m_nsell m') = length (m_nsell m) ->
  store_ok m -> store_ok m'.
Proof.
  intros T A B C D E F G H [Ht [Hi Hs]]. unfold store_ok. rewrite T. split; auto. split.
  - intros X. specialize (Hi X). unfold init_shape in *. intuition congruence.
  - eapply series_ok_ext; eauto.
Qed.

Lemma ump_store_ok m : store_ok m -> store_ok (update_market_price m).
Proof.
  apply store_ok_same_time; rewrite ?ump_time, ?ump_last, ?ump_fund, ?ump_vol, ?ump_turn, ?ump_nbuy, ?ump_nsell; auto;
    unfold update_market_price; cbn; break_match; cbn; rewrite ?upd_length; reflexivity.
Qed.

Lemma add_order_store_ok m ag mk buy p v ttlv m' r :
  store_ok m -> add_order m ag mk buy p v ttlv = Ok (m', r) -> store_ok m'.
Proof.
  intros S H.
  destruct (add_order_shape _ _ _ _ _ _ _ _ _ H) as
    [m1 [T1 [R1 [E1 [E2 [E3 [E4 [E5 [E6 [E7 [E8 [Bb [Bs [X1 [X2 [X3 [X4 [X5 [X6 [X7 [X8 X9]]]]]]]]]]]]]]]]]]]]].
  assert (S1 : store_ok (update_market_price m1)).
  { apply ump_store_ok. eapply store_ok_same_time; [| | | | | | | | |exact S]; congruence. }
  eapply store_ok_same_time; [| | | | | | | | |exact S1]; rewrite ?ump_time, ?ump_nbuy, ?ump_nsell; try congruence.
  - destruct buy; destruct X9 as [Y1 Y2]; rewrite ?Y1, ?Y2, ?upd_length; congruence.
  - destruct buy; destruct X9 as [Y1 Y2]; rewrite ?Y1, ?Y2, ?upd_length; congruence.
Qed.

Lemma cancel_order_store_ok m i m' r : store_ok m -> cancel_order m i = Ok (m', r) -> store_ok m'.
Proof.
  intros S. unfold cancel_order. destruct (m_time m <? 0); [discriminate|].
  destruct (find_id i (m_buys m)); [|destruct (find_id i (m_sells m)); [|destruct (find_id i (m_gone m)); [|discriminate]]];
    intros H; inversion H; subst; clear H; apply ump_store_ok;
    (eapply store_ok_same_time; [| | | | | | | | |exact S]; reflexivity).
Qed.

Lemma apply_fill_store_ok p m f m' r : store_ok m -> apply_fill p m f = Ok (m', r) -> store_ok m'.
Proof.
  intros S. unfold apply_fill. destruct f as [v b s]. destruct (negb (m_running m)); [discriminate|].
  destruct (v <=? 0); [discriminate|].
  destruct (dec_vol (oid b) v (m_buys m) (m_gone m)) as [[bs g1]|]; [|discriminate]. simpl.
  destruct (dec_vol (oid s) v (m_sells m) g1) as [[ss g2]|]; [|discriminate]. simpl.
  intros H; inversion H; subst; clear H. apply ump_store_ok.
  eapply store_ok_same_time; [| | | | | | | | |exact S]; cbn; rewrite ?upd_length; reflexivity.
Qed.

Lemma apply_fills_store_ok p fs : forall m m' rs, store_ok m -> apply_fills p m fs = Ok (m', rs) -> store_ok m'.
Proof.
  induction fs as [|f r IH]; simpl; intros m m' rs Hm H.
  - inversion H; subst; auto.
  - destruct (apply_fill p m f) as [[m1 x]|] eqn:E1; [|discriminate]. simpl in H.
    destruct (apply_fills p m1 r) as [[m2 xs]|] eqn:E2; [|discriminate]. simpl in H. inversion H; subst.
    eapply IH; [|exact E2]. eapply apply_fill_store_ok; eauto.
Qed.

Lemma execution_store_ok m m' rs : store_ok m -> execution m = Ok (m', rs) -> store_ok m'.
Proof.
  intros Hm. unfold execution. destruct (negb (executable m)).
  - intros H; inversion H; subst; auto.
  - destruct (run_walk m) as [[p|] fs]; [|discriminate].
    destruct (apply_fills p m fs) as [[m1 logs]|] eqn:E; [|discriminate]. simpl.
    destruct (executable m1); [discriminate|]. intros H; inversion H; subst. eapply apply_fills_store_ok; eauto.
Qed.

Theorem step_rec_store_ok m o m' rs : store_ok m -> step_rec m o = Ok (m', rs) -> store_ok m'.
Proof.
  intros Hm. destruct o; cbn [step_rec]; try discriminate.
  - destruct (add_order m ag mk buy p v ttlv) as [[m1 r]|] eqn:E; [|discriminate]. simpl.
    intros H; inversion H; subst. eapply add_order_store_ok; eauto.
  - destruct (cancel_order m i) as [[m1 r]|] eqn:E; [|discriminate]. simpl.
    intros H; inversion H; subst. eapply cancel_order_store_ok; eauto.
  - intros E. eapply execution_store_ok; eauto.
  - pose proof (tick_store_ok m f Hm) as Ht. revert Ht. destruct (tick m f) as [m1 rs1]. cbn [fst].
    intros Ht H. inversion H; subst. exact Ht.
  - intros H; inversion H; subst.
    eapply store_ok_same_time; [| | | | | | | | |exact Hm]; reflexivity.
  - intros H; inversion H; subst; auto.
  - intros H; inversion H; subst; auto.
  - intros H; inversion H; subst; auto.
  - intros H; inversion H; subst; auto.
Qed.

Theorem step_store_ok m o m' x : store_ok m -> step m o = Ok (m', x) -> store_ok m'.
Proof. intros Hm H. destruct (step_inv _ _ _ _ H) as [rs E]. eapply step_rec_store_ok; eauto. Qed.

Theorem reachable_store_ok ops : forall m, store_ok m -> store_ok (final_state m ops).
Proof.
  induction ops as [|o r IH]; simpl; intros m Hm; auto.
  destruct (step m o) as [[m' x]|] eqn:E; auto. apply IH. eapply step_store_ok; eauto.
Qed.
