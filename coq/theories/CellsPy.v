(* Static prelude of the translated unit Market._update_market_price (harness/py2coq_cells.py): Optional[float] expressions evaluated in the
   error monad - arithmetic on None is Python's TypeError. *)
Require Import Pams.Prelude Pams.Match Pams.Market Pams.OrderPy.
Open Scope Z_scope.

Definition pbindm {A B} (c : pres A) (k : A -> pres B) : pres B := match c with POk a => k a | PErr e => PErr e end.
Definition oq_arith (op : Q -> Q -> Q) (a b : pres (option Q)) : pres (option Q) :=
  pbindm a (fun x => pbindm b (fun y => match x, y with Some u, Some v => POk (Some (op u v)) | _, _ => PErr PyTypeError end)).
Definition pis_none (a : pres (option Q)) : pres bool := pbindm a (fun x => POk (is_none x)).
