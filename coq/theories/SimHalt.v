(* C16 (run level, within a session): while a trading halt is on record for the current session, matching is switched off for
   the session and the halted market is stopped - through every step of that session: the order phase with all its hooks and
   callbacks, the step hooks, the clock.  Only the rule's own before-step hook (which clears the record) or the end of the session
   ends that state.  For configurations with one trading-halt rule. *)
Require Import Pams.Prelude Pams.Tick Pams.Match Pams.Market Pams.MatchQ Pams.MarketInv Pams.MarketSeries Pams.MarketPost
               Pams.Sim Pams.SimLift Pams.SimInv Pams.SimClock.
From RecordUpdate Require Import RecordSet.
Import RecordSetNotations.
Open Scope Z_scope.

Definition is_halt (k : evkind) : bool := match k with KHalt _ _ _ => true | _ => false end.

Definition halt_inv (s : sim) : Prop :=
  NoDup (map es_id (s_events s)) /\
  (* only trading-halt rules ever hold a halt record *)
  (forall e, In e (s_events s) -> es_halted e <> None -> is_halt (es_kind e) = true) /\
  (* one rule *)
  (forall e1 e2, In e1 (s_events s) -> In e2 (s_events s) -> is_halt (es_kind e1) = true -> is_halt (es_kind e2) = true -> es_id e1 = es_id e2) /\
  (* a record for the current session: matching off, the recorded market stopped *)
  (forall e mk sid, In e (s_events s) -> es_halted e = Some (mk, sid) -> sid = s_cur s ->
     cur_switch s = false /\ forall x, find_mkt mk (s_markets s) = Some x -> m_running (mk_m x) = false).

(* going from s to s' no market was started *)
Definition no_start (s s' : sim) : Prop :=
  forall mk x', find_mkt mk (s_markets s') = Some x' -> m_running (mk_m x') = true ->
    exists x, find_mkt mk (s_markets s) = Some x /\ m_running (mk_m x) = true.

Lemma halt_inv_frame s s' : s_events s' = s_events s -> s_cur s' = s_cur s -> s_sessions s' = s_sessions s -> no_start s s' ->
  halt_inv s -> halt_inv s'.
Proof.
  intros Ev Cu Se Ns [N [A [B C]]]. unfold halt_inv, cur_switch. rewrite Ev, Cu, Se. split; [exact N|]. split; [exact A|]. split; [exact B|].
  intros e mk sid He Hh Hs. destruct (C e mk sid He Hh Hs) as [Sw St]. split; [exact Sw|].
  intros x' Fx'. destruct (m_running (mk_m x')) eqn:R; auto.
  destruct (Ns mk x' Fx' R) as [x [Fx Rx]]. rewrite (St x Fx) in Rx. discriminate.
Qed.

Lemma no_start_same s s' : s_markets s' = s_markets s -> no_start s s'.
Proof. intros E mk x' F R. rewrite E in F. eauto. Qed.

Lemma find_mkt_upd_other i j f l : (forall y, m_id (mk_m y) = i -> m_id (mk_m (f y)) = i) -> j <> i ->
  find_mkt j (upd_mkt i f l) = find_mkt j l.
Proof.
  intros Hf N. induction l as [|y r IH]; simpl; auto. destruct (m_id (mk_m y) =? i) eqn:E.
  - apply Z.eqb_eq in E. simpl. rewrite (Hf y E), E.
    assert (E2 : (i =? j) = false) by (apply Z.eqb_neq; lia). rewrite E2. reflexivity.
  - simpl. destruct (m_id (mk_m y) =? j); auto.
Qed.

(* replacing a market by one with the same id that is running only if the old one was starts nothing *)
Lemma no_start_set_market s i x m' : find_mkt i (s_markets s) = Some x -> m_id m' = m_id (mk_m x) ->
  (m_running m' = true -> m_running (mk_m x) = true) -> no_start s (set_market s i m').
Proof.
  intros Fx Hid Hr mk x' F R. unfold set_market in F. cbn in F.
  pose proof (find_mkt_id _ _ _ Fx) as Ei.
  destruct (Z.eq_dec mk i) as [->|N].
  - rewrite (find_mkt_upd_same i (fun z => z <| mk_m := m' |>) _ x Fx) in F by (cbn; congruence).
    inversion F; subst x'. cbn in R. exists x. auto.
  - rewrite find_mkt_upd_other in F; auto; [eauto|]. intros y _. cbn. congruence.
Qed.

Lemma no_start_refl s : no_start s s. Proof. intros mk x F R. eauto. Qed.
Lemma no_start_trans a b c : no_start a b -> no_start b c -> no_start a c.
Proof. intros H1 H2 mk x F R. destruct (H2 mk x F R) as [y [Fy Ry]]. eauto. Qed.

(* the single-market operations never switch a market on *)
Lemma add_order_running m ag mk buy p v ttlv m' r : add_order m ag mk buy p v ttlv = Ok (m', r) -> m_running m' = m_running m.
Proof.
  unfold add_order. destruct (m_time m <? 0); [discriminate|]. destruct (negb (mk =? m_id m)); [discriminate|].
  intros H; inversion H; subst; clear H. destruct buy; cbn; rewrite ump_running; reflexivity.
Qed.
Lemma cancel_order_running m i m' r : cancel_order m i = Ok (m', r) -> m_running m' = m_running m.
Proof.
  unfold cancel_order. destruct (m_time m <? 0); [discriminate|].
  destruct (find_id i (m_buys m)); [|destruct (find_id i (m_sells m)); [|destruct (find_id i (m_gone m)); [|discriminate]]];
    intros H; inversion H; subst; rewrite ump_running; reflexivity.
Qed.
Lemma apply_fills_running_same p fs : forall m m' rs, apply_fills p m fs = Ok (m', rs) -> m_running m' = m_running m.
Proof.
  induction fs as [|f r IH]; simpl; intros m m' rs H.
  - inversion H; subst; auto.
  - destruct (apply_fill p m f) as [[m1 x]|] eqn:E1; [|discriminate]. simpl in H.
    destruct (apply_fills p m1 r) as [[m2 xs]|] eqn:E2; [|discriminate]. simpl in H. inversion H; subst.
    destruct (apply_fill_frame _ _ _ _ _ E1) as [_ [_ [_ [Hr _]]]]. rewrite (IH _ _ _ E2). exact Hr.
Qed.
Lemma execution_running m m' rs : execution m = Ok (m', rs) -> m_running m' = m_running m.
Proof.
  unfold execution. destruct (negb (executable m)).
  - intros H; inversion H; subst; auto.
  - destruct (run_walk m) as [[p|] fs]; [|discriminate].
    destruct (apply_fills p m fs) as [[m1 lg]|] eqn:E; [|discriminate]. simpl.
    destruct (executable m1); [discriminate|]. intros H; inversion H; subst. eapply apply_fills_running_same; eauto.
Qed.

(* ---------------- every atomic update of a step keeps the halt invariant ---------------- *)
Lemma frame_same s s' : s_events s' = s_events s -> s_cur s' = s_cur s -> s_sessions s' = s_sessions s -> s_markets s' = s_markets s ->
  halt_inv s -> halt_inv s'.
Proof. intros A B C D. apply halt_inv_frame; auto. apply no_start_same; auto. Qed.

Lemma Q_fail : forall s e, plain_err e = true -> halt_inv s -> halt_inv (fail s e).
Proof. intros s e _. unfold fail. destruct (s_err s); auto. Qed.
Lemma Q_fail_exec : forall s mkid x e,
  find_mkt mkid (s_markets s) = Some x -> cur_switch s = true -> execution (mk_m x) = Err e ->
  halt_inv (emit s (EvRound mkid (m_running (mk_m x)) (s_cur s))) -> halt_inv (fail (emit s (EvRound mkid (m_running (mk_m x)) (s_cur s))) e).
Proof. intros s mkid x e _ _ _. generalize (emit s (EvRound mkid (m_running (mk_m x)) (s_cur s))). intros s1. unfold fail. destruct (s_err s1); auto. Qed.
Lemma Q_probe : forall s ev k before mkid extra, halt_inv s -> halt_inv (emit s (ev_probe s ev k before mkid extra)).
Proof. intros. revert H. apply frame_same; reflexivity. Qed.
Lemma Q_callback : forall s aid kind r mkid, halt_inv s -> halt_inv (callback s aid kind r mkid).
Proof.
  intros s aid kind r mkid H. unfold callback. destruct (find_agent aid (s_agents s)); [|apply Q_fail; auto].
  destruct (find_mkt mkid (s_markets s)); [|apply Q_fail; auto]. revert H. apply frame_same; reflexivity.
Qed.
Lemma Q_step : forall s kind mkid x, find_mkt mkid (s_markets s) = Some x -> halt_inv s -> halt_inv (emit s (ev_step s kind x)).
Proof. intros s kind mkid x _. apply frame_same; reflexivity. Qed.

Lemma Q_set_market s i x m' : find_mkt i (s_markets s) = Some x -> m_id m' = m_id (mk_m x) -> m_running m' = m_running (mk_m x) ->
  halt_inv s -> halt_inv (set_market s i m').
Proof. intros Fx Hid Hr. apply halt_inv_frame; try reflexivity. eapply no_start_set_market; eauto; congruence. Qed.

Lemma Q_log s r extra : halt_inv s -> halt_inv (log_event s r extra).
Proof. apply frame_same; reflexivity. Qed.
Lemma Q_logs rs : forall s, halt_inv s -> halt_inv (fold_left (fun s r => log_event s r []) rs s).
Proof. induction rs as [|r rest IH]; simpl; intros s H; auto. Qed.

Lemma Q_accept_order : forall s mkid x ag mk buy p v ttlv m' rc tag,
  find_mkt mkid (s_markets s) = Some x -> add_order (mk_m x) ag mk buy p v ttlv = Ok (m', rc) ->
  halt_inv s -> halt_inv (do_accept_order s mkid x m' rc tag).
Proof.
  intros s mkid x ag mk buy p v ttlv m' rc tag Fx Ea H. unfold do_accept_order. apply Q_log.
  assert (H1 : halt_inv (set_market s mkid m')) by (eapply Q_set_market; eauto; [eapply add_order_id; eauto|eapply add_order_running; eauto]).
  revert H1. apply frame_same; reflexivity.
Qed.
Lemma Q_accept_cancel : forall s mkid x i m' rc,
  find_mkt mkid (s_markets s) = Some x -> cancel_order (mk_m x) i = Ok (m', rc) -> halt_inv s -> halt_inv (do_accept_cancel s mkid m' rc).
Proof.
  intros s mkid x i m' rc Fx Ec H. unfold do_accept_cancel. apply Q_log.
  eapply Q_set_market; eauto; [eapply cancel_order_id; eauto|eapply cancel_order_running; eauto].
Qed.
Lemma Q_round : forall s mkid x, find_mkt mkid (s_markets s) = Some x -> cur_switch s = true ->
  halt_inv s -> halt_inv (emit s (EvRound mkid (m_running (mk_m x)) (s_cur s))).
Proof. intros s mkid x _ _. apply frame_same; reflexivity. Qed.
Lemma Q_fills : forall s mkid x m' logs,
  find_mkt mkid (s_markets s) = Some x -> execution (mk_m x) = Ok (m', logs) -> cur_switch s = true ->
  (exists tr, s_trace s = EvRound mkid (m_running (mk_m x)) (s_cur s) :: tr) -> halt_inv s -> halt_inv (do_fills s mkid m' logs).
Proof.
  intros s mkid x m' logs Fx Ex _ _ H. unfold do_fills.
  assert (H1 : halt_inv (set_market s mkid m')) by (eapply Q_set_market; eauto; [eapply execution_id; eauto|eapply execution_running; eauto]).
  pose proof (Q_logs logs _ H1) as H2. revert H2.
  assert (E : forall rs s0, s_events (fold_left (fun s r => log_event s r []) rs s0) = s_events s0 /\
                            s_markets (fold_left (fun s r => log_event s r []) rs s0) = s_markets s0).
  { induction rs as [|r rest IH]; simpl; intros s0; auto. destruct (IH (log_event s0 r [])) as [A B]. rewrite A, B. auto. }
  apply frame_same; reflexivity.
Qed.
Lemma Q_tick_all : forall s, halt_inv s -> halt_inv (tick_all s).
Proof.
  apply tick_all_pres_e; [apply Q_fail|].
  intros s x f m' recs Fx Et H. unfold do_tick. apply Q_logs. eapply Q_set_market; eauto.
  - pose proof (tick_id (mk_m x) f) as T. rewrite Et in T. exact T.
  - pose proof (tick_running (mk_m x) f) as T. rewrite Et in T. exact T.
Qed.
Lemma Q_pop_perm : forall s, halt_inv s -> halt_inv (fst (pop_perm s)).
Proof. intros s H. unfold pop_perm. destruct (s_tape s) as [|[l|q] r]; simpl; try (apply Q_fail; auto). revert H. apply frame_same; reflexivity. Qed.
Lemma Q_pop_draw : forall s, halt_inv s -> halt_inv (fst (pop_draw s)).
Proof. intros s H. unfold pop_draw. destruct (s_tape s) as [|[l|q] r]; simpl; try (apply Q_fail; auto). revert H. apply frame_same; reflexivity. Qed.
Lemma Q_consult : forall s aid, halt_inv s -> halt_inv (fst (consult s aid)).
Proof.
  intros s aid H. unfold consult. destruct (s_batches s) as [|[a b] r]; simpl; [apply Q_fail; auto|].
  destruct (a =? aid); simpl; [|apply Q_fail; auto]. revert H. apply frame_same; reflexivity.
Qed.

(* updating bookkeeping fields of events that are neither the halt record nor kind nor id *)
Lemma Q_events s f i : (forall e, es_id (f e) = es_id e /\ es_kind (f e) = es_kind e /\ es_halted (f e) = es_halted e) ->
  halt_inv s -> halt_inv (s <| s_events := upd_event i f (s_events s) |>).
Proof.
  intros Hf [N [A [B C]]]. unfold halt_inv, cur_switch. cbn.
  assert (Ids : map es_id (upd_event i f (s_events s)) = map es_id (s_events s)).
  { unfold upd_event. rewrite map_map. apply map_ext. intros e. destruct (es_id e =? i); auto. apply Hf. }
  assert (G : forall e', In e' (upd_event i f (s_events s)) -> exists e, In e (s_events s) /\ es_id e' = es_id e /\ es_kind e' = es_kind e /\ es_halted e' = es_halted e).
  { unfold upd_event. intros e' H. apply in_map_iff in H. destruct H as [e [E He]]. exists e. split; auto.
    destruct (es_id e =? i); [subst e'; apply Hf|subst e'; auto]. }
  split; [rewrite Ids; exact N|]. split; [|split].
  - intros e' He' Hh. destruct (G e' He') as [e [He [_ [Ek Eh]]]]. rewrite Ek. apply A; auto. congruence.
  - intros e1 e2 H1 H2 K1 K2. destruct (G e1 H1) as [a [Ha [Ia [Ka _]]]]. destruct (G e2 H2) as [b [Hb [Ib [Kb _]]]].
    rewrite Ia, Ib. apply B; auto; congruence.
  - intros e' mk sid He' Hh Hs. destruct (G e' He') as [e [He [_ [_ Eh]]]]. apply (C e mk sid He); congruence.
Qed.
Lemma Q_spent : forall s eid, halt_inv s -> halt_inv (s <| s_events := upd_event eid (fun e => e <| es_spent := true |>) (s_events s) |>).
Proof. intros s eid. apply Q_events. intros e. repeat split; reflexivity. Qed.

Lemma Q_shock : forall s e x, find_mkt (m_id (mk_m x)) (s_markets s) = Some x -> halt_inv s -> halt_inv (shock_before_step s e x).
Proof.
  intros s e x Fx H. unfold shock_before_step. destruct (es_kind e); auto.
  destruct (negb _); [apply Q_fail; auto|].
  destruct (negb (m_id (mk_m x) =? target)) eqn:E; [apply Q_fail; auto|]. apply negb_false_iff, Z.eqb_eq in E. subst target.
  destruct (geto _ _); [|apply Q_fail; auto].
  match goal with |- halt_inv (set_market _ _ ?m) => eapply (Q_set_market s _ x m); [exact Fx|reflexivity|reflexivity|exact H] end.
Qed.

Lemma upd_event_in i f l e' : In e' (upd_event i f l) -> exists e, In e l /\ e' = (if es_id e =? i then f e else e).
Proof. unfold upd_event. intros H. apply in_map_iff in H. destruct H as [e [E He]]. exists e. auto. Qed.

Lemma cur_switch_off s : cur_switch (s <| s_sessions := upd_sess (s_cur s) (fun z => z <| se_exec := false |>) (s_sessions s) |>) = false.
Proof.
  unfold cur_switch. cbn. induction (s_sessions s) as [|y r IH]; simpl; auto.
  destruct (se_id y =? s_cur s) eqn:E; simpl; [rewrite E; reflexivity|rewrite E; exact IH].
Qed.


Lemma NoDup_ids_eq (l : list evstate) e1 e2 : NoDup (map es_id l) -> In e1 l -> In e2 l -> es_id e1 = es_id e2 -> e1 = e2.
Proof. intros N H1 H2 E. eapply (NoDup_map_inj_in es_id l); eauto. Qed.

(* THE HALT: the rule's after-execution hook either does nothing or stops the market, switches matching off and records it *)
Lemma Q_halt_after : forall s e mkid, In e (s_events s) -> round_ctx mkid s -> halt_inv s -> halt_inv (halt_after_execution s e mkid).
Proof.
  intros s e mkid He _ H. unfold halt_after_execution. destruct (es_kind e) eqn:Ek; auto.
  destruct (find_mkt mkid (s_markets s)) as [x|] eqn:Fx; [|apply Q_fail; auto].
  destruct (mprice_at x 0); [|apply Q_fail; auto]. destruct (mprice_at x (mtime x)); [|apply Q_fail; auto].
  destruct (negb (m_running (mk_m x))); auto. destruct (_ && _); auto.
  destruct H as [N [A [B C]]].
  set (s1 := set_market s mkid ((mk_m x) <| m_running := false |>)).
  set (s2 := s1 <| s_sessions := upd_sess (s_cur s1) (fun z => z <| se_exec := false |>) (s_sessions s1) |>).
  set (g := fun e0 : evstate => e0 <| es_started := mtime x |> <| es_count := es_count e0 + 1 |> <| es_halted := Some (mkid, s_cur s2) |>).
  change (halt_inv (s2 <| s_events := upd_event (es_id e) g (s_events s2) |>)).
  assert (Sw : cur_switch s2 = false) by apply cur_switch_off.
  assert (Fm : forall y, find_mkt mkid (s_markets s2) = Some y -> m_running (mk_m y) = false).
  { intros y Fy. unfold s2, s1, set_market in Fy. cbn in Fy.
    rewrite (find_mkt_upd_same mkid (fun z => z <| mk_m := (mk_m x) <| m_running := false |> |>) _ x Fx) in Fy by (cbn; eapply find_mkt_id; eauto).
    inversion Fy; subst. reflexivity. }
  assert (Es : s_events s2 = s_events s) by reflexivity.
  assert (Ids : map es_id (upd_event (es_id e) g (s_events s)) = map es_id (s_events s)).
  { unfold upd_event. rewrite map_map. apply map_ext. intros e0. destruct (es_id e0 =? es_id e); reflexivity. }
  unfold halt_inv. cbn [s_events set eta_sim]. rewrite Es. cbn.
  split; [rewrite Ids; exact N|]. split; [|split].
  - intros e' He' Hh. apply upd_event_in in He'. destruct He' as [e0 [He0 ->]].
    destruct (es_id e0 =? es_id e) eqn:Ei.
    + apply Z.eqb_eq in Ei. assert (e0 = e) by (eapply NoDup_ids_eq; eauto). subst e0. cbn. rewrite Ek. reflexivity.
    + apply A; auto.
  - intros e1 e2 H1 H2 K1 K2. apply upd_event_in in H1, H2. destruct H1 as [a [Ha ->]], H2 as [b [Hb ->]].
    assert (Ia : es_id (if es_id a =? es_id e then g a else a) = es_id a) by (destruct (es_id a =? es_id e); reflexivity).
    assert (Ib : es_id (if es_id b =? es_id e then g b else b) = es_id b) by (destruct (es_id b =? es_id e); reflexivity).
    rewrite Ia, Ib. apply B; auto.
    * destruct (es_id a =? es_id e); exact K1.
    * destruct (es_id b =? es_id e); exact K2.
  - intros e' mk sid He' Hh Hs. apply upd_event_in in He'. destruct He' as [e0 [He0 ->]].
    destruct (es_id e0 =? es_id e) eqn:Ei.
    + cbn in Hh. inversion Hh; subst mk sid. split; [exact Sw|exact Fm].
    + exfalso. apply Z.eqb_neq in Ei. apply Ei. apply B; auto.
      * apply A; auto. congruence.
      * rewrite Ek. reflexivity.
Qed.

(* THE RESUME (or the stale record of an earlier session being dropped): afterwards no record is left *)
Lemma Q_halt_before : forall s e x, In e (s_events s) -> find_mkt (m_id (mk_m x)) (s_markets s) = Some x -> halt_inv s -> halt_inv (halt_before_step s e x).
Proof.
  intros s e x He Fx H. unfold halt_before_step. destruct (es_kind e) eqn:Ek; auto. destruct (_ && _); auto.
  destruct (es_halted e) as [[hm hs]|] eqn:Eh; auto. destruct (negb (hm =? m_id (mk_m x))); auto.
  destruct H as [N [A [B C]]].
  set (g := fun e0 : evstate => e0 <| es_halted := None |> <| es_started := 0 |>).
  match goal with |- halt_inv (?s1 <| s_events := upd_event (es_id e) ?g0 (s_events ?s1') |>) => set (sb := s1) end.
  assert (Es : s_events sb = s_events s) by (unfold sb; destruct (hs =? s_cur s); reflexivity).
  assert (Ids : map es_id (upd_event (es_id e) g (s_events s)) = map es_id (s_events s)).
  { unfold upd_event. rewrite map_map. apply map_ext. intros e0. destruct (es_id e0 =? es_id e); reflexivity. }
  unfold halt_inv. cbn [s_events set eta_sim]. rewrite Es. fold g.
  split; [rewrite Ids; exact N|]. split; [|split].
  - intros e' He' Hh. apply upd_event_in in He'. destruct He' as [e0 [He0 ->]].
    destruct (es_id e0 =? es_id e) eqn:Ei; [cbn in Hh; congruence|apply A; auto].
  - intros e1 e2 H1 H2 K1 K2. apply upd_event_in in H1, H2. destruct H1 as [a [Ha ->]], H2 as [b [Hb ->]].
    assert (Ia : es_id (if es_id a =? es_id e then g a else a) = es_id a) by (destruct (es_id a =? es_id e); reflexivity).
    assert (Ib : es_id (if es_id b =? es_id e then g b else b) = es_id b) by (destruct (es_id b =? es_id e); reflexivity).
    rewrite Ia, Ib. apply B; auto.
    * destruct (es_id a =? es_id e); exact K1.
    * destruct (es_id b =? es_id e); exact K2.
  - intros e' mk sid He' Hh Hs. apply upd_event_in in He'. destruct He' as [e0 [He0 ->]].
    destruct (es_id e0 =? es_id e) eqn:Ei; [cbn in Hh; discriminate|].
    exfalso. apply Z.eqb_neq in Ei. apply Ei. apply B; auto.
    + apply A; auto. congruence.
    + rewrite Ek. reflexivity.
Qed.

(* ---------------- one request, one step, any number of steps of a session ---------------- *)
Lemma Q_request : forall s r, halt_inv s -> halt_inv (handle_request s r).
Proof.
  apply (handle_request_k halt_inv Q_fail Q_fail_exec (fun s ev k b mk ex _ => Q_probe s ev k b mk ex) Q_callback Q_accept_order Q_accept_cancel
           Q_round Q_fills Q_spent Q_halt_after).
Qed.

Theorem halt_inv_one_step s : halt_inv s -> halt_inv (one_step s).
Proof.
  apply (one_step_k halt_inv Q_fail (fun s ev k b mk ex _ => Q_probe s ev k b mk ex) Q_step Q_tick_all Q_pop_perm Q_pop_draw Q_consult
           Q_halt_before Q_shock Q_request).
Qed.

Theorem halt_inv_iterate n : forall s, halt_inv s -> halt_inv (iterate n s).
Proof. induction n as [|k IH]; simpl; intros s H; auto. apply IH. apply halt_inv_one_step. exact H. Qed.

(* WHILE THE HALT IS ON RECORD: however many steps of the session follow, as long as the rule still holds a record for the
   current session, matching is off for the session and the recorded market is stopped *)
Corollary halted_market_stays_stopped n s : halt_inv s ->
  forall e mk x, In e (s_events (iterate n s)) -> es_halted e = Some (mk, s_cur (iterate n s)) ->
    cur_switch (iterate n s) = false /\
    (find_mkt mk (s_markets (iterate n s)) = Some x -> m_running (mk_m x) = false).
Proof.
  intros H e mk x He Hh. destruct (halt_inv_iterate n s H) as [_ [_ [_ C]]].
  destruct (C e mk _ He Hh eq_refl) as [Sw St]. split; auto.
Qed.

(* ---------------- across sessions: records never name a session that has not started yet ---------------- *)
Definition rec_out (rest : list Z) (s : sim) : Prop :=
  ~ In (s_cur s) rest /\ forall e mk sid, In e (s_events s) -> es_halted e = Some (mk, sid) -> ~ In sid rest.

Lemma rec_frame rest s s' : s_events s' = s_events s -> s_cur s' = s_cur s -> rec_out rest s -> rec_out rest s'.
Proof. unfold rec_out. intros -> ->. auto. Qed.

Section RecOut.
Variable rest : list Z.
Let P := rec_out rest.
Lemma R_fail : forall s e, plain_err e = true -> P s -> P (fail s e).
Proof. intros s e _. unfold fail. destruct (s_err s); auto. Qed.
Lemma R_fail_exec : forall s mkid x e,
  find_mkt mkid (s_markets s) = Some x -> cur_switch s = true -> execution (mk_m x) = Err e ->
  P (emit s (EvRound mkid (m_running (mk_m x)) (s_cur s))) -> P (fail (emit s (EvRound mkid (m_running (mk_m x)) (s_cur s))) e).
Proof. intros s mkid x e _ _ _. generalize (emit s (EvRound mkid (m_running (mk_m x)) (s_cur s))). intros s1. unfold fail. destruct (s_err s1); auto. Qed.
Lemma R_probe : forall s ev k before mkid extra, P s -> P (emit s (ev_probe s ev k before mkid extra)). Proof. auto. Qed.
Lemma R_callback : forall s aid kind r mkid, P s -> P (callback s aid kind r mkid).
Proof.
  intros s aid kind r mkid H. unfold callback. destruct (find_agent aid (s_agents s)); [|apply R_fail; auto].
  destruct (find_mkt mkid (s_markets s)); [|apply R_fail; auto]. exact H.
Qed.
Lemma R_step : forall s kind mkid x, find_mkt mkid (s_markets s) = Some x -> P s -> P (emit s (ev_step s kind x)). Proof. auto. Qed.
Lemma R_logs rs : forall s, P s -> P (fold_left (fun s r => log_event s r []) rs s).
Proof. induction rs as [|r rest0 IH]; simpl; intros s H; auto. Qed.
Lemma R_accept_order : forall s mkid x ag mk buy p v ttlv m' rc tag,
  find_mkt mkid (s_markets s) = Some x -> add_order (mk_m x) ag mk buy p v ttlv = Ok (m', rc) -> P s -> P (do_accept_order s mkid x m' rc tag).
Proof. intros. assumption. Qed.
Lemma R_accept_cancel : forall s mkid x i m' rc,
  find_mkt mkid (s_markets s) = Some x -> cancel_order (mk_m x) i = Ok (m', rc) -> P s -> P (do_accept_cancel s mkid m' rc).
Proof. intros. assumption. Qed.
Lemma R_round : forall s mkid x, find_mkt mkid (s_markets s) = Some x -> cur_switch s = true ->
  P s -> P (emit s (EvRound mkid (m_running (mk_m x)) (s_cur s))). Proof. auto. Qed.
Lemma R_fills : forall s mkid x m' logs,
  find_mkt mkid (s_markets s) = Some x -> execution (mk_m x) = Ok (m', logs) -> cur_switch s = true ->
  (exists tr, s_trace s = EvRound mkid (m_running (mk_m x)) (s_cur s) :: tr) -> P s -> P (do_fills s mkid m' logs).
Proof.
  intros s mkid x m' logs _ _ _ _ H. unfold do_fills.
  pose proof (R_logs logs (set_market s mkid m') H) as G. exact G.
Qed.
Lemma R_tick_all : forall s, P s -> P (tick_all s).
Proof. apply tick_all_pres_e; [apply R_fail|]. intros s x f m' recs _ _ H. unfold do_tick. apply R_logs. exact H. Qed.
Lemma R_pop_perm : forall s, P s -> P (fst (pop_perm s)).
Proof. intros s H. unfold pop_perm. destruct (s_tape s) as [|[l|q] r]; simpl; try (apply R_fail; auto). exact H. Qed.
Lemma R_pop_draw : forall s, P s -> P (fst (pop_draw s)).
Proof. intros s H. unfold pop_draw. destruct (s_tape s) as [|[l|q] r]; simpl; try (apply R_fail; auto). exact H. Qed.
Lemma R_consult : forall s aid, P s -> P (fst (consult s aid)).
Proof.
  intros s aid H. unfold consult. destruct (s_batches s) as [|[a b] r]; simpl; [apply R_fail; auto|].
  destruct (a =? aid); simpl; [exact H|apply R_fail; auto].
Qed.
Lemma R_events s f i : (forall e, es_halted (f e) = es_halted e \/ es_halted (f e) = None \/ exists mk, es_halted (f e) = Some (mk, s_cur s)) ->
  P s -> P (s <| s_events := upd_event i f (s_events s) |>).
Proof.
  intros Hf [Cu R]. split; [exact Cu|]. cbn. intros e' mk sid He' Hh. apply upd_event_in in He'. destruct He' as [e [He ->]].
  destruct (es_id e =? i); [|eapply R; eauto].
  destruct (Hf e) as [E|[E|[mk' E]]]; rewrite E in Hh; [eapply R; eauto|discriminate|]. inversion Hh; subst. exact Cu.
Qed.
Lemma R_spent : forall s eid, P s -> P (s <| s_events := upd_event eid (fun e => e <| es_spent := true |>) (s_events s) |>).
Proof. intros s eid. apply R_events. intros e. left. reflexivity. Qed.
Lemma R_halt_after : forall s e mkid, In e (s_events s) -> round_ctx mkid s -> P s -> P (halt_after_execution s e mkid).
Proof.
  intros s e mkid _ _ H. unfold halt_after_execution. destruct (es_kind e); auto.
  destruct (find_mkt mkid (s_markets s)) as [x|]; [|apply R_fail; auto].
  destruct (mprice_at x 0); [|apply R_fail; auto]. destruct (mprice_at x (mtime x)); [|apply R_fail; auto].
  destruct (negb _); auto. destruct (_ && _); auto.
  match goal with |- P (?s2 <| s_events := upd_event ?i ?g (s_events ?s2') |>) =>
    assert (H2 : P s2) by exact H; apply (R_events s2 g i); [|exact H2] end.
  intros e0. right. right. eexists. reflexivity.
Qed.
Lemma R_halt_before : forall s e x, In e (s_events s) -> find_mkt (m_id (mk_m x)) (s_markets s) = Some x -> P s -> P (halt_before_step s e x).
Proof.
  intros s e x _ _ H. unfold halt_before_step. destruct (es_kind e); auto. destruct (_ && _); auto.
  destruct (es_halted e) as [[hm hs]|]; auto. destruct (negb _); auto.
  match goal with |- P (?s2 <| s_events := upd_event ?i ?g (s_events ?s2') |>) =>
    assert (H2 : P s2) by (destruct (hs =? s_cur s); exact H); apply (R_events s2 g i); [|exact H2] end.
  intros e0. right. left. reflexivity.
Qed.
Lemma R_shock : forall s e x, find_mkt (m_id (mk_m x)) (s_markets s) = Some x -> P s -> P (shock_before_step s e x).
Proof.
  intros s e x _ H. unfold shock_before_step. destruct (es_kind e); auto.
  destruct (negb _); [apply R_fail; auto|]. destruct (negb _); [apply R_fail; auto|]. destruct (geto _ _); [exact H|apply R_fail; auto].
Qed.
Lemma R_request : forall s r, P s -> P (handle_request s r).
Proof.
  apply (handle_request_k P R_fail R_fail_exec (fun s ev k b mk ex _ => R_probe s ev k b mk ex) R_callback R_accept_order R_accept_cancel
           R_round R_fills R_spent R_halt_after).
Qed.
Lemma rec_out_iterate n : forall s, P s -> P (iterate n s).
Proof.
  apply (iterate_k P R_fail (fun s ev k b mk ex _ => R_probe s ev k b mk ex) R_step R_tick_all R_pop_perm R_pop_draw R_consult
           R_halt_before R_shock R_request).
Qed.
End RecOut.

(* a state without a record for the current session satisfies the third clause whatever its markets are *)
Lemma halt_inv_fresh s s' : s_events s' = s_events s -> (forall e mk sid, In e (s_events s) -> es_halted e = Some (mk, sid) -> sid <> s_cur s') ->
  halt_inv s -> halt_inv s'.
Proof.
  intros Ev Nr [N [A [B _]]]. unfold halt_inv. rewrite Ev. split; [exact N|]. split; [exact A|]. split; [exact B|].
  intros e mk sid He Hh Hs. exfalso. exact (Nr e mk sid He Hh Hs).
Qed.

Lemma fire_simple_fields s k b t mk ex : s_events (fire_simple s k b t mk ex) = s_events s /\ s_cur (fire_simple s k b t mk ex) = s_cur s.
Proof.
  unfold fire_simple. generalize (hooks_for s k b t). intros l.
  assert (G : forall l s0, s_events (fold_left (fun s h => if ok s && is_probe s h then emit s (ev_probe s (h_ev h) k b mk ex) else s) l s0) = s_events s0 /\
                           s_cur (fold_left (fun s h => if ok s && is_probe s h then emit s (ev_probe s (h_ev h) k b mk ex) else s) l s0) = s_cur s0).
  { induction l0 as [|h r IH]; simpl; intros s0; auto. destruct (IH (if ok s0 && is_probe s0 h then emit s0 (ev_probe s0 (h_ev h) k b mk ex) else s0)) as [A B].
    rewrite A, B. destruct (ok s0 && is_probe s0 h); auto. }
  apply G.
Qed.

(* A WHOLE SESSION, entered with no record naming it or a later session *)
Theorem halt_inv_session s se0 rest : ~ In (se_id se0) rest ->
  halt_inv s -> rec_out (se_id se0 :: rest) s -> halt_inv (run_session s se0) /\ rec_out rest (run_session s se0).
Proof.
  intros Nin H [Cu R].
  assert (R' : rec_out rest s).
  { split; [intros C; apply Cu; right; exact C|]. intros e mk sid He Hh C. apply (R e mk sid He Hh). right. exact C. }
  unfold run_session. destruct (negb (ok s)); [split; assumption|].
  set (sa := s <| s_cur := se_id se0 |>).
  assert (Fresh : forall e mk sid, In e (s_events s) -> es_halted e = Some (mk, sid) -> sid <> se_id se0).
  { intros e mk sid He Hh C. apply (R e mk sid He Hh). left. symmetry. exact C. }
  assert (Ha : halt_inv sa) by (apply (halt_inv_fresh s sa); [reflexivity|exact Fresh|exact H]).
  assert (Ra : rec_out rest sa).
  { split; [exact Nin|]. intros e mk sid He Hh C. apply (R e mk sid He Hh). right. exact C. }
  assert (Fs : forall s1 k b t mk ex, halt_inv s1 /\ rec_out rest s1 -> halt_inv (fire_simple s1 k b t mk ex) /\ rec_out rest (fire_simple s1 k b t mk ex)).
  { intros s1 k b t mk ex H1. unfold fire_simple. apply (fold_left_pres (fun s => halt_inv s /\ rec_out rest s)); auto.
    intros s2 h [H2 R2]. destruct (ok s2 && is_probe s2 h); auto. }
  destruct (Fs sa HSession true (se_start se0) (-1) [VZ (se_id se0); VZ (se_start se0)] (conj Ha Ra)) as [H1 R1].
  destruct (fire_simple_fields sa HSession true (se_start se0) (-1) [VZ (se_id se0); VZ (se_start se0)]) as [Ev1 Cu1].
  set (s1 := fire_simple sa HSession true _ _ _) in *.
  destruct (negb (ok s1)); [split; assumption|].
  set (sb := flush (write s1 (EvSessBegin (se_id se0) (clock s1)))).
  assert (Hb : halt_inv (begin_iteration sb)).
  { apply (halt_inv_fresh s1); [reflexivity| |exact H1].
    intros e mk sid He Hh. rewrite Ev1 in He. assert (Ec : s_cur (begin_iteration sb) = se_id se0) by (cbn; exact Cu1).
    rewrite Ec. eapply Fresh; eauto. }
  assert (Rb : rec_out rest (begin_iteration sb)) by exact R1.
  pose proof (halt_inv_iterate (Z.to_nat (se_steps se0)) _ Hb) as H3.
  pose proof (rec_out_iterate rest (Z.to_nat (se_steps se0)) _ Rb) as R3.
  set (s3 := iterate (Z.to_nat (se_steps se0)) (begin_iteration sb)) in *.
  destruct (negb (ok s3)); [split; assumption|].
  destruct (Fs s3 HSession false (se_start se0 + se_steps se0 - 1) (-1) [VZ (se_id se0); VZ (se_start se0 + se_steps se0 - 1)] (conj H3 R3)) as [H4 R4].
  set (s4 := fire_simple s3 HSession false _ _ _) in *.
  destruct (negb (ok s4)); [split; assumption|].
  split; [revert H4; apply frame_same; reflexivity|exact R4].
Qed.

(* ALL SESSIONS of a run *)
Theorem halt_inv_sessions ss : forall s, NoDup (map se_id ss) -> halt_inv s -> rec_out (map se_id ss) s ->
  halt_inv (fold_left run_session ss s).
Proof.
  induction ss as [|se r IH]; simpl; intros s N H R; auto.
  inversion N as [|? ? Hn Nr]; subst.
  destruct (halt_inv_session s se (map se_id r) Hn H R) as [H1 R1]. apply IH; auto.
Qed.

Lemma mk_sessions_ids l : forall t, map se_id (mk_sessions l t) = map sc_id l.
Proof. induction l as [|x r IH]; simpl; intros t; [reflexivity|]. rewrite IH. reflexivity. Qed.

(* THE WHOLE RUN, for configurations with one trading-halt rule and distinct event / session ids: the invariant holds at the end
   (and, being preserved by each atomic update, throughout) *)
Theorem halt_inv_run c tape batches funds :
  NoDup (map ec_id (c_events c)) -> NoDup (map sc_id (c_sessions c)) -> ~ In (-1) (map sc_id (c_sessions c)) ->
  (forall e1 e2, In e1 (c_events c) -> In e2 (c_events c) -> is_halt (ec_kind e1) = true -> is_halt (ec_kind e2) = true -> ec_id e1 = ec_id e2) ->
  halt_inv (run c tape batches funds).
Proof.
  intros Ne Ns Nm1 One. unfold run.
  set (s0 := init_sim c tape batches funds).
  assert (H0 : halt_inv s0).
  { unfold halt_inv, s0, init_sim. cbn. rewrite map_map. cbn. split; [exact Ne|]. split; [|split].
    - intros e He Hh. apply in_map_iff in He. destruct He as [x [<- _]]. cbn in Hh. congruence.
    - intros e1 e2 H1 H2 K1 K2. apply in_map_iff in H1, H2. destruct H1 as [a [<- Ha]], H2 as [b [<- Hb]]. cbn in *. apply One; auto.
    - intros e mk sid He Hh. apply in_map_iff in He. destruct He as [x [<- _]]. cbn in Hh. discriminate. }
  pose proof (mk_sessions_ids (c_sessions c) 0) as Ids.
  assert (R0 : rec_out (map se_id (mk_sessions (c_sessions c) 0)) s0).
  { rewrite Ids. split; [exact Nm1|]. intros e mk sid He Hh. unfold s0, init_sim in He. cbn in He.
    apply in_map_iff in He. destruct He as [x [<- _]]. cbn in Hh. discriminate. }
  assert (H1 : halt_inv (tick_all (flush (write s0 EvSimBegin)))) by (apply Q_tick_all; revert H0; apply frame_same; reflexivity).
  assert (R1 : rec_out (map se_id (mk_sessions (c_sessions c) 0)) (tick_all (flush (write s0 EvSimBegin)))) by (apply R_tick_all; exact R0).
  set (s1 := tick_all (flush (write s0 EvSimBegin))) in *.
  assert (Ess : s_sessions s1 = mk_sessions (c_sessions c) 0).
  { unfold s1, tick_all.
    assert (G : forall L s, s_sessions (fold_left tick_market L s) = s_sessions s).
    { induction L as [|x r IH]; simpl; intros s; auto. rewrite IH. unfold tick_market.
      destruct (negb (ok s)); auto. destruct (find_mkt _ _) as [y|]; auto.
      match goal with |- context [match ?fv with Some _ => _ | None => _ end] => destruct fv as [f|] end.
      - destruct (tick (mk_m y) f) as [m' recs]. unfold do_tick.
        destruct (log_events_fields recs (set_market s (m_id (mk_m y)) m')) as [-> _]. reflexivity.
      - destruct (fail_fields s EIndex) as [_ [_ [_ [_ [-> _]]]]]. reflexivity. }
    rewrite !G. reflexivity. }
  rewrite Ess.
  assert (H2 : halt_inv (fold_left run_session (mk_sessions (c_sessions c) 0) s1)).
  { apply halt_inv_sessions; auto. rewrite Ids. exact Ns. }
  destruct (negb (ok (fold_left run_session (mk_sessions (c_sessions c) 0) s1))); auto.
Qed.

(* non-vacuity: a trade 4% away from the reference price under a 1% rule: the rule holds a record for session 0 at the end of the
   run, matching is off and the market is stopped *)
Example halt_example :
  let c := mkCfg [mkMC 0 (1#1) (100#1) None 1] [mkAC 0 false (1000#1) [(0, 10)]; mkAC 1 false (1000#1) [(0, 10)]]
                 [mkSC 0 2 true true 2 1 (0#1)] [mkEC 7 0 true (KHalt [0] (1#100) 5)] in
  let tape := [TPerm [0; 1]; TPerm [0; 1]; TDraw (1#2); TDraw (1#2); TPerm [0; 1]; TPerm [0; 1]; TDraw (1#2); TDraw (1#2)]%nat in
  let batches := [(0, [RNew 1 0 0 false (Some (103#1)) 5 None]); (1, [RNew 2 1 0 true (Some (103#1)) 2 None]);
                  (0, [RNew 3 0 0 false (Some (101#1)) 1 None]); (1, [RNew 4 1 0 true (Some (104#1)) 1 None])] in
  let funds := [(0, 0, 100#1); (0, 1, 100#1); (0, 2, 100#1)] in
  let s := run c tape batches funds in
  ok s = true /\ map es_halted (s_events s) = [Some (0, 0)] /\ s_cur s = 0 /\
  map (fun x => m_running (mk_m x)) (s_markets s) = [false] /\ cur_switch s = false.
Proof. vm_compute. repeat split. Qed.
