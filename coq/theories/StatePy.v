(* Static prelude of TRANSLATED units that mutate objects held in a dictionary (harness/py2coq_state.py): the meaning given to the few
   Python constructs that translator accepts.  The dictionary Simulator.id2agent is the model's list of agents; an object reference
   obtained by `self.id2agent[k]` is the key k (checked to be present: KeyError otherwise; keys never change); `ref.attr OP= e`
   modifies the attribute of the referenced object in place; `ref.d[k] OP= e` modifies an existing entry of the object's dict attribute and
   raises KeyError when the entry is missing.  Two references to one object alias, as in Python. *)
Require Import Pams.Prelude Pams.Match Pams.Market Pams.OrderPy Pams.Sim.
From RecordUpdate Require Import RecordSet.
Import RecordSetNotations.
Open Scope Z_scope.

Definition pbind {A B} (c : pres A) (k : A -> pres B) : pres B := match c with POk a => k a | PErr e => PErr e end.
Fixpoint pfold {S A} (f : S -> A -> pres S) (l : list A) (s : S) : pres S :=
  match l with [] => POk s | x :: r => pbind (f s x) (pfold f r) end.

(* pams.logs.base.ExecutionLog: the attributes a unit may read *)
Record pylog := mkLog { lg_market_id : Z; lg_time : Z; lg_buy_agent_id : Z; lg_sell_agent_id : Z;
                        lg_buy_order_id : Z; lg_sell_order_id : Z; lg_price : Q; lg_volume : Z }.
Definition rec_of_log (l : pylog) : record :=
  RExec (lg_market_id l) (lg_time l) (lg_buy_agent_id l) (lg_sell_agent_id l) (lg_buy_order_id l) (lg_sell_order_id l) (lg_price l) (lg_volume l).

Definition store := list agent.
Definition ref := Z.
Definition id2agent_get (st : store) (k : Z) : pres ref :=
  match find_agent k st with Some _ => POk k | None => PErr PyKeyError end.
(* ref.cash_amount OP= e *)
Definition aug_cash (st : store) (r : ref) (f : Q -> Q) : store := upd_agent r (fun a => a <| a_cash := f (a_cash a) |>) st.
(* ref.asset_volumes[k] OP= e *)
Definition aug_asset (st : store) (r : ref) (k : Z) (f : Z -> Z) : pres store :=
  match find_agent r st with
  | None => PErr PyKeyError
  | Some a => match assoc k (a_assets a) with
              | None => PErr PyKeyError
              | Some _ => POk (upd_agent r (fun a => a <| a_assets := map (fun kv => if fst kv =? k then (fst kv, f (snd kv)) else kv) (a_assets a) |>) st)
              end
  end.

(* a / b on floats read as rationals: ZeroDivisionError when the divisor is zero *)
Definition pdiv (a b : Q) : pres Q := if qeqb b (0#1) then PErr PyZeroDivisionError else POk (qdiv a b).
